#!/usr/bin/env python3
"""Generate /verif/MANIFEST.json from bin/plan.py and the per-property texts below."""
import json, sys, os, subprocess
sys.path.insert(0, '/verif/bin')
from plan import PLAN
hooks = subprocess.run("git -C /repo log --format=%h --grep='^verif hooks'", shell=True, stdout=subprocess.PIPE, text=True).stdout.split()
TXT = {
 "C01": ("TLA+ contract H2Api!Fidelity (pair ledger submit/deliver) evaluated by TLC on every recorded execution of real client<->real server under seeded schedules, chunkings, windows and back-pressure; design-level exploration of the data path in MC_Send", "4 C01"),
 "C02": ("TLC exhaustively explores the implementation-shaped send-side model H2Send (every interleaving of sends, reservations, WINDOW_UPDATE, SETTINGS up/down, resets with a frame parked in the codec) composed with the TLA+ credit ledger H2Wire!OutCredit; the model is bound to the code by replaying TLC-generated behaviours and comparing the statistics snapshot step by step; the same ledger is evaluated by TLC on every recorded real trace", "4 C02"),
 "C03": ("TLA+ receive-credit ledger (over-credit at every WINDOW_UPDATE, leak rules at every quiescence) evaluated by TLC on real traces where a scripted peer exhausts stream and connection windows exactly (padded, padding-only, on reset/refused/unaccepted streams)", "4 C03"),
 "C04": ("RFC 9113 5.1/6 reference automaton for emitted frames (H2Wire!OutLife) evaluated by TLC on every frame of every real trace, both roles; for the push path additionally TLC exhaustive on the implementation model H2Push (MC_Push, both roles: InvC04 - nothing after RST_STREAM, promises on live parents, ids increasing - with writes delayed arbitrarily) bound to the code by replaying TLC-generated behaviours (conformPush: frames in order and every slab record compared)", "4 C04, 11.12"),
 "C09": ("RFC 9113 classification of every received frame (H2Wire!Classify / PrefixMalformed: connection error, stream error, legal) and of the reaction owed, evaluated by TLC on real traces of both roles under protocol abuse after legal prefixes, floods, races of peer frames with local resets / cancellations / pushes, and policy rules (a flood verdict must be justified by what is unread: C09.data_budget); for the push path TLC exhaustive on H2Push (MC_Push: a peer frame that is legal given what is on the WIRE never costs the connection, an illegal one always does) bound to the code by conformPush", "4 C09, 11.12"),
 "C05": ("TLC exhaustive on the implementation model of the stream store H2Streams (MC_Streams: refused streams never reach the accept queue / the application, open => counted, counted <= limit, every closing path frees the slot) bound to the code by replaying TLC-generated behaviours with step-by-step snapshot comparison; TLA+ concurrency ledger (acknowledged limit, surfaced streams, refusal obligations, send-side limit and slot recycling) evaluated by TLC on real traces, incl. a scripted peer changing MAX_CONCURRENT_STREAMS while streams are open", "4 C05, 11.7"),
 "C06": ("TLC exhaustive on the implementation model of h2's wake-up protocol H2Tasks (MC_Tasks, 6 slices, both roles: every place that stores a waker, every place that wakes one; invariant: at no quiescent state a task is parked in a call that would now return Ready, the connection task is never parked with work it could do, nothing parked after the connection ended, no waker slot overwritten) bound to the code by replaying TLC-generated behaviours under the STRICT executor (a task is polled only if its waker fired) and comparing the set of parked tasks and every call result at every quiescence; TLA+ rules evaluated by TLC on real traces: nothing outstanding at the final quiescence of cooperative runs, a parked poll_capacity has no capacity, an accepted user ping is on the wire at every quiescence", "4 C06, 11.11"),
 "C07": ("TLA+ termination rule (ended connection leaves no operation pending) evaluated by TLC at final quiescence of real runs ending by GOAWAY, errors, EOF, drops", "4 C07"),
 "C08": ("panic / self-wake budget events are part of the trace alphabet that the TLA+ monitors reject; every simulated poll runs under catch_unwind; corpora: all families incl. protocol abuse after legal prefixes, floods, and byte-level mutation of the peer's stream (mutateB: bit flips, replaced / dropped / doubled octets in frame heads, lengths, HPACK and payloads, any fragmentation, both roles); the single-slot asserts of the control path are shown unreachable by TLC on H2Conn (MC_Conn InvAssert), the store asserts on H2Streams (InvAssert)", "4 C08"),
 "C10": ("TLC: RFC 7541 encoder/decoder sync invariant (Hpack/HpackSys) and the implementation-shaped index table model HpackTable (exhaustive); TLC-generated histories replayed on the real Encoder, output decoded by the reference and by h2's Decoder, validated by Trace_Hpack", "4 C10"),
 "C11": ("TLC enumerates every edge of the RFC 7541 decoder graph, all Huffman strings <= 2 octets (3-4 via the TLC-emitted trie) and prefix-integer classes; each case fed to the real Decoder whole and at every split; Trace_Hpack decides", "4 C11"),
 "C12": ("TLC: FrameLayout round-trip and reference vectors, IoChunk staging model (exhaustive schedules of short writes / Pending / WriteZero / read chunking) replayed literally on the real Codec; Trace_Codec decides; connection-level rule C12.out_size on all traces", "4 C12"),
 "C13": ("TLC enumerates all header-class lists up to length 4 (5) with RFC 9113 section 8 verdicts and the content-length automaton; each instantiated with bytes through a literal HPACK encoder and replayed on the real client/server; Trace_Http decides", "4 C13"),
 "C14": ("TLC exhaustive on the implementation model of the connection control machinery H2Conn (MC_Conn, both roles: every SETTINGS acknowledged exactly once in order with its values applied when the ACK is buffered, every PING answered once in order, one local SETTINGS outstanding, single-slot asserts unreachable, no lost wake-up) bound to the code by replaying TLC-generated behaviours and comparing every control frame, API result and snapshot per step; TLA+ FIFO acknowledgement ledgers + epoch rule evaluated by TLC on real traces incl. SETTINGS/PING bursts while the endpoint is blocked mid-frame", "4 C14, 11.9"),
 "C15": ("TLC exhaustive on H2Conn (MC_Conn: GOAWAY ids monotone and never below a surfaced stream, cut-off after GOAWAY sent / received, two-phase graceful shutdown completes also with stray / user PING ACKs, result reports the peer's code, idle client close) bound to the code by step-by-step replay; TLA+ GOAWAY / shutdown rules evaluated by TLC on real traces (scripted GOAWAY at any moment, graceful / abrupt shutdown at any moment, delayed shutdown-ping acks)", "4 C15, 11.9"),
 "C20": ("handle operations (send_data, reset, drops, reserve / capacity, poll_data, release, send_request, drop of the last SendRequest) executed INSIDE the read / write / flush callbacks of the connection task's transport - the lock-release points of Connection::poll - on parked handles, deterministic and seeded; the recorded traces are validated by TLC against ALL TLA+ contract monitors (every rule of C01-C19), a watchdog turns a lock held across a transport call into C20.deadlock; the frame-parked-in-the-codec window is explored exhaustively by TLC in MC_Send; plus REAL parallel executions (family threadsA: connections and every request half on their own OS threads, handle call + log entry atomic under the transport mutex so that the trace is a valid linearization, stall watchdog) validated by the same monitors", "4 C20, 11.8"),
 "C16": ("TLC exhaustive on H2Send + H2Api capacity rules (census invariant in EVERY reachable state: assigned never exceeds credit); model bound to code by step-by-step snapshot conformance; rules incl. pool/starvation evaluated by TLC on real traces with competing streams", "4 C16"),
 "C17": ("TLA+ reset ledger (one RST_STREAM, right code, none after clean close, no data after reset, others undisturbed) on real traces with resets at every position incl. partly written frames; peer error surfacing rules", "4 C17"),
 "C18": ("closed-form bounds over the endpoint's configuration (H2Bounds.tla: records not held by the application, buffered received events, queued frames, quota counters, CONTINUATION frames per block, owed acknowledgements) evaluated by TLC on every statistics snapshot of real executions under generated floods (dense snapshots after every poll of the connection task), small random limits, non-accepting applications and blocked writes; the store bound is derived and shown tight by TLC on the implementation model H2Streams (MC_Streams InvC18), which is bound to the code by snapshot conformance", "4 C18, 11.7"),
 "C19": ("TLC exhaustive on H2Streams (MC_Streams: nothing kept once released, counters consistent with the records, everything idle after all handles are dropped in every order, no stale key) bound to the code by snapshot conformance; H2Bounds rules on every quiescence snapshot of real traces (forgotten records, reset-memory bound, counted <= open on the wire, idle flow-control values, idle client close, no premature close) plus h2's own store-empty assertion at teardown", "4 C19, 11.7"),
}
checks = []
for pid in sorted(PLAN):
    p = PLAN[pid]
    text, ref = TXT.get(pid, ("", "4"))
    checks.append({
        "property_id": pid,
        "quick_cmd": "bin/check %s quick" % pid,
        "thorough_cmd": "bin/check %s thorough" % pid,
        "evidence_file": "/verif/evidence/%s.json" % pid,
        "replay_cmd_template": "bin/check %s --replay {path}" % pid,
        "engine": "tlc+h2sim",
        "level_claimed": {"category": p["level"], "text": text, "design_ref": "DESIGN.md section " + ref},
        "level_note": ("lock-point interleavings are systematic (seeded, reproducible); real multi-threaded executions are sampled OS schedules (inputs seeded, schedules not reproducible); " if pid == "C20" else "") + "trusted base: TLC 1.8 + CommunityModules Json reader, the harness transport/parser/HPACK reference, rustc; exhaustive only within the stated small constants of the MC slices; real-code executions are sampled (seeded) or TLC-generated, not all executions",
        "technique": "explicit TLA+ specification checked with TLC; conformance by trace validation of recorded executions of the real library against the TLA+ contract and by replay of TLC-generated behaviours with state comparison",
    })
claimed = set(PLAN)
na = []
props = [json.loads(l) for l in open('/verif/properties.jsonl')]
NA_REASON = {}
for pr in props:
    if pr["id"] not in claimed:
        na.append({"property_id": pr["id"], "reason": NA_REASON.get(pr["id"], "check under construction in this round (see DESIGN.md section 10); not claimed yet")})
m = {
 "version": 1,
 "setup_cmd": "cd /verif/harness && (test -f Cargo.lock || cp /repo/Cargo.lock .) && cargo build --offline 2>&1 | tail -2",
 "hooks": {"guard": "cargo feature h2_verif (off by default)", "enable": "harness depends on h2 with features unstable,stream,h2_verif (harness/Cargo.toml)",
           "baseline_off_cmd": "cd /repo && cargo test --workspace --no-fail-fast --offline",
           "source_commits": hooks, "add_only": True},
 "engines": [{"name": "tlc+h2sim", "path": "/verif/bin/check", "serves_properties": sorted(PLAN), "kind_free_text": "TLC model checking of TLA+ implementation models composed with TLA+ contract monitors; deterministic simulator driving the real library; TLC trace validation"}],
 "checks": checks,
 "notes": "See DESIGN.md. Genuine defects found are listed in known_findings.json (findings + fixed).",
 "not_applicable": na,
}
json.dump(m, open('/verif/MANIFEST.json', 'w'), indent=1)
print(len(checks), "checks;", len(na), "not claimed")
