#!/bin/bash
# tv.sh <trace.ndjson> <verdict.json> [spec]  -- validate a recorded trace batch with TLC
T=$1; O=$2; SPEC=${3:-Trace_All}
MD=$(mktemp -d /tmp/tlcw.XXXXXX)
cd /verif/spec/trace
TRACE=$T OUT=$O JAVA_TOOL_OPTIONS="-Xss1g -DTLA-Library=/verif/spec" timeout 1200 /verif/bin/tlcw -workers 1 -metadir $MD -cleanup -noGenerateSpecTE -config $SPEC.cfg $SPEC.tla > $O.log 2>&1
R=$?
rm -rf $MD
grep -E "Error|error|states generated|Finished in" $O.log | head -20
exit $R
