#!/usr/bin/env python3
import json,collections,sys
d=json.load(open(sys.argv[1]))
print('consumed',d['consumed'],'total',d['total'],'runs',d['runs'])
c=collections.Counter((v['v']['rule']) for v in d['viols'])
print(c)
seen=collections.Counter()
for v in d['viols']:
    r=v['v']['rule']; seen[r]+=1
    if seen[r]<=int(sys.argv[2]) if len(sys.argv)>2 else 3: print(json.dumps(v)[:600])
if len(sys.argv)>3: print(d['hits'])
