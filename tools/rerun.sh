#!/bin/bash
# rerun.sh <runname> [filter...] : re-run one scenario of the cached quick corpus of the current tree and show it
R=$1; shift
F=$(echo $R | sed 's/-.*//')
S=$(ls -t /verif/.work/cache/*/${F}_*/$F.scn | head -1)
grep "\"name\":\"$R\"" $S > /tmp/r.scn
/verif/harness/target/debug/sim --scenario /tmp/r.scn --out /tmp/r.ndjson 2>/dev/null
/verif/tools/showrun.py /tmp/r.ndjson $R "$@"
