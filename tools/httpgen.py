#!/usr/bin/env python3
"""httpgen.py - property C13: turns TLC-enumerated cases (spec/mc/MC_HttpLists.tla: header lists over the class
alphabet with their expected defects per position; spec/mc/MC_HttpCl.tla: content-length behaviours) into
 * scenario JSON lines for the simulator `sim` (mode Bs: real server + scripted client peer, Bc: real client +
   scripted server peer; the peer's literal HPACK encoder sends exactly the bytes given), and
 * programs for the send-side driver `httpsend` (real client + real server, shapes the `http` types allow).

A case is a dict {"id", "pos", "h": [classes], "exp": [defects], "f": [[name, value], ...] (concrete bytes),
"frag", "huff", ...}; pos in req0 | req1 (request, server without / with extended CONNECT) | head (first block of a
response) | push | trl_s | trl_c (trailers to a server / client) | cl_s | cl_c (content-length behaviours).
Several cases share one connection (one stream each).  A case that is likely to end the connection (HPACK-level
rejections) is always the last one of its connection, preceded by a quiescence point so that the obligations of
the earlier cases are judged first.  Which cases really were evaluated is measured from the trace, never assumed.
Python stdlib only.  Used by bin/engines/C13; `httpgen.py replay <case.json>` replays one reported case."""
import json, os, random, subprocess, sys, tempfile
TLCW = os.path.join(os.path.dirname(os.path.dirname(os.path.abspath(__file__))), "bin", "tlcw")  # tlc with a large main-thread stack

INST = {
    ":method=GET": [(":method", "GET")],
    ":method=HEAD": [(":method", "HEAD")],
    ":method=CONNECT": [(":method", "CONNECT")],
    ":method=POST": [(":method", "POST")],
    ":method=OPTIONS": [(":method", "OPTIONS")],
    ":method=OTHER": [(":method", "PUT"), (":method", "DELETE"), (":method", "PATCH")],   # unsafe methods only (push)
    ":scheme": [(":scheme", "https"), (":scheme", "http")],
    ":path": [(":path", "/"), (":path", "/a/b?q=1"), (":path", "/index.html")],
    ":path=empty": [(":path", "")],
    ":authority": [(":authority", "sim.test:443"), (":authority", "example.com:8080")],
    ":protocol": [(":protocol", "websocket")],
    ":status=1xx": [(":status", "100"), (":status", "103")],
    ":status=2xx": [(":status", "200"), (":status", "404"), (":status", "500"), (":status", "206")],
    ":status=204": [(":status", "204")],
    ":status=304": [(":status", "304")],
    ":status=bad": [(":status", "99"), (":status", "1000"), (":status", "abc"), (":status", "20")],
    ":unknown": [(":foo", "bar"), (":version", "2"), (":host", "sim.test")],
    "upper": [("X-Up", "1"), ("Content-Type", "text/plain"), ("accepT", "*/*")],
    "badname": [("x y", "1"), ("x\u007f", "1"), ("x:y", "1"), ("", "1"), ("café", "1")],
    "connspec": [("connection", "keep-alive"), ("keep-alive", "timeout=5"), ("proxy-connection", "keep-alive"),
                 ("transfer-encoding", "chunked"), ("upgrade", "websocket")],
    "te=trailers": [("te", "trailers")],
    "te=other": [("te", "gzip"), ("te", "trailers, deflate"), ("te", "deflate;q=0.5")],
    "cl": [("content-length", "0")],
    "cl=bad": [("content-length", "abc"), ("content-length", "-1"), ("content-length", "1.5"),
               ("content-length", "0x10"), ("content-length", "+0")],
    "badvalue": [("x-v", "a\u0000b"), ("x-v", "a\rb"), ("x-v", "a\nb")],
    "plain": [("x-a", "1"), ("accept", "*/*"), ("user-agent", "h2sim/0.1"), ("cookie", "a=b"), ("x-empty", ""),
              ("x-utf", "café"), ("content-type", "text/plain")],
}
ALPHABET = sorted(INST)
# classes whose presence usually makes h2 fail the whole connection (HPACK-level rejection): packing heuristic only
FATAL = {"upper", "badname", "badvalue", ":unknown", ":status=bad"}
PER_CONN = 48
FRAGS = [0, 0, 0, 5, 7, 9, 13, 17, 24, 40]


def materialize(case, rng, variant):
    """choose the concrete bytes of a list case: variant 0 = canonical choice, one frame, plain literals"""
    h = case["h"]
    if variant == 0:
        case["f"] = [list(INST[c][0]) for c in h]
        case["frag"], case["huff"] = 0, False
    else:
        case["f"] = [list(rng.choice(INST[c])) for c in h]
        case["frag"], case["huff"] = rng.choice(FRAGS), rng.random() < 0.4
    case["v"] = variant
    return case


def H(sid, fields, eos, frag=0, huff=False):
    return {"k": "headers", "sid": sid, "hid": 0, "fields": fields, "eos": eos, "frag": frag, "huff": huff,
            "status": 0, "req": False, "method": "", "tag": 0}


def PP(sid, promised, fields, frag=0):
    if not fields:      # the peer would substitute its default promise for an empty list: send the raw frame
        return {"k": "frame", "ty": 5, "fl": 4, "sid": sid, "hex": "%08x" % promised}
    return {"k": "push_promise", "sid": sid, "promised": promised, "hid": 0, "fields": fields, "frag": frag, "tag": 0}


def DATA(sid, n, eos):
    return {"k": "data", "sid": sid, "n": n, "eos": eos}


REQ_HEAD = [[":method", "POST"], [":scheme", "https"], [":authority", "sim.test"], [":path", "/t"]]
RESP_HEAD = [[":status", "200"]]


def is_interim(h):
    for c in h:
        if c.startswith(":status="):
            return c == ":status=1xx"
    return False


def cl_fields(clv):
    return [["content-length", "abc" if x == -2 else str(x)] for x in clv]


def likely_fatal(case):
    return any(c in FATAL for c in case.get("h", []))


def body_steps(case, sid):
    steps = []
    for f in case["frames"]:
        steps.append(DATA(sid, f["n"], f["es"]))
    if case["fin"] == "trailers":
        steps.append(H(sid, [["x-trailer", "t"]], True))
    return steps


def server_steps(case, sid):
    """Bs: the scripted client opens stream sid with the case"""
    pos = case["pos"]
    if pos in ("req0", "req1"):
        return [H(sid, case["f"], True, case["frag"], case["huff"])]
    if pos == "trl_s":
        return [H(sid, REQ_HEAD, False), DATA(sid, 2, False), H(sid, case["f"], case.get("es", True), case["frag"], case["huff"])]
    if pos == "cl_s":
        return [H(sid, REQ_HEAD + cl_fields(case["clv"]), case["hes"])] + body_steps(case, sid)
    raise ValueError(pos)


def client_steps(case, sid, promised):
    """Bc: the scripted server answers the request on stream sid with the case"""
    pos = case["pos"]
    if pos == "head":
        if is_interim(case["h"]):
            return [H(sid, case["f"], False, case["frag"], case["huff"]), H(sid, RESP_HEAD, True)]
        return [H(sid, case["f"], True, case["frag"], case["huff"])]
    if pos == "trl_c":
        return [H(sid, RESP_HEAD, False), DATA(sid, 2, False), H(sid, case["f"], case.get("es", True), case["frag"], case["huff"])]
    if pos == "push":
        return [PP(sid, promised, case["f"], case["frag"]), H(sid, RESP_HEAD, True)]
    if pos == "cl_c":
        st = {"none": "200", "head": "200", "204": "204", "304": "304"}[case["ex"]]
        return [H(sid, [[":status", st]] + cl_fields(case["clv"]), case["hes"])] + body_steps(case, sid)
    raise ValueError(pos)


def group_key(case):
    pos = case["pos"]
    if pos in ("req0", "trl_s", "cl_s"):
        return ("Bs", False)
    if pos == "req1":
        return ("Bs", True)
    return ("Bc", False)


def pack(cases, per_conn=PER_CONN):
    """split cases into connections: same mode/config, at most per_conn streams, a likely-fatal case only last"""
    groups = {}
    for c in cases:
        groups.setdefault(group_key(c), []).append(c)
    conns = []
    for key, cs in sorted(groups.items()):
        calm = [c for c in cs if not likely_fatal(c)]
        fatal = [c for c in cs if likely_fatal(c)]
        per = per_conn
        if fatal:
            per = max(1, min(per_conn, -(-len(calm) // len(fatal)))) if calm else 0
        i = 0
        while i < len(calm) or fatal:
            chunk = calm[i:i + per] if per else []
            i += len(chunk)
            last = fatal.pop() if fatal else None
            if not chunk and last is None:
                break
            conns.append((key, chunk, last))
    return conns


def scenario(name, key, chunk, last, seed=0):
    """one connection carrying the cases of `chunk` (+ `last`, after a quiescence point);
    returns (scenario dict, {stream id (promised id for a push) -> case id})"""
    mode, ecp = key
    scn = {"name": name, "mode": mode, "aims": ["C13"],
           "peer_cfg": {"ack_settings": True, "ack_ping": True, "grant": "all"},
           "sched": {"then": "fifo", "seed": seed & 0x7fffffff}}
    smap = {}
    allc = list(chunk) + ([last] if last is not None else [])
    # first quiescence: handshake over, SETTINGS acknowledged (Bc: every request is on the wire)
    peer = [{"k": "wait_q"}]
    if mode == "Bs":
        if ecp:
            scn["scfg"] = {"enable_connect_protocol": True}
        sid = 1
        for c in allc:
            if c is last and chunk:
                peer.append({"k": "wait_q"})
            peer += server_steps(c, sid)
            smap[sid] = c["id"]
            sid += 2
    else:
        reqs = []
        sid, promised = 1, 2
        for i, c in enumerate(allc):
            if c is last and chunk:
                peer.append({"k": "wait_q"})
            method = "HEAD" if c.get("ex") == "head" else "GET"
            reqs.append({"tag": i + 1, "method": method, "hid": 0, "eos": True, "ready": True, "ops": [],
                         "read": {"info": True, "push": c["pos"] == "push"}})
            peer += client_steps(c, sid, promised)
            smap[promised if c["pos"] == "push" else sid] = c["id"]
            if c["pos"] == "push":
                promised += 2
            sid += 2
        scn["reqs"] = reqs
    scn["peer"] = peer
    return scn, smap


def build(cases, seed, prefix="h", per_conn=PER_CONN):
    """returns (list of scenario dicts, {run name -> {sid -> case id}})"""
    scns, maps = [], {}
    for n, (key, chunk, last) in enumerate(pack(cases, per_conn)):
        name = "%s%05d" % (prefix, n)
        s, m = scenario(name, key, chunk, last, seed * 1000003 + n)
        scns.append(s)
        maps[name] = m
    return scns, maps


def single(case, name="replay"):
    """a connection carrying only this case"""
    s, m = scenario(name, group_key(case), [], case)
    return s


# ---- seeded random lists (beyond the TLC-enumerated bound): a valid skeleton with a few random edits ---------
SKELETONS = {
    "req0": [[":method=GET", ":scheme", ":path"], [":method=POST", ":scheme", ":authority", ":path", "cl"],
             [":method=CONNECT", ":authority"], [":method=OPTIONS", ":scheme", ":path", "te=trailers"]],
    "req1": [[":method=CONNECT", ":protocol", ":scheme", ":path", ":authority"], [":method=GET", ":scheme", ":path"],
             [":method=CONNECT", ":authority"]],
    "head": [[":status=2xx"], [":status=2xx", "cl", "plain"], [":status=1xx", "plain"], [":status=204"], [":status=304", "plain"]],
    "push": [[":method=GET", ":scheme", ":authority", ":path"], [":method=HEAD", ":scheme", ":path", "plain"]],
    "trl_s": [["plain"], ["plain", "plain"], []],
    "trl_c": [["plain"], ["plain", "te=trailers"], []],
}


def random_list(pos, rng):
    h = list(rng.choice(SKELETONS[pos]))
    for _ in range(rng.choice([0, 1, 1, 2, 3])):
        op = rng.random()
        if op < 0.45 or not h:
            h.insert(rng.randrange(len(h) + 1), rng.choice(ALPHABET))
        elif op < 0.7:
            h[rng.randrange(len(h))] = rng.choice(ALPHABET)
        elif op < 0.85:
            del h[rng.randrange(len(h))]
        else:
            i, j = rng.randrange(len(h)), rng.randrange(len(h))
            h[i], h[j] = h[j], h[i]
    for _ in range(rng.choice([0, 0, 1, 2])):
        h.append("plain")
    return h


# ---- send side: shapes of the public send API ---------------------------------------------------------------
SENDABLE = ["connspec", "te=trailers", "te=other", "cl", "cl=bad", "plain"]
ABS = "https://sim.test/p"


def send_programs(reg_lists, rng):
    """reg_lists: TLC-enumerated lists over the regular classes the http types can express (length <= 2).
    Returns programs for `httpsend`: every entry point of the send API x pseudo-header shapes x regular lists."""
    progs = []

    def add(tag, req=None, resp=None, ecp=False):
        r = {"method": "GET", "uri": ABS, "eos": True}
        r.update(req or {})
        s = {"status": 200, "eos": True}
        s.update(resp or {})
        progs.append({"name": "s%04d_%s" % (len(progs), tag), "ecp": ecp, "req": r, "resp": s})

    def fields(lst, variant):
        out = []
        for c in lst:
            ch = INST[c]
            out.append(list(ch[0] if variant == 0 else rng.choice(ch)))
        return out

    # 1. request pseudo-header shapes: method x uri form x version x :protocol x peer setting
    for method in ["GET", "HEAD", "POST", "OPTIONS", "CONNECT", "PUT"]:
        for uri in [ABS, "https://sim.test", "sim.test:443", "/p", "*", "http://sim.test/p?q=1"]:
            for http2 in (False, True):
                for proto in ("", "websocket"):
                    for ecp in (False, True):
                        if proto == "" and ecp:
                            continue
                        add("req", {"method": method, "uri": uri, "http2": http2, "protocol": proto,
                                    "eos": method != "CONNECT", "data": []}, ecp=ecp)
    # 2. regular fields through every entry point
    for lst in reg_lists:
        for variant in ((0,) if len(lst) == 0 else (0, 1)):
            f = fields(lst, variant)
            add("reqf", {"fields": f})
            add("respf", None, {"fields": f})
            add("infof", None, {"infos": [{"status": 103, "fields": f}]})
            add("pushf", None, {"pushes": [{"method": "GET", "uri": "https://sim.test/pushed", "fields": f}]})
            add("reqtrl", {"method": "POST", "eos": False, "data": [2], "trailers": f})
            add("resptrl", None, {"eos": False, "data": [2], "trailers": f})
    # several values of one field name: only the first one might be looked at
    for f in ([["te", "trailers"], ["te", "gzip"]], [["te", "gzip"], ["te", "trailers"]],
              [["x-a", "1"], ["connection", "close"], ["x-b", "2"]]):
        add("multi_req", {"fields": f})
        add("multi_resp", None, {"fields": f})
        add("multi_trl", None, {"eos": False, "data": [1], "trailers": f})
        add("multi_push", None, {"pushes": [{"method": "GET", "uri": "https://sim.test/pushed", "fields": f}]})
    # 3. status classes through send_response / send_informational, before and after the final response
    for st in [100, 103, 200, 204, 304, 404]:
        for eos in (True, False):
            add("resp_status", None, {"status": st, "eos": eos, "data": [] if eos else [2]})
        add("info_status", None, {"infos": [{"status": st}]})
        add("info_after", None, {"info_after": [{"status": st}], "eos": False, "data": [1]})
    # 4. pushed requests: method x uri form
    for method in ["GET", "HEAD", "POST", "OPTIONS", "PUT", "CONNECT"]:
        for uri in ["https://sim.test/pushed", "sim.test:443", "/p", "https://sim.test"]:
            add("push", None, {"pushes": [{"method": method, "uri": uri}]})
    # 5. declared content-length vs body actually sent
    for cl in ["0", "1", "3"]:
        for data in ([], [0], [1], [3], [1, 2], [2, 2], [4]):
            f = [["content-length", cl]]
            add("req_cl", {"method": "POST", "fields": f, "eos": not data, "data": data})
            add("resp_cl", None, {"fields": f, "eos": not data, "data": data})
            add("resp_cl_trl", None, {"fields": f, "eos": False, "data": data or [0], "trailers": [["x-t", "1"]]})
        add("head_cl", {"method": "HEAD"}, {"fields": [["content-length", cl]]})
        add("s204_cl", None, {"status": 204, "fields": [["content-length", cl]]})
        add("s304_cl", None, {"status": 304, "fields": [["content-length", cl]]})
    return progs


# ---- replay of one reported case ---------------------------------------------------------------------------
VERIF = os.path.dirname(os.path.dirname(os.path.abspath(__file__)))


def run_trace_spec(trace, out, metadir, log):
    env = dict(os.environ, TRACE=trace, OUT=out, JAVA_TOOL_OPTIONS="-Xss1g -Xmx3g -DTLA-Library=%s/spec" % VERIF)
    cmd = ["timeout", "1800", TLCW, "-workers", "1", "-metadir", metadir, "-cleanup", "-noGenerateSpecTE",
           "-config", "Trace_Http.cfg", "Trace_Http.tla"]
    with open(log, "w") as lf:
        return subprocess.run(cmd, cwd=os.path.join(VERIF, "spec", "trace"), env=env, stdout=lf, stderr=subprocess.STDOUT).returncode


# Projection of a trace onto the events the HttpSemantics monitor reads (its Step leaves the monitor unchanged on
# every other event, so the verdict is the same; the projection only saves TLC parsing time).
KEEP_T = ('"t":"cfg"', '"t":"q"', '"t":"qf"', '"t":"fault"', '"t":"panic"')
KEEP_CALLS = tuple('"call":"%s"' % c for c in ("accept", "poll_response", "poll_info", "poll_push", "poll_trailers", "poll_data"))
KEEP_FRAMES = ('"hb":true', '"ty":"DATA"', '"ty":"RST_STREAM"', '"ty":"GOAWAY"', '"ty":"SETTINGS"', '"ty":"PUSH_PROMISE"')


def keep(line):
    if '"t":"api"' in line:
        return '"res":"pending"' not in line and any(k in line for k in KEEP_CALLS)
    if '"t":"in"' in line or '"t":"out"' in line:
        return any(k in line for k in KEEP_FRAMES)
    return any(k in line for k in KEEP_T)


def filter_trace(src, dst):
    n = 0
    with open(src) as f, open(dst, "w") as g:
        for line in f:
            if keep(line):
                g.write(line)
                n += 1
    return n


def replay(case_file):
    d = json.load(open(case_file))
    case = d.get("case", d)
    tmp = tempfile.mkdtemp(prefix="c13replay_", dir=os.path.join(VERIF, ".work"))
    scn, tr = os.path.join(tmp, "r.scn"), os.path.join(tmp, "r.ndjson")
    open(scn, "w").write(json.dumps(case["input"]) + "\n")
    exe = os.path.join(os.environ.get("C13_BIN") or os.path.join(VERIF, "harness", "target", "debug"),
                       "sim" if case["driver"] == "sim" else "httpsend")
    args = [exe, "--scenario", scn, "--out", tr] if case["driver"] == "sim" else [exe, "--in", scn, "--out", tr]
    subprocess.run(args, check=True, stderr=subprocess.DEVNULL)
    filter_trace(tr, tr + ".f")
    rc = run_trace_spec(tr + ".f", tr + ".verdict.json", os.path.join(tmp, "meta"), tr + ".log")
    if rc != 0:
        print(open(tr + ".log").read()[-2000:])
        sys.exit(2)
    v = json.load(open(tr + ".verdict.json"))
    for x in v["viols"]:
        print("violation:", json.dumps(x))
    print("violations=%d (trace kept in %s)" % (v["nviols"], tmp))
    sys.exit(1 if v["nviols"] else 0)


if __name__ == "__main__":
    if len(sys.argv) == 3 and sys.argv[1] == "replay":
        replay(sys.argv[2])
    print(__doc__)
    sys.exit(2)
