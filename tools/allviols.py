#!/usr/bin/env python3
"""list all violations found in the cached corpus of the CURRENT tree (all properties)"""
import sys,os,json,glob,collections
sys.path.insert(0,'/verif/bin')
import importlib.machinery, importlib.util
loader=importlib.machinery.SourceFileLoader('check','/verif/bin/check'); spec=importlib.util.spec_from_loader('check',loader); ck=importlib.util.module_from_spec(spec); loader.exec_module(ck)
tier=sys.argv[1] if len(sys.argv)>1 else 'quick'
key = ck.tree_hash([os.path.join(ck.REPO, "src"), os.path.join(ck.REPO, "Cargo.toml")]) + "_" + ck.tree_hash([ck.SPEC, os.path.join(ck.HARNESS, "src"), os.path.join(ck.VERIF, "bin")]) + "_%s_%d" % (tier, 1)
c=collections.Counter(); ex={}
for f in glob.glob('/verif/.work/cache/%s/*/done.json'%key):
    d=json.load(open(f))
    for v in d['viols']:
        k=(v['v']['rule'], json.dumps(v['v'].get('info'))[:110])
        c[k]+=1; ex.setdefault(k,(v['run'],v['ep'],v['v'].get('sid'),v['v']['l']))
print(key, len(glob.glob('/verif/.work/cache/%s/*/done.json'%key)),'families')
for k,n in sorted(c.items()): print(n,k,ex[k])
