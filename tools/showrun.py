#!/usr/bin/env python3
"""showrun.py trace.ndjson runname [filter-substr ...] : brief view of one run"""
import json,sys
lines=open(sys.argv[1]).read().split('\n')
name=sys.argv[2]; filt=sys.argv[3:]
on=False
def brief(e):
    t=e['t']
    if t in('out','in'):
        f=e['f']; x=f"{t} {e['ep']} {f['ty']} sid={f['sid']} len={f['len']} fl={f['fl']}"
        if f['ty']=='RST_STREAM' or f['ty']=='GOAWAY': x+=f" code={f['ch']*65536+f['cl']} last={f.get('last')}"
        if f['ty']=='WINDOW_UPDATE': x+=f" inc={f['inc']}"
        if f['ty']=='PUSH_PROMISE': x+=f" prom={f['prom']}"
        if f['ty']=='SETTINGS' and 'set' in f: x+=" "+json.dumps({k:v for k,v in f['set'].items() if v>=0 and k!='unk'})
        if f.get('hb'): x+=f" status={f['hdr']['status']} bes={f['bes']}"
        if f.get('bad'): x+=" BAD="+f['bad']
        return x
    if t=='api': return f"api {e['ep']} {e['task']} {e['call']} sid={e['sid']} tag={e['tag']} res={e['res']} n={e['n']} v={e['v']} eos={e['eos']} off={e['off']} code={e['ch']*65536+e['cl']} {e['e']['kind']}:{e['e']['msg']}"
    if t in ('rd','wr','fl'): return None if 'io' not in filt else json.dumps(e)
    return json.dumps(e)[:300]
for i,l in enumerate(lines):
    if not l: continue
    if '"t":"cfg"' in l:
        on = json.loads(l)['name']==name
        if on: print(i+1,l[:1500])
        continue
    if on:
        b=brief(json.loads(l))
        if b and (not [f for f in filt if f!='io'] or any(f in b for f in filt if f!='io')): print(i+1,b)
