#!/bin/bash
# usage: confirm_seed.sh <ID> [worktree]   -- confirm a seeded defect in its scratch worktree
# (1) demo fails with change (2) demo passes without (3) full suite passes with change (only known failure)
ID=$1; WT=${2:-/tmp/wt/$ID}; OUT=$WT/seeded_out
cd $WT || exit 2
export CARGO_NET_OFFLINE=true
DEMO=$(cat $OUT/demo_cmd.txt | grep -v '^#' | grep cargo | head -1)
echo "== demo cmd: $DEMO"
echo "== [1] demo WITH change (expect failure)"
( eval "$DEMO" ) > $OUT/confirm_demo_with.txt 2>&1; R1=$?
echo "exit=$R1"; grep -E "^test result" $OUT/confirm_demo_with.txt | tail -2
echo "== [2] demo WITHOUT change (expect pass)"
git apply -R $OUT/patch.diff || { echo "cannot reverse patch"; exit 2; }
( eval "$DEMO" ) > $OUT/confirm_demo_without.txt 2>&1; R2=$?
echo "exit=$R2"; grep -E "^test result" $OUT/confirm_demo_without.txt | tail -2
git apply $OUT/patch.diff || { echo "cannot re-apply patch"; exit 2; }
echo "== [3] full suite WITH change, demo moved aside"
mkdir -p /tmp/wt/aside_$ID; for f in tests/h2-tests/tests/seeded_*.rs; do [ -f "$f" ] && mv $f /tmp/wt/aside_$ID/; done
cargo test --workspace --no-fail-fast --offline > $OUT/confirm_suite_with.txt 2>&1
for f in /tmp/wt/aside_$ID/*.rs; do [ -f "$f" ] && mv $f tests/h2-tests/tests/; done; rmdir /tmp/wt/aside_$ID 2>/dev/null
grep -E "^test .* FAILED|^test result: FAILED|failed;" $OUT/confirm_suite_with.txt | grep -v " 0 failed" | head
NF=$(grep -E "^test .* \.\.\. FAILED" $OUT/confirm_suite_with.txt | grep -v clear_recv_buffer_caps_capacity_before_overflow | wc -l)
NP=$(grep -E "^test result" $OUT/confirm_suite_with.txt | awk '{s+=$4} END{print s}')
echo "suite: passed=$NP unexpected_failures=$NF"
if [ $R1 -ne 0 ] && [ $R2 -eq 0 ] && [ "$NF" = "0" ]; then echo "CONFIRMED $ID"; else echo "NOT-CONFIRMED $ID"; fi
