#!/bin/bash
# try_seed.sh <seed dir name> <PID...> : apply a seeded defect to /repo, run the quick checks of the given properties, undo.
S=$1; shift
cd /verif
git -C /repo diff --quiet || { echo "/repo has uncommitted changes"; exit 2; }
git -C /repo apply /verif/seeded/$S/patch.diff || { echo "patch does not apply"; exit 2; }
for p in "$@"; do
  echo "=== seeded/$S vs check $p"
  bin/check $p ${TIER:-quick} 2>&1 | grep -E "^(OK|VIOLATION|violation|TOOL|model)" | cut -c1-260 | head -8
done
git -C /repo checkout -- .
git -C /repo status --short | head -3
