#!/usr/bin/env python3
"""Regression of the seeded defects: does the CURRENT machinery still catch every change in seeded/<id>/patch.diff ?

For each seed: a scratch git worktree of /repo (HEAD) gets the patch, a scratch copy of the harness is built against it,
the families named in TABLE are generated and validated by TLC (Trace_All), or the engine of C10-C13 is run with its
binary override.  /repo itself and /verif/harness are not touched, so this can run beside the checks.
Writes seeded/REGRESSION.md.   usage: tools/seed_regress.py [seed ids...] [--scratch DIR]"""
import json, os, subprocess, sys, shutil, time, glob, collections

VERIF = os.path.dirname(os.path.dirname(os.path.abspath(__file__)))
REPO = "/repo"
TLCW = os.path.join(VERIF, "bin", "tlcw")

# seed -> (list of (family, count), set of rules that count as "caught", optional substring the info must contain)
TABLE = {
    "C01": ([("bpReset", 150)], {"C01.data", "C01.clean_end", "C01.trailers"}, None),
    "C01b": ([("mixA", 250), ("mixAd", 250)], {"C06.progress"}, None),   # not caught since C09.data_budget was withdrawn (DESIGN 11.15)
    "C02": ([("mixA", 250), ("flowBc", 200)], {"C02.stream_credit", "C02.conn_credit"}, None),
    "C02b": ([("mixA", 250), ("mixAd", 250)], {"C02.stream_credit"}, None),
    "C03": ([("flowBs", 200)], {"C03.stream_leak", "C03.conn_leak"}, None),
    "C03b": ([("wuBurstBs", 40)], {"C03.stream_leak"}, None),
    "C04": ([("mixA", 250), ("mixAd", 250)], {"C04.contiguous", "C04.data_state"}, None),
    "C04b": ([("flowBs", 200), ("mixAd", 250)], {"C04.after_rst"}, "WINDOW_UPDATE"),
    "C05": ([("concBc", 200)], {"C05.send_limit"}, None),
    "C05b": ([("floodBs", 50)], {"C05.refuse"}, None),
    "C06": ([("flowBs", 200), ("flowBc", 200), ("mixA", 250)], {"C06.progress", "C03.stream_leak"}, None),
    "C06b": ([("capWaitBc", 100), ("mixA", 250), ("flowBc", 200)], {"C06.progress", "C16.wait_woken", "C03.stream_leak"}, None),
    "C07": ([("goawayBc", 200)], {"C07.resolved"}, None),
    "C07b": ([("goawayBc", 200)], {"C07.resolved"}, None),
    "C08": ([("floodBs", 50)], {"C08.panic"}, None),
    "C08b": ([("mixA", 250), ("faultA", 320), ("mutateB", 600)], {"C08.panic"}, None),
    "C09": ([("abuseB", 400)], {"C09.legal_not_penalised"}, "GOAWAY"),
    "C09b": ([("pushRaceBs", 150)], {"C09.legal_not_penalised"}, "GOAWAY"),
    "C09c": ([("pushRaceBc", 150)], {"C09.legal_not_penalised"}, "GOAWAY"),
    "C14": ([("ctlB", 200)], {"C14.all_acked", "C14.settings_ack", "C14.pong"}, None),
    "C14b": ([("flowBc", 200), ("ctlB", 200)], {"C02.stream_credit"}, None),
    "C15": ([("shutdownBs", 200)], {"C15.graceful_completes"}, None),
    "C15b": ([("goawayBc", 200)], {"C15.no_new_after_goaway_in", "C15.no_request_after_goaway", "C15.graceful_completes", "C07.resolved", "C15.conn_result", "C19.idle_close"}, None),
    "C16": ([("capRace", 200)], {"C16.pool"}, None),
    "C16b": ([("mixA", 250), ("flowBc", 200)], {"C16.wait_woken"}, None),
    "C17": ([("bpReset", 150)], {"C17.others_undisturbed"}, None),
    "C17b": ([("rstRaceBc", 150)], {"C17.peer_reset_overridden"}, None),
    "C18": ([("floodBs", 50)], {"C18.empty_data_bound", "C18.recv_buffer_bound"}, None),
    "C18b": ([("floodBs", 50), ("abuseB", 400)], {"C18.error_reset_quota", "C18.quota_counters"}, None),
    "C19": ([("mixA", 250)], {"C19.slab_idle"}, "unlinked_record_kept_for_no_reason"),
    "C19b": ([("cancelA", 300)], {"C16.pool", "C19.flow_idle", "C06.progress"}, None),
    "C20": ([("inlineA", 300)], {"C19.idle_close", "C20.deadlock"}, None),
    "C20b": ([("pingsA", 150)], {"C06.ping_written"}, None),
}
ENGINES = {"C10": ("HPACK_HARNESS", "hpack"), "C11": ("HPACK_HARNESS", "hpack"), "C12": ("C12_CODEC", "codec"), "C13": ("C13_BIN", "")}


def sh(cmd, **kw):
    return subprocess.run(cmd, shell=isinstance(cmd, str), stdout=subprocess.PIPE, stderr=subprocess.STDOUT, text=True, **kw)


def validate(trace, out):
    env = dict(os.environ, TRACE=trace, OUT=out, JAVA_TOOL_OPTIONS="-Xss1g -Xmx4g -DTLA-Library=%s" % os.path.join(VERIF, "spec"))
    md = out + ".meta"
    r = sh(["timeout", "1800", TLCW, "-workers", "1", "-metadir", md, "-cleanup", "-noGenerateSpecTE", "-config", "Trace_All.cfg", "Trace_All.tla"],
           cwd=os.path.join(VERIF, "spec", "trace"), env=env)
    shutil.rmtree(md, ignore_errors=True)
    if not os.path.exists(out):
        print(r.stdout[-1500:])
        return None
    return json.load(open(out))


KNOWN = json.load(open(os.path.join(VERIF, "known_findings.json")))["findings"]


def is_known(v):
    """a violation that a known finding covers (same rule + discriminating info) is not a detection of the seed"""
    for k in KNOWN:
        if k["rule"] != v["rule"]:
            continue
        m = k.get("match", {})
        if "info" in m and json.dumps(v.get("info")) != json.dumps(m["info"]):
            continue
        if "info_contains" in m and m["info_contains"] not in json.dumps(v.get("info")):
            continue
        return True
    return False


def main():
    args = [a for a in sys.argv[1:] if not a.startswith("--")]
    scratch = os.path.join(os.environ.get("TMPDIR", "/tmp"), "h2verif_regress_%d" % os.getpid())
    if "--scratch" in sys.argv:
        scratch = sys.argv[sys.argv.index("--scratch") + 1]
        args = [a for a in args if a != scratch]
    seeds = args or sorted(os.path.basename(os.path.dirname(p)) for p in glob.glob(os.path.join(VERIF, "seeded", "*", "patch.diff")))
    os.makedirs(scratch, exist_ok=True)
    wt = os.path.join(scratch, "repo")
    hz = os.path.join(scratch, "harness")
    sh("git -C %s worktree remove --force %s" % (REPO, wt))
    r = sh("git -C %s worktree add --detach %s HEAD" % (REPO, wt))
    if r.returncode != 0:
        print(r.stdout); sys.exit(2)
    sh("rsync -a --exclude target %s/ %s/" % (os.path.join(VERIF, "harness"), hz))
    sh("sed -i 's#path = \"/repo\"#path = \"%s\"#' %s" % (wt, os.path.join(hz, "Cargo.toml")))
    head = sh("git -C %s log --format=%%h -1" % REPO).stdout.strip()
    rows = []
    try:
        for sd in seeds:
            t0 = time.time()
            patch = os.path.join(VERIF, "seeded", sd, "patch.diff")
            sh("git -C %s checkout -q -- ." % wt)
            r = sh("git -C %s apply %s" % (wt, patch))
            if r.returncode != 0:
                rows.append((sd, "PATCH DOES NOT APPLY", "", 0)); print(sd, "patch does not apply"); continue
            b = sh("cargo build --offline 2>&1 | tail -3", cwd=hz)
            if not os.path.exists(os.path.join(hz, "target", "debug", "sim")) or "error" in b.stdout:
                rows.append((sd, "BUILD FAILED", b.stdout[-200:], 0)); print(sd, "build failed"); continue
            found = collections.Counter()
            allr = collections.Counter()
            detail = ""
            if sd[:3] in ENGINES:
                var, exe = ENGINES[sd[:3]]
                out = os.path.join(scratch, "engine_" + sd)
                shutil.rmtree(out, ignore_errors=True); os.makedirs(out)
                env = dict(os.environ)
                env[var] = os.path.join(hz, "target", "debug", exe) if exe else os.path.join(hz, "target", "debug")
                r = sh([os.path.join(VERIF, "bin", "engines", sd[:3]), "quick", "1", out], env=env)
                try:
                    res = json.load(open(os.path.join(out, "result.json")))
                    known = json.load(open(os.path.join(VERIF, "known_findings.json")))["findings"]
                    for v in res.get("violations", []):
                        kn = False
                        for k in known:
                            if k["property"] == sd[:3] and k["rule"] == v["rule"]:
                                m = k.get("match", {})
                                if ("info" not in m or json.dumps(v.get("info")) == json.dumps(m["info"])) and ("info_contains" not in m or m["info_contains"] in json.dumps(v.get("info"))):
                                    kn = True
                        if not kn:
                            found[v["rule"]] += 1
                except Exception as e:
                    detail = "engine failed: %s %s" % (e, r.stdout[-300:])
                caught = sum(found.values()) > 0
            else:
                fams, rules, sub = TABLE[sd]
                for fam, n in fams:
                    tr = os.path.join(scratch, "%s_%s.ndjson" % (sd, fam))
                    r = sh([os.path.join(hz, "target", "debug", "sim"), "--gen", fam, "1", str(n), "--out", tr, "--quiet"])
                    if r.returncode == 3 and "DEADLOCK" in r.stdout:
                        found["C20.deadlock"] += 1
                        continue
                    if r.returncode != 0:
                        detail += "sim failed on %s; " % fam
                        continue
                    v = validate(tr, tr + ".verdict.json")
                    os.remove(tr)
                    if v is None:
                        detail += "TLC failed on %s; " % fam
                        continue
                    for x in v["viols"]:
                        if is_known(x["v"]):
                            continue
                        if "--all" in sys.argv:
                            allr[(fam, x["v"]["rule"], json.dumps(x["v"].get("info"))[:90])] += 1
                        if x["v"]["rule"] in rules and (sub is None or sub in json.dumps(x["v"].get("info"))):
                            found[x["v"]["rule"]] += 1
                caught = sum(found.values()) > 0
            rows.append((sd, "caught" if caught else "MISSED", ", ".join("%s x%d" % kv for kv in found.most_common(4)) + (" " + detail if detail else ""), time.time() - t0))
            print(sd, rows[-1][1], rows[-1][2], "%.0fs" % rows[-1][3], flush=True)
            for kk, nn in allr.most_common(25):
                print("    ", nn, kk)
    finally:
        sh("git -C %s checkout -q -- ." % wt)
        sh("git -C %s worktree remove --force %s" % (REPO, wt))
        sh("git -C %s worktree prune" % REPO)
        shutil.rmtree(scratch, ignore_errors=True)
    if args:
        sys.exit(1 if [r for r in rows if r[1] != "caught"] else 0)   # partial runs do not rewrite the report
    with open(os.path.join(VERIF, "seeded", "REGRESSION.md"), "w") as f:
        f.write("# Seeded defects vs the current machinery\n\n")
        f.write("Produced by `tools/seed_regress.py` on %s against /repo HEAD %s (each patch applied to a scratch worktree, a scratch harness built against it,\n" % (time.strftime("%Y-%m-%d %H:%M UTC", time.gmtime()), head))
        f.write("the families / engine named in the script's table run and validated by TLC; known findings are not counted).\n\n| seed | verdict | violations of the expected rules | s |\n|---|---|---|---|\n")
        for sd, verdict, what, dt in rows:
            f.write("| %s | %s | %s | %.0f |\n" % (sd, verdict, what, dt))
    missed = [r for r in rows if r[1] != "caught"]
    print("%d seeds, %d not caught" % (len(rows), len(missed)))
    sys.exit(1 if missed else 0)


if __name__ == "__main__":
    main()
