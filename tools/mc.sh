#!/bin/bash
# mc.sh <Module> <cfg> <log> [workers] [timeout] [extra tlc args...] -- run a TLC model-checking slice in the background
M=$1; C=$2; L=$3; W=${4:-8}; T=${5:-600}; shift 5
cd /verif/spec/mc
MD=/verif/.work/tlcmeta/mc_$$_$RANDOM
mkdir -p $MD
JAVA_TOOL_OPTIONS="-Xss1g -Xmx10g -DTLA-Library=/verif/spec" nohup timeout $T /verif/bin/tlcw -workers $W -metadir $MD -cleanup -noGenerateSpecTE -config $C $M.tla "$@" > $L 2>&1 &
echo started $!
