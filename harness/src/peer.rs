//! Scripted raw-frame peer (mode B). Own serializer, own HPACK (literal
//! encoder, reference decoder). Plays the server (peer_ep = 1) against a real
//! client, or the client (peer_ep = 0) against a real server.

use crate::scenario::*;
use crate::tasks::{body, hdrpool};
use crate::wire::*;
use crate::world::*;
use serde_json::json;

pub struct Peer {
    pub ep: usize,
    pub steps: Vec<PeerStep>,
    pub pc: usize,
    pub cfg: PeerCfg,
    pub split: Splitter,
    pub table: RefTable,
    pub block: Vec<u8>,
    pub block_sid: u32,
    pub block_es: bool,
    pub block_is_pp: bool,
    pub seen_out: usize,
    pub started: bool,
    pub sent_off: std::collections::HashMap<u32, u64>,
    pub lazy_grants: Vec<(u32, u32)>,
    pub req_done: Vec<u32>,
    pub eof_sent: bool,
    pub reset_sids: Vec<u32>,
    /// PINGs seen while automatic acknowledgement was off (acknowledged when it is switched on again)
    pub pending_pings: Vec<[u8; 8]>,
    /// C08: byte-level mutation of everything this peer writes (rng, octets written so far)
    pub mutator: std::cell::RefCell<Option<(rand::rngs::StdRng, usize)>>,
}

pub fn unhex(s: &str) -> Vec<u8> {
    let b: Vec<u8> = s.bytes().filter(|c| c.is_ascii_hexdigit()).collect();
    b.chunks(2).map(|p| u8::from_str_radix(std::str::from_utf8(p).unwrap(), 16).unwrap()).collect()
}

impl Peer {
    pub fn new(ep: usize, scn: &Scenario) -> Peer {
        let mut cfg = scn.peer_cfg.clone();
        if cfg.max_frame == 0 {
            cfg.max_frame = 16384;
        }
        if cfg.grant.is_empty() {
            cfg.grant = "all".into();
        }
        Peer {
            ep,
            steps: scn.peer.clone(),
            pc: 0,
            cfg,
            // the peer reads what the real endpoint (1 - ep) writes; a real client writes the preface
            split: Splitter::new(ep == 1),
            table: RefTable::new(4096),
            block: vec![],
            block_sid: 0,
            block_es: false,
            block_is_pp: false,
            seen_out: 0,
            started: false,
            sent_off: Default::default(),
            lazy_grants: vec![],
            req_done: vec![],
            eof_sent: false,
            reset_sids: vec![],
            pending_pings: vec![],
            mutator: std::cell::RefCell::new(scn.peer_cfg.mutate.map(|(seed, _, _)| (<rand::rngs::StdRng as rand::SeedableRng>::seed_from_u64(seed), 0usize))),
        }
    }

    fn wdir(&self) -> usize {
        self.ep
    }

    pub fn send_bytes(&self, w: &mut World, b: &[u8]) {
        let d = self.wdir();
        let mut m = self.mutator.borrow_mut();
        if let (Some((rng, sent)), Some((_, after, one_in))) = (m.as_mut(), self.cfg.mutate) {
            use rand::Rng;
            // flip a bit / replace / drop / duplicate single octets of the stream (frame heads, lengths, HPACK, payloads alike)
            let mut out = Vec::with_capacity(b.len() + 4);
            for &x in b {
                *sent += 1;
                if *sent > after && rng.gen_ratio(1, one_in.max(2)) {
                    match rng.gen_range(0..5) {
                        0 => out.push(x ^ (1 << rng.gen_range(0..8))),
                        1 => out.push(rng.gen()),
                        2 => {}
                        3 => { out.push(x); out.push(x); }
                        _ => out.push(if rng.gen_bool(0.5) { 0 } else { 0xff }),
                    }
                } else {
                    out.push(x);
                }
            }
            w.dirs[d].inflight.extend(out);
            return;
        }
        w.dirs[d].inflight.extend(b);
    }

    pub fn send(&self, w: &mut World, f: &Frame) {
        self.send_bytes(w, &f.ser());
    }

    pub fn start(&mut self, w: &mut World) {
        if self.started {
            return;
        }
        self.started = true;
        if self.ep == 0 {
            self.send_bytes(w, PREFACE);
        }
        let s = f_settings(&self.cfg.settings);
        self.send(w, &s);
    }

    /// The peer consumes bytes written by the real endpoint.
    pub fn consume(&mut self, w: &mut World, bytes: &[u8]) {
        let frames = self.split.push(bytes);
        let real_ep = 1 - self.ep;
        for f in frames {
            self.seen_out += 1;
            w.dirs[real_ep].consumed_frames = self.seen_out;
            w.log(json!({"t": "peer_rx", "ep": EP[real_ep], "idx": self.seen_out}));
            match f.ty {
                RST_STREAM => {
                    self.reset_sids.push(f.sid);
                }
                SETTINGS => {
                    if f.flags & F_ACK == 0 && self.cfg.ack_settings {
                        self.send(w, &f_settings_ack());
                    }
                }
                PING => {
                    if f.flags & F_ACK == 0 && f.payload.len() == 8 {
                        let mut pl = [0u8; 8];
                        pl.copy_from_slice(&f.payload);
                        if self.cfg.ack_ping {
                            self.send(w, &f_ping(true, pl));
                        } else {
                            self.pending_pings.push(pl);
                        }
                    }
                }
                DATA => {
                    let n = f.payload.len() as u32;
                    let es = f.flags & F_END_STREAM != 0;
                    if n > 0 {
                        match self.cfg.grant.as_str() {
                            "all" => {
                                self.send(w, &f_window_update(0, n));
                                if !es {
                                    self.send(w, &f_window_update(f.sid, n));
                                }
                            }
                            "lazy" => {
                                self.lazy_grants.push((0, n));
                                if !es {
                                    self.lazy_grants.push((f.sid, n));
                                }
                            }
                            _ => {}
                        }
                    }
                    if es {
                        self.request_done(w, f.sid);
                    }
                }
                HEADERS | PUSH_PROMISE | CONTINUATION => {
                    let mut frag: &[u8] = &f.payload;
                    if f.ty != CONTINUATION {
                        self.block.clear();
                        self.block_sid = f.sid;
                        self.block_es = f.ty == HEADERS && f.flags & F_END_STREAM != 0;
                        self.block_is_pp = f.ty == PUSH_PROMISE;
                        let mut pad = 0;
                        if f.flags & F_PADDED != 0 && !frag.is_empty() {
                            pad = frag[0] as usize;
                            frag = &frag[1..];
                        }
                        if f.ty == HEADERS && f.flags & F_PRIORITY != 0 && frag.len() >= 5 {
                            frag = &frag[5..];
                        }
                        if f.ty == PUSH_PROMISE && frag.len() >= 4 {
                            frag = &frag[4..];
                        }
                        if pad <= frag.len() {
                            frag = &frag[..frag.len() - pad];
                        }
                    }
                    self.block.extend_from_slice(frag);
                    if f.flags & F_END_HEADERS != 0 {
                        let _ = self.table.decode(&self.block.clone());
                        if self.block_es {
                            self.request_done(w, self.block_sid);
                        }
                    }
                }
                _ => {}
            }
        }
    }

    fn request_done(&mut self, w: &mut World, sid: u32) {
        if self.ep == 1 && self.cfg.respond && sid % 2 == 1 && !self.req_done.contains(&sid) && !self.reset_sids.contains(&sid) {
            self.req_done.push(sid);
            let block = enc_literal_block(&[(b":status".to_vec(), b"200".to_vec())], false);
            for f in f_headers(sid, &block, true, self.cfg.max_frame, None) {
                self.send(w, &f);
            }
        }
    }

    pub fn at_quiescence(&mut self, w: &mut World) -> bool {
        if !self.lazy_grants.is_empty() {
            let g = std::mem::take(&mut self.lazy_grants);
            for (sid, n) in g {
                self.send(w, &f_window_update(sid, n));
            }
            return true;
        }
        false
    }

    /// Is the next scripted step enabled?
    pub fn enabled(&self, quiescent: bool) -> bool {
        if self.pc >= self.steps.len() {
            return false;
        }
        match &self.steps[self.pc] {
            PeerStep::WaitQ => quiescent,
            PeerStep::WaitOut { n } => self.seen_out >= *n,
            _ => true,
        }
    }

    pub fn has_steps(&self) -> bool {
        self.pc < self.steps.len()
    }

    pub fn step(&mut self, w: &mut World) {
        if self.pc >= self.steps.len() {
            return;
        }
        let st = self.steps[self.pc].clone();
        self.pc += 1;
        let mf = self.cfg.max_frame;
        match st {
            PeerStep::WaitQ | PeerStep::WaitOut { .. } => {}
            PeerStep::Frame { ty, fl, sid, hex } => self.send(w, &Frame::new(ty, fl, sid, unhex(&hex))),
            PeerStep::Raw { hex } => self.send_bytes(w, &unhex(&hex)),
            PeerStep::Settings { vals } => self.send(w, &f_settings(&vals)),
            PeerStep::SettingsAck => self.send(w, &f_settings_ack()),
            PeerStep::Ping { ack, pl } => self.send(w, &f_ping(ack, pl.to_be_bytes())),
            PeerStep::Wu { sid, inc } => self.send(w, &f_window_update(sid, inc)),
            PeerStep::Rst { sid, code } => {
                self.reset_sids.push(sid);
                self.send(w, &f_rst(sid, code))
            }
            PeerStep::Goaway { last, code, dbg } => self.send(w, &f_goaway(last, code, &vec![b'd'; dbg])),
            PeerStep::Data { sid, n, eos, pad } => {
                let off = *self.sent_off.get(&sid).unwrap_or(&0);
                // the tag of a stream the peer sends on = sid (by convention)
                let b = body(sid, off, n);
                self.sent_off.insert(sid, off + n as u64);
                self.send(w, &f_data(sid, &b, eos, pad));
            }
            PeerStep::Headers { sid, hid, fields, eos, frag, huff, status, req, method, tag } => {
                let mut fl: Vec<(Vec<u8>, Vec<u8>)> = vec![];
                if fields.is_empty() {
                    if req {
                        let m = if method.is_empty() { "POST".to_string() } else { method.clone() };
                        fl.push((b":method".to_vec(), m.into_bytes()));
                        fl.push((b":scheme".to_vec(), b"https".to_vec()));
                        fl.push((b":authority".to_vec(), b"sim.test".to_vec()));
                        fl.push((b":path".to_vec(), format!("/r/{}", tag).into_bytes()));
                        fl.push((b"x-tag".to_vec(), tag.to_string().into_bytes()));
                    } else if status != 0 {
                        fl.push((b":status".to_vec(), status.to_string().into_bytes()));
                    }
                    for (n, v) in hdrpool(hid) {
                        fl.push((n.into_bytes(), v.into_bytes()));
                    }
                } else {
                    for (n, v) in fields {
                        fl.push((n.into_bytes(), v.into_bytes()));
                    }
                }
                let block = enc_literal_block(&fl, huff);
                let frag = if frag == 0 { mf } else { frag };
                for f in f_headers(sid, &block, eos, frag, None) {
                    self.send(w, &f);
                }
            }
            PeerStep::HeadersRaw { sid, hex, eos, frag } => {
                let block = unhex(&hex);
                let frag = if frag == 0 { mf } else { frag };
                for f in f_headers(sid, &block, eos, frag, None) {
                    self.send(w, &f);
                }
            }
            PeerStep::PushPromise { sid, promised, hid, fields, frag, tag } => {
                let mut fl: Vec<(Vec<u8>, Vec<u8>)> = vec![];
                if fields.is_empty() {
                    fl.push((b":method".to_vec(), b"GET".to_vec()));
                    fl.push((b":scheme".to_vec(), b"https".to_vec()));
                    fl.push((b":authority".to_vec(), b"sim.test".to_vec()));
                    fl.push((b":path".to_vec(), format!("/push/{}", tag).into_bytes()));
                    fl.push((b"x-tag".to_vec(), tag.to_string().into_bytes()));
                    for (n, v) in hdrpool(hid) {
                        fl.push((n.into_bytes(), v.into_bytes()));
                    }
                } else {
                    for (n, v) in fields {
                        fl.push((n.into_bytes(), v.into_bytes()));
                    }
                }
                let block = enc_literal_block(&fl, false);
                let frag = if frag == 0 { mf } else { frag };
                for f in f_push_promise(sid, promised, &block, frag) {
                    self.send(w, &f);
                }
            }
            PeerStep::Priority { sid, dep, excl, weight } => self.send(w, &f_priority(sid, dep, excl, weight)),
            PeerStep::Auto { ack_settings, ack_ping, grant, respond } => {
                if let Some(v) = ack_settings {
                    self.cfg.ack_settings = v;
                }
                if let Some(v) = ack_ping {
                    self.cfg.ack_ping = v;
                    if v {
                        for pl in std::mem::take(&mut self.pending_pings) {
                            self.send(w, &f_ping(true, pl));
                        }
                    }
                }
                if let Some(v) = grant {
                    self.cfg.grant = v;
                }
                if let Some(v) = respond {
                    self.cfg.respond = v;
                }
            }
            PeerStep::Eof => {
                let d = self.wdir();
                w.dirs[d].eof = true;
                self.eof_sent = true;
                w.log(json!({"t": "fault", "ep": EP[1 - self.ep], "kind": "peer_eof"}));
            }
        }
    }
}
