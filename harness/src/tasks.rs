//! Application tasks driving the real h2 API. Every API call is logged at its
//! return (also on the error path) as an `api` event.

use crate::scenario::*;
use crate::world::*;
use bytes::Bytes;
use h2::{client, server, RecvStream, SendStream};
use http::{HeaderMap, HeaderName, HeaderValue, Request, Response};
use serde_json::{json, Value};
use std::future::Future;
use std::pin::Pin;
use std::task::{Context, Poll};

// ---------------------------------------------------------------------------
// deterministic content

pub fn body_byte(tag: u32, off: u64) -> u8 {
    let mut x = (tag as u64).wrapping_mul(0x9E37_79B9_7F4A_7C15) ^ (off >> 2).wrapping_mul(0xC2B2_AE3D_27D4_EB4F);
    x ^= x >> 29;
    x = x.wrapping_mul(0xBF58_476D_1CE4_E5B9);
    x ^= x >> 32;
    (x >> (8 * (off & 3))) as u8
}

pub fn body(tag: u32, off: u64, n: usize) -> Bytes {
    let mut v = Vec::with_capacity(n);
    for i in 0..n as u64 {
        v.push(body_byte(tag, off + i));
    }
    Bytes::from(v)
}

pub fn intact(tag: u32, off: u64, b: &[u8]) -> bool {
    b.iter().enumerate().all(|(i, &x)| x == body_byte(tag, off + i as u64))
}

/// Pool of regular header lists. hid 0 = empty.
pub fn hdrpool(hid: usize) -> Vec<(String, String)> {
    let big = |n: usize, c: char| -> String { std::iter::repeat(c).take(n).collect() };
    match hid % 24 {
        0 => vec![],
        1 => vec![("x-a".into(), "1".into())],
        2 => vec![("x-a".into(), "1".into()), ("x-a".into(), "2".into()), ("x-b".into(), "".into())],
        3 => vec![("accept".into(), "*/*".into()), ("user-agent".into(), "h2sim/0.1".into())],
        4 => vec![("cookie".into(), "a=b".into()), ("cookie".into(), "c=d".into()), ("cookie".into(), "a=b".into())],
        5 => vec![("x-big".into(), big(300, 'a'))],
        6 => vec![("x-big".into(), big(5000, 'b'))],
        7 => vec![("x-huge".into(), big(17000, 'c'))],
        8 => vec![("x-huge".into(), big(16384 - 9, 'd')), ("x-t".into(), "z".into())],
        9 => vec![("x-huge1".into(), big(20000, 'e')), ("x-huge2".into(), big(20000, 'f'))],
        10 => vec![("authorization".into(), "secret-token".into()), ("x-a".into(), "1".into())],
        11 => (0..30).map(|i| (format!("x-k{}", i), format!("v{}", i))).collect(),
        12 => vec![("x-a".into(), "1".into()), ("x-c".into(), big(4000, 'g'))],
        13 => vec![("content-type".into(), "text/plain".into()), ("x-a".into(), "2".into())],
        14 => vec![("x-utf".into(), "caf\u{e9}".into())],
        15 => vec![("x-a".into(), "1".into()), ("x-b".into(), "2".into()), ("x-c".into(), "3".into()), ("x-d".into(), "4".into())],
        16 => vec![("x-big".into(), big(4050, 'h'))],
        17 => vec![("x-rep".into(), "same".into()); 5],
        18 => vec![("te".into(), "trailers".into())],
        19 => vec![("x-e".into(), " ".into())],
        20 => vec![("x-big3".into(), big(16384, 'i'))],
        21 => vec![("x-big4".into(), big(16375, 'j'))],
        22 => vec![("x-m".into(), big(1000, 'k')), ("x-n".into(), big(1000, 'l')), ("x-m".into(), big(1000, 'm'))],
        _ => vec![("x-z".into(), "last".into())],
    }
}

pub fn hmap(fields: &[(String, String)]) -> HeaderMap {
    let mut m = HeaderMap::new();
    for (n, v) in fields {
        let mut hv = HeaderValue::from_bytes(v.as_bytes()).unwrap();
        if n == "authorization" {
            hv.set_sensitive(true);
        }
        m.append(HeaderName::from_bytes(n.as_bytes()).unwrap(), hv);
    }
    m
}

pub fn canon_map(m: &HeaderMap, pseudo: &[(&str, String)]) -> String {
    let mut f: Vec<(Vec<u8>, Vec<u8>)> = pseudo.iter().map(|(n, v)| (n.as_bytes().to_vec(), v.as_bytes().to_vec())).collect();
    for (n, v) in m.iter() {
        f.push((n.as_str().as_bytes().to_vec(), v.as_bytes().to_vec()));
    }
    crate::wire::canon(&f)
}

pub fn canon_req<T>(r: &Request<T>) -> String {
    let mut p = vec![(":method", r.method().as_str().to_string())];
    if let Some(s) = r.uri().scheme_str() {
        p.push((":scheme", s.to_string()));
    }
    if let Some(a) = r.uri().authority() {
        p.push((":authority", a.as_str().to_string()));
    }
    if let Some(pq) = r.uri().path_and_query() {
        p.push((":path", pq.as_str().to_string()));
    }
    canon_map(r.headers(), &p)
}

pub fn canon_resp<T>(r: &Response<T>) -> String {
    canon_map(r.headers(), &[(":status", r.status().as_u16().to_string())])
}

pub fn tag_of(m: &HeaderMap) -> u32 {
    m.get("x-tag").and_then(|v| v.to_str().ok()).and_then(|s| s.parse().ok()).unwrap_or(0)
}

// ---------------------------------------------------------------------------
// api event helpers

pub fn err_json(e: &h2::Error) -> Value {
    let (rh, rl, has) = match e.reason() {
        Some(r) => {
            let c: u32 = r.into();
            ((c >> 16) as i64, (c & 0xffff) as i64, true)
        }
        None => (0, 0, false),
    };
    let kind = if e.is_io() {
        "io"
    } else if e.is_go_away() {
        "goaway"
    } else if e.is_reset() {
        "reset"
    } else if has {
        "reason"
    } else {
        "user"
    };
    json!({"kind": kind, "rh": rh, "rl": rl, "has": has, "remote": e.is_remote(), "library": e.is_library(),
           "iokind": e.get_io().map(|x| format!("{:?}", x.kind())).unwrap_or_default(), "msg": e.to_string()})
}

pub fn no_err() -> Value {
    json!({"kind": "", "rh": 0, "rl": 0, "has": false, "remote": false, "library": false, "iokind": "", "msg": ""})
}

pub struct Api<'a> {
    pub w: &'a Shared,
    pub ep: usize,
    pub task: &'a str,
}

impl<'a> Api<'a> {
    pub fn ev(&self, call: &str, sid: u32, tag: u32, res: &str, extra: Value) {
        let mut j = json!({"t": "api", "ep": EP[self.ep], "task": self.task, "call": call, "sid": sid as i64, "tag": tag as i64,
            "res": res, "n": 0, "v": 0, "eos": false, "off": 0, "intact": true, "hdr": "", "status": 0, "ch": 0, "cl": 0, "e": no_err(), "psid": 0});
        if let (Some(o), Some(x)) = (j.as_object_mut(), extra.as_object()) {
            for (k, v) in x {
                o.insert(k.clone(), v.clone());
            }
        }
        self.w.lock().unwrap().log(j);
    }
}

fn code_halves(c: u32) -> (i64, i64) {
    ((c >> 16) as i64, (c & 0xffff) as i64)
}

// ---------------------------------------------------------------------------
// task plumbing

pub enum TP {
    Pending,
    Done,
}

#[derive(Default)]
pub struct Registry {
    pub sr: Option<client::SendRequest<Bytes>>,
    pub sr_failed: bool,
    pub nq: usize,
    pub reqs_issued: usize,
    pub reqs_total: usize,
    pub ping: [Option<h2::PingPong>; 2],
    pub accepted: usize,
    pub now_quiescent: bool,
}

pub struct SimCtx<'a> {
    pub w: &'a Shared,
    pub reg: &'a mut Registry,
    pub spawn: &'a mut Vec<Box<dyn Task>>,
    pub scn: &'a Scenario,
}

pub trait Task {
    fn name(&self) -> &str;
    fn ep(&self) -> usize;
    fn poll(&mut self, cx: &mut Context<'_>, sim: &mut SimCtx<'_>) -> TP;
    /// description of the operation this task is blocked in (it returned Pending), if any
    fn outstanding(&self) -> Option<String>;
    /// waits for a quiescence count rather than for the library
    fn waiting_q(&self) -> Option<usize> {
        None
    }
    fn ctl(&mut self, _op: &str, _n: u32, _sim: &mut SimCtx<'_>) {}
    /// read-only census of getters on live handles
    fn census(&mut self, _sim: &mut SimCtx<'_>) {}
    fn is_conn(&self) -> bool {
        false
    }
    /// stream id the task currently works on (0 if none)
    fn cur_sid(&self) -> u32 {
        0
    }
    /// guarded read-only statistics snapshot (connection tasks)
    fn stats(&self) -> Option<String> {
        None
    }
}

// ---------------------------------------------------------------------------
// send-side op interpreter shared by client request writers and server response writers

pub struct SendSide {
    pub stream: Option<SendStream<Bytes>>,
    pub ops: Vec<SendOp>,
    pub pc: usize,
    pub tag: u32,
    pub sent: u64,
    pub blocked: Option<String>,
    pub waitq: Option<usize>,
    // DataCap progress
    pub cap_left: Option<usize>,
    pub yielded: bool,
    /// the SendStream was handed to the inline registry (C20): it is not dropped when this task ends
    pub parked: bool,
}

impl SendSide {
    pub fn new(ops: Vec<SendOp>, tag: u32) -> SendSide {
        SendSide { stream: None, ops, pc: 0, tag, sent: 0, blocked: None, waitq: None, cap_left: None, yielded: false, parked: false }
    }

    fn sid(&self) -> u32 {
        self.stream.as_ref().map(|s| s.stream_id().as_u32()).unwrap_or(0)
    }

    /// Run ops until one blocks or all are done. Ops that need a response handle
    /// (Info/Response/Push) are handled by the caller through `srv`.
    pub fn run(&mut self, cx: &mut Context<'_>, sim: &mut SimCtx<'_>, api: &Api<'_>, mut srv: Option<&mut server::SendResponse<Bytes>>) -> TP {
        loop {
            self.blocked = None;
            self.waitq = None;
            if self.pc >= self.ops.len() {
                return TP::Done;
            }
            let op = self.ops[self.pc].clone();
            let sid = self.sid();
            let tag = self.tag;
            match op {
                SendOp::Info { status } => {
                    if let Some(sr) = srv.as_deref_mut() {
                        let resp = Response::builder().status(status).header("x-info", status.to_string()).body(()).unwrap();
                        let canon = canon_resp(&resp);
                        let sid = sr.stream_id().as_u32();
                        match sr.send_informational(resp) {
                            Ok(()) => api.ev("send_info", sid, tag, "ok", json!({"hdr": canon, "status": status})),
                            Err(e) => api.ev("send_info", sid, tag, "err", json!({"hdr": canon, "status": status, "e": err_json(&e)})),
                        }
                    }
                }
                SendOp::Response { status, hid, eos } => {
                    if let Some(sr) = srv.as_deref_mut() {
                        let mut b = Response::builder().status(status);
                        for (n, v) in hdrpool(hid) {
                            b = b.header(n, v);
                        }
                        let mut resp = b.body(()).unwrap();
                        if hid % 24 == 10 {
                            if let Some(v) = resp.headers_mut().get_mut("authorization") {
                                v.set_sensitive(true);
                            }
                        }
                        let canon = canon_resp(&resp);
                        let sid = sr.stream_id().as_u32();
                        match sr.send_response(resp, eos) {
                            Ok(s) => {
                                api.ev("send_response", sid, tag, "ok", json!({"hdr": canon, "status": status, "eos": eos}));
                                self.stream = Some(s);
                            }
                            Err(e) => api.ev("send_response", sid, tag, "err", json!({"hdr": canon, "status": status, "eos": eos, "e": err_json(&e)})),
                        }
                    }
                }
                SendOp::Push { tag: ptag, hid, ops } => {
                    // make the pushed stream's tag unique per parent
                    let ptag = ptag * 1000 + tag;
                    if let Some(sr) = srv.as_deref_mut() {
                        let mut b = Request::builder().method("GET").uri(format!("https://sim.test/push/{}", ptag)).header("x-tag", ptag.to_string());
                        for (n, v) in hdrpool(hid) {
                            b = b.header(n, v);
                        }
                        let req = b.body(()).unwrap();
                        let canon = canon_req(&req);
                        let sid = sr.stream_id().as_u32();
                        match sr.push_request(req) {
                            Ok(pushed) => {
                                let psid = pushed.stream_id().as_u32();
                                api.ev("push_request", sid, ptag, "ok", json!({"hdr": canon, "psid": psid}));
                                sim.spawn.push(Box::new(PushWriter { name: format!("spw{}", ptag), pushed: Some(pushed), side: SendSide::new(ops, ptag) }));
                            }
                            Err(e) => api.ev("push_request", sid, ptag, "err", json!({"hdr": canon, "e": err_json(&e)})),
                        }
                    }
                }
                SendOp::WaitQ { k } => {
                    if sim.reg.nq < k {
                        self.waitq = Some(k);
                        return TP::Pending;
                    }
                }
                SendOp::Yield => {
                    if !self.yielded {
                        self.yielded = true;
                        cx.waker().wake_by_ref();
                        return TP::Pending;
                    }
                    self.yielded = false;
                }
                SendOp::Drop => {
                    if self.stream.is_some() {
                        self.stream = None;
                        api.ev("drop_send", sid, tag, "ok", json!({}));
                    }
                    self.pc = self.ops.len();
                    return TP::Done;
                }
                SendOp::Park => {
                    // C20: the handle moves to the inline registry; this task is done (no drop event: the handle lives on)
                    if let Some(stream) = self.stream.take() {
                        {
                            let mut g = api.w.lock().unwrap();
                            g.parked_send.insert((api.ep, tag), ParkedSend { stream, sent: self.sent });
                            g.parked_send_ever.insert((api.ep, tag));
                        }
                        api.ev("park_send", sid, tag, "ok", json!({}));
                        self.parked = true;
                    }
                    self.pc = self.ops.len();
                    return TP::Done;
                }
                SendOp::Reset { code } if self.stream.is_none() && srv.is_some() => {
                    // reset before any response was sent: through the SendResponse handle
                    let sr = srv.as_deref_mut().unwrap();
                    let sid = sr.stream_id().as_u32();
                    sr.send_reset(code.into());
                    let (ch, cl) = code_halves(code);
                    api.ev("send_reset", sid, tag, "ok", json!({"ch": ch, "cl": cl}));
                }
                _ => {
                    // ops that need a SendStream
                    let st = match self.stream.as_mut() {
                        Some(s) => s,
                        None => {
                            // no stream (head failed or eos): skip
                            self.pc += 1;
                            continue;
                        }
                    };
                    match op {
                        SendOp::Reserve { n } => {
                            st.reserve_capacity(n);
                            api.ev("reserve", sid, tag, "ok", json!({"n": n}));
                        }
                        SendOp::Cap => {
                            let c = st.capacity();
                            api.ev("capacity", sid, tag, "ok", json!({"v": c}));
                        }
                        SendOp::PollCap => match st.poll_capacity(cx) {
                            Poll::Pending => {
                                api.ev("poll_capacity", sid, tag, "pending", json!({}));
                                self.blocked = Some("poll_capacity".into());
                                return TP::Pending;
                            }
                            Poll::Ready(None) => api.ev("poll_capacity", sid, tag, "none", json!({})),
                            Poll::Ready(Some(Ok(n))) => api.ev("poll_capacity", sid, tag, "ok", json!({"v": n})),
                            Poll::Ready(Some(Err(e))) => api.ev("poll_capacity", sid, tag, "err", json!({"e": err_json(&e)})),
                        },
                        SendOp::PollCapOnce => match st.poll_capacity(cx) {
                            Poll::Pending => api.ev("poll_capacity", sid, tag, "pending", json!({})),
                            Poll::Ready(None) => api.ev("poll_capacity", sid, tag, "none", json!({})),
                            Poll::Ready(Some(Ok(n))) => api.ev("poll_capacity", sid, tag, "ok", json!({"v": n})),
                            Poll::Ready(Some(Err(e))) => api.ev("poll_capacity", sid, tag, "err", json!({"e": err_json(&e)})),
                        },
                        SendOp::Data { n, eos } => {
                            let b = body(tag, self.sent, n);
                            match st.send_data(b, eos) {
                                Ok(()) => {
                                    api.ev("send_data", sid, tag, "ok", json!({"n": n, "eos": eos, "off": self.sent}));
                                    self.sent += n as u64;
                                }
                                Err(e) => api.ev("send_data", sid, tag, "err", json!({"n": n, "eos": eos, "off": self.sent, "e": err_json(&e)})),
                            }
                        }
                        SendOp::SendCap { eos } => {
                            let n = st.capacity();
                            api.ev("capacity", sid, tag, "ok", json!({"v": n}));
                            let b = body(tag, self.sent, n);
                            match st.send_data(b, eos) {
                                Ok(()) => {
                                    api.ev("send_data", sid, tag, "ok", json!({"n": n, "eos": eos, "off": self.sent, "probe": true}));
                                    self.sent += n as u64;
                                }
                                Err(e) => api.ev("send_data", sid, tag, "err", json!({"n": n, "eos": eos, "off": self.sent, "e": err_json(&e)})),
                            }
                        }
                        SendOp::DataCap { n, eos } => {
                            let left = self.cap_left.unwrap_or(n);
                            if left == 0 {
                                // zero-length (possibly eos) frame
                                match st.send_data(Bytes::new(), eos) {
                                    Ok(()) => api.ev("send_data", sid, tag, "ok", json!({"n": 0, "eos": eos, "off": self.sent})),
                                    Err(e) => api.ev("send_data", sid, tag, "err", json!({"n": 0, "eos": eos, "off": self.sent, "e": err_json(&e)})),
                                }
                                self.cap_left = None;
                            } else {
                                if self.cap_left.is_none() {
                                    st.reserve_capacity(left);
                                    api.ev("reserve", sid, tag, "ok", json!({"n": left}));
                                    self.cap_left = Some(left);
                                }
                                match st.poll_capacity(cx) {
                                    Poll::Pending => {
                                        api.ev("poll_capacity", sid, tag, "pending", json!({}));
                                        self.blocked = Some("poll_capacity".into());
                                        return TP::Pending;
                                    }
                                    Poll::Ready(None) => {
                                        api.ev("poll_capacity", sid, tag, "none", json!({}));
                                        self.cap_left = None;
                                    }
                                    Poll::Ready(Some(Err(e))) => {
                                        api.ev("poll_capacity", sid, tag, "err", json!({"e": err_json(&e)}));
                                        self.cap_left = None;
                                    }
                                    Poll::Ready(Some(Ok(c))) => {
                                        api.ev("poll_capacity", sid, tag, "ok", json!({"v": c}));
                                        let k = c.min(left);
                                        let last = k == left;
                                        let b = body(tag, self.sent, k);
                                        match st.send_data(b, eos && last) {
                                            Ok(()) => {
                                                api.ev("send_data", sid, tag, "ok", json!({"n": k, "eos": eos && last, "off": self.sent}));
                                                self.sent += k as u64;
                                                if last {
                                                    self.cap_left = None;
                                                } else {
                                                    self.cap_left = Some(left - k);
                                                    st.reserve_capacity(left - k);
                                                    api.ev("reserve", sid, tag, "ok", json!({"n": left - k}));
                                                    continue; // stay on this op
                                                }
                                            }
                                            Err(e) => {
                                                api.ev("send_data", sid, tag, "err", json!({"n": k, "eos": eos && last, "off": self.sent, "e": err_json(&e)}));
                                                self.cap_left = None;
                                            }
                                        }
                                    }
                                }
                            }
                        }
                        SendOp::Trailers { hid } => {
                            let mut f = hdrpool(hid);
                            f.push(("x-trailer".into(), format!("t{}", tag)));
                            let m = hmap(&f);
                            let canon = canon_map(&m, &[]);
                            match st.send_trailers(m) {
                                Ok(()) => api.ev("send_trailers", sid, tag, "ok", json!({"hdr": canon})),
                                Err(e) => api.ev("send_trailers", sid, tag, "err", json!({"hdr": canon, "e": err_json(&e)})),
                            }
                        }
                        SendOp::Reset { code } => {
                            st.send_reset(code.into());
                            let (ch, cl) = code_halves(code);
                            api.ev("send_reset", sid, tag, "ok", json!({"ch": ch, "cl": cl}));
                        }
                        SendOp::PollReset => match st.poll_reset(cx) {
                            Poll::Pending => {
                                api.ev("poll_reset", sid, tag, "pending", json!({}));
                                self.blocked = Some("poll_reset".into());
                                return TP::Pending;
                            }
                            Poll::Ready(Ok(r)) => {
                                let (ch, cl) = code_halves(r.into());
                                api.ev("poll_reset", sid, tag, "ok", json!({"ch": ch, "cl": cl}));
                            }
                            Poll::Ready(Err(e)) => api.ev("poll_reset", sid, tag, "err", json!({"e": err_json(&e)})),
                        },
                        _ => {}
                    }
                }
            }
            self.pc += 1;
        }
    }

    pub fn census(&mut self, api: &Api<'_>) {
        if let Some(s) = self.stream.as_ref() {
            let c = s.capacity();
            api.ev("capacity", s.stream_id().as_u32(), self.tag, "ok", json!({"v": c, "census": true}));
        }
    }
}

// ---------------------------------------------------------------------------
// receive-side body reader shared by both roles

pub struct BodyReader {
    pub name: String,
    pub ep: usize,
    pub tag: u32,
    pub sid: u32,
    pub rs: Option<RecvStream>,
    pub pol: ReadPol,
    pub off: u64,
    pub held: usize,
    pub chunks: usize,
    pub phase: u8, // 0 data, 1 trailers, 2 finished (maybe holding)
    pub blocked: Option<String>,
    pub waitq: Option<usize>,
    pub trailers_polled_first: bool,
    pub finished_q: Option<usize>,
    pub data_done: bool,
    pub script_pc: usize,
}

impl BodyReader {
    pub fn new(name: String, ep: usize, tag: u32, rs: RecvStream, pol: ReadPol) -> BodyReader {
        let sid = rs.stream_id().as_u32();
        BodyReader { name, ep, tag, sid, rs: Some(rs), pol, off: 0, held: 0, chunks: 0, phase: 0, blocked: None, waitq: None, trailers_polled_first: false, finished_q: None, data_done: false, script_pc: 0 }
    }
}

impl Task for BodyReader {
    fn name(&self) -> &str {
        &self.name
    }
    fn cur_sid(&self) -> u32 {
        self.sid
    }
    fn ep(&self) -> usize {
        self.ep
    }
    fn outstanding(&self) -> Option<String> {
        self.blocked.clone()
    }
    fn waiting_q(&self) -> Option<usize> {
        self.waitq
    }
    fn census(&mut self, sim: &mut SimCtx<'_>) {
        let api = Api { w: sim.w, ep: self.ep, task: &self.name };
        if let Some(rs) = self.rs.as_mut() {
            let es = rs.is_end_stream();
            let used = rs.flow_control().used_capacity();
            let avail = rs.flow_control().available_capacity();
            api.ev("recv_census", self.sid, self.tag, "ok", json!({"eos": es, "v": used, "n": avail.max(-1).min(0x7fff_ffff), "held": self.held}));
        }
    }
    fn poll(&mut self, cx: &mut Context<'_>, sim: &mut SimCtx<'_>) -> TP {
        let api = Api { w: sim.w, ep: self.ep, task: &self.name };
        self.blocked = None;
        self.waitq = None;
        let (sid, tag) = (self.sid, self.tag);
        if let Some(k) = self.pol.start_q {
            if sim.reg.nq < k {
                self.waitq = Some(k);
                return TP::Pending;
            }
        }
        if !self.pol.script.is_empty() {
            // scripted mode: one call per op, never blocking on the library
            loop {
                if self.script_pc >= self.pol.script.len() {
                    if self.rs.take().is_some() {
                        api.ev("drop_recv", sid, tag, "ok", json!({}));
                    }
                    return TP::Done;
                }
                let op = self.pol.script[self.script_pc].clone();
                match op {
                    RecvOp::WaitQ { k } => {
                        if sim.reg.nq < k {
                            self.waitq = Some(k);
                            return TP::Pending;
                        }
                    }
                    RecvOp::Drop => {
                        if self.rs.take().is_some() {
                            api.ev("drop_recv", sid, tag, "ok", json!({}));
                        }
                    }
                    RecvOp::Park => {
                        if let Some(rs) = self.rs.take() {
                            {
                                let mut g = sim.w.lock().unwrap();
                                g.parked_recv.insert((self.ep, tag), ParkedRecv { rs, off: self.off });
                                g.parked_recv_ever.insert((self.ep, tag));
                            }
                            api.ev("park_recv", sid, tag, "ok", json!({}));
                        }
                        return TP::Done;
                    }
                    RecvOp::Release { n } => {
                        if let Some(rs) = self.rs.as_mut() {
                            match rs.flow_control().release_capacity(n) {
                                Ok(()) => api.ev("release", sid, tag, "ok", json!({"n": n})),
                                Err(e) => api.ev("release", sid, tag, "err", json!({"n": n, "e": err_json(&e)})),
                            }
                        }
                    }
                    RecvOp::PollDataWait => {
                        // (H2Tasks) blocking variant: the task stays parked in poll_data until it returns Ready
                        if let Some(rs) = self.rs.as_mut() {
                            match rs.poll_data(cx) {
                                Poll::Pending => {
                                    api.ev("poll_data", sid, tag, "pending", json!({}));
                                    self.blocked = Some("poll_data".into());
                                    return TP::Pending;
                                }
                                Poll::Ready(None) => api.ev("poll_data", sid, tag, "none", json!({"eos": rs.is_end_stream()})),
                                Poll::Ready(Some(Err(e))) => api.ev("poll_data", sid, tag, "err", json!({"e": err_json(&e)})),
                                Poll::Ready(Some(Ok(b))) => {
                                    let ok = intact(tag, self.off, &b);
                                    api.ev("poll_data", sid, tag, "some", json!({"n": b.len(), "off": self.off, "intact": ok, "eos": rs.is_end_stream()}));
                                    self.off += b.len() as u64;
                                }
                            }
                        }
                    }
                    RecvOp::PollTrailers => {
                        // (H2Tasks) blocking poll_trailers
                        if let Some(rs) = self.rs.as_mut() {
                            match rs.poll_trailers(cx) {
                                Poll::Pending => {
                                    api.ev("poll_trailers", sid, tag, "pending", json!({}));
                                    self.blocked = Some("poll_trailers".into());
                                    return TP::Pending;
                                }
                                Poll::Ready(Ok(None)) => api.ev("poll_trailers", sid, tag, "none", json!({"eos": rs.is_end_stream()})),
                                Poll::Ready(Ok(Some(m))) => api.ev("poll_trailers", sid, tag, "some", json!({"hdr": canon_map(&m, &[]), "eos": rs.is_end_stream()})),
                                Poll::Ready(Err(e)) => api.ev("poll_trailers", sid, tag, "err", json!({"e": err_json(&e)})),
                            }
                        }
                    }
                    RecvOp::PollData => {
                        if let Some(rs) = self.rs.as_mut() {
                            match rs.poll_data(cx) {
                                Poll::Pending => api.ev("poll_data", sid, tag, "pending", json!({})),
                                Poll::Ready(None) => api.ev("poll_data", sid, tag, "none", json!({"eos": rs.is_end_stream()})),
                                Poll::Ready(Some(Err(e))) => api.ev("poll_data", sid, tag, "err", json!({"e": err_json(&e)})),
                                Poll::Ready(Some(Ok(b))) => {
                                    let ok = intact(tag, self.off, &b);
                                    api.ev("poll_data", sid, tag, "some", json!({"n": b.len(), "off": self.off, "intact": ok, "eos": rs.is_end_stream()}));
                                    self.off += b.len() as u64;
                                }
                            }
                        }
                    }
                }
                self.script_pc += 1;
            }
        }
        if self.pol.idle && self.phase < 2 {
            self.phase = 2;
        }
        loop {
            if self.phase == 2 {
                if let Some(k) = self.pol.hold_q {
                    if sim.reg.nq < k {
                        self.waitq = Some(k);
                        return TP::Pending;
                    }
                }
                if self.pol.release == "late" && self.held > 0 {
                    if let Some(rs) = self.rs.as_mut() {
                        let n = self.held;
                        match rs.flow_control().release_capacity(n) {
                            Ok(()) => api.ev("release", sid, tag, "ok", json!({"n": n})),
                            Err(e) => api.ev("release", sid, tag, "err", json!({"n": n, "e": err_json(&e)})),
                        }
                        self.held = 0;
                    }
                }
                if self.rs.take().is_some() {
                    api.ev("drop_recv", sid, tag, "ok", json!({}));
                }
                return TP::Done;
            }
            let rs = self.rs.as_mut().unwrap();
            if self.phase == 0 {
                if self.pol.trailers_first && !self.trailers_polled_first {
                    self.trailers_polled_first = true;
                    self.phase = 1;
                    continue;
                }
                if let Some(m) = self.pol.max_chunks {
                    if self.chunks >= m {
                        self.phase = 2;
                        continue;
                    }
                }
                let es_before = rs.is_end_stream();
                match rs.poll_data(cx) {
                    Poll::Pending => {
                        api.ev("poll_data", sid, tag, "pending", json!({"eos": es_before}));
                        self.blocked = Some("poll_data".into());
                        return TP::Pending;
                    }
                    Poll::Ready(None) => {
                        let es = rs.is_end_stream();
                        api.ev("poll_data", sid, tag, "none", json!({"eos": es}));
                        self.data_done = true;
                        self.phase = 1;
                    }
                    Poll::Ready(Some(Err(e))) => {
                        api.ev("poll_data", sid, tag, "err", json!({"e": err_json(&e)}));
                        self.phase = 2;
                    }
                    Poll::Ready(Some(Ok(b))) => {
                        let ok = intact(tag, self.off, &b);
                        let es = rs.is_end_stream();
                        api.ev("poll_data", sid, tag, "some", json!({"n": b.len(), "off": self.off, "intact": ok, "eos": es}));
                        self.off += b.len() as u64;
                        self.chunks += 1;
                        let n = b.len();
                        let rel = match self.pol.release.as_str() {
                            "now" => n,
                            "half" => n / 2,
                            _ => 0,
                        };
                        self.held += n - rel;
                        if rel > 0 {
                            match rs.flow_control().release_capacity(rel) {
                                Ok(()) => api.ev("release", sid, tag, "ok", json!({"n": rel})),
                                Err(e) => api.ev("release", sid, tag, "err", json!({"n": rel, "e": err_json(&e)})),
                            }
                        }
                    }
                }
            } else {
                let early = self.pol.trailers_first && self.trailers_polled_first && !self.data_done;
                match rs.poll_trailers(cx) {
                    Poll::Pending => {
                        api.ev("poll_trailers", sid, tag, "pending", json!({}));
                        if early {
                            // trailers polled before the data was consumed: go on reading the data
                            // (the waker is registered by both calls)
                            self.phase = 0;
                            continue;
                        }
                        self.blocked = Some("poll_trailers".into());
                        return TP::Pending;
                    }
                    Poll::Ready(Ok(None)) => {
                        api.ev("poll_trailers", sid, tag, "none", json!({"eos": rs.is_end_stream()}));
                        self.phase = 2;
                    }
                    Poll::Ready(Ok(Some(m))) => {
                        api.ev("poll_trailers", sid, tag, "some", json!({"hdr": canon_map(&m, &[]), "eos": rs.is_end_stream()}));
                        self.phase = 2;
                    }
                    Poll::Ready(Err(e)) => {
                        api.ev("poll_trailers", sid, tag, "err", json!({"e": err_json(&e)}));
                        self.phase = 2;
                    }
                }
            }
        }
    }
}

// ---------------------------------------------------------------------------
// client connection task

pub enum CState {
    Handshaking(Pin<Box<dyn Future<Output = Result<(client::SendRequest<Bytes>, client::Connection<SimIo, Bytes>), h2::Error>>>>),
    Running(client::Connection<SimIo, Bytes>),
    Done,
}

pub struct ClientConn {
    pub st: CState,
    pub blocked: Option<String>,
}

pub fn client_builder(c: &EpCfg) -> client::Builder {
    let mut b = client::Builder::new();
    if let Some(v) = c.iws {
        b.initial_window_size(v);
    }
    if let Some(v) = c.conn_win {
        b.initial_connection_window_size(v);
    }
    if let Some(v) = c.max_frame {
        b.max_frame_size(v);
    }
    if let Some(v) = c.max_conc {
        b.max_concurrent_streams(v);
    }
    if let Some(v) = c.max_hdr_list {
        b.max_header_list_size(v);
    }
    if let Some(v) = c.hdr_table {
        b.header_table_size(v);
    }
    if let Some(v) = c.reset_max {
        b.max_concurrent_reset_streams(v);
    }
    if let Some(v) = c.reset_dur_ms {
        b.reset_stream_duration(std::time::Duration::from_millis(v));
    }
    if let Some(v) = c.pending_accept_reset_max {
        b.max_pending_accept_reset_streams(v);
    }
    if let Some(v) = c.local_error_reset_max {
        b.max_local_error_reset_streams(if v < 0 { None } else { Some(v as usize) });
    }
    if let Some(v) = c.max_send_buf {
        b.max_send_buffer_size(v);
    }
    if let Some(v) = c.enable_push {
        b.enable_push(v);
    }
    if let Some(v) = c.data_frame_budget {
        b.data_frame_budget(v);
    }
    if let Some(v) = c.initial_max_send_streams {
        b.initial_max_send_streams(v);
    }
    if let Some(v) = c.initial_stream_id {
        b.initial_stream_id(v);
    }
    b
}

pub fn server_builder(c: &EpCfg) -> server::Builder {
    let mut b = server::Builder::new();
    if let Some(v) = c.iws {
        b.initial_window_size(v);
    }
    if let Some(v) = c.conn_win {
        b.initial_connection_window_size(v);
    }
    if let Some(v) = c.max_frame {
        b.max_frame_size(v);
    }
    if let Some(v) = c.max_conc {
        b.max_concurrent_streams(v);
    }
    if let Some(v) = c.max_hdr_list {
        b.max_header_list_size(v);
    }
    if let Some(v) = c.hdr_table {
        b.header_table_size(v);
    }
    if let Some(v) = c.reset_max {
        b.max_concurrent_reset_streams(v);
    }
    if let Some(v) = c.reset_dur_ms {
        b.reset_stream_duration(std::time::Duration::from_millis(v));
    }
    if let Some(v) = c.pending_accept_reset_max {
        b.max_pending_accept_reset_streams(v);
    }
    if let Some(v) = c.local_error_reset_max {
        b.max_local_error_reset_streams(if v < 0 { None } else { Some(v as usize) });
    }
    if let Some(v) = c.max_send_buf {
        b.max_send_buffer_size(v);
    }
    if let Some(v) = c.data_frame_budget {
        b.data_frame_budget(v);
    }
    if c.enable_connect_protocol {
        b.enable_connect_protocol();
    }
    b
}

impl ClientConn {
    pub fn new(w: &Shared, cfg: &EpCfg) -> ClientConn {
        let io = SimIo { ep: 0, w: w.clone() };
        let fut = client_builder(cfg).handshake::<SimIo, Bytes>(io);
        ClientConn { st: CState::Handshaking(Box::pin(fut)), blocked: None }
    }
}

impl Task for ClientConn {
    fn name(&self) -> &str {
        "conn_c"
    }
    fn stats(&self) -> Option<String> {
        match &self.st {
            CState::Running(c) => Some(c.verif_snapshot()),
            _ => None,
        }
    }
    fn ep(&self) -> usize {
        0
    }
    fn is_conn(&self) -> bool {
        true
    }
    fn outstanding(&self) -> Option<String> {
        self.blocked.clone()
    }
    fn ctl(&mut self, op: &str, n: u32, sim: &mut SimCtx<'_>) {
        let api = Api { w: sim.w, ep: 0, task: "conn_c" };
        if op == "drop" {
            self.st = CState::Done;
            self.blocked = None;
            api.ev("conn_drop", 0, 0, "ok", json!({}));
            return;
        }
        if let CState::Running(c) = &mut self.st {
            match op {
                "target_window" => {
                    c.set_target_window_size(n);
                    api.ev("set_target_window", 0, 0, "ok", json!({"v": n as i64 & 0x7fff_ffff}));
                }
                "initial_window" => match c.set_initial_window_size(n) {
                    Ok(()) => api.ev("set_initial_window", 0, 0, "ok", json!({"v": n as i64 & 0x7fff_ffff})),
                    Err(e) => api.ev("set_initial_window", 0, 0, "err", json!({"v": n as i64 & 0x7fff_ffff, "e": err_json(&e)})),
                },
                "ping_handle" => {
                    if sim.reg.ping[0].is_none() {
                        sim.reg.ping[0] = c.ping_pong();
                    }
                }
                _ => {}
            }
        }
    }
    fn poll(&mut self, cx: &mut Context<'_>, sim: &mut SimCtx<'_>) -> TP {
        let api = Api { w: sim.w, ep: 0, task: "conn_c" };
        loop {
            match &mut self.st {
                CState::Handshaking(f) => match f.as_mut().poll(cx) {
                    Poll::Pending => {
                        self.blocked = Some("handshake".into());
                        return TP::Pending;
                    }
                    Poll::Ready(Ok((sr, conn))) => {
                        api.ev("handshake", 0, 0, "ok", json!({}));
                        if sim.scn.inline.iter().any(|s| matches!(s.act, InlineAct::SendRequest { .. })) {
                            sim.w.lock().unwrap().inline_sr = Some(sr.clone());
                        }
                        sim.reg.sr = Some(sr);
                        self.st = CState::Running(conn);
                    }
                    Poll::Ready(Err(e)) => {
                        api.ev("handshake", 0, 0, "err", json!({"e": err_json(&e)}));
                        sim.reg.sr_failed = true;
                        self.st = CState::Done;
                        self.blocked = None;
                        return TP::Done;
                    }
                },
                CState::Running(c) => match Pin::new(c).poll(cx) {
                    Poll::Pending => {
                        self.blocked = Some("conn".into());
                        return TP::Pending;
                    }
                    Poll::Ready(Ok(())) => {
                        api.ev("conn_poll", 0, 0, "ok", json!({}));
                        self.st = CState::Done;
                        self.blocked = None;
                        return TP::Done;
                    }
                    Poll::Ready(Err(e)) => {
                        api.ev("conn_poll", 0, 0, "err", json!({"e": err_json(&e)}));
                        self.st = CState::Done;
                        self.blocked = None;
                        return TP::Done;
                    }
                },
                CState::Done => return TP::Done,
            }
        }
    }
}

// ---------------------------------------------------------------------------
// client request task (writer) and response task (reader)

pub struct ClientReq {
    pub name: String,
    pub prog: ReqProg,
    pub sr: Option<client::SendRequest<Bytes>>,
    pub side: SendSide,
    pub phase: u8, // 0 wait handle, 1 ready, 2 send head, 3 body ops
    pub blocked: Option<String>,
    pub waitq: Option<usize>,
}

impl ClientReq {
    pub fn new(prog: ReqProg) -> ClientReq {
        let tag = prog.tag;
        let ops = prog.ops.clone();
        ClientReq { name: format!("cw{}", tag), prog, sr: None, side: SendSide::new(ops, tag), phase: 0, blocked: None, waitq: None }
    }
}

impl Task for ClientReq {
    fn name(&self) -> &str {
        &self.name
    }
    fn cur_sid(&self) -> u32 {
        self.side.sid_cached()
    }
    fn ep(&self) -> usize {
        0
    }
    fn outstanding(&self) -> Option<String> {
        self.blocked.clone().or(self.side.blocked.clone())
    }
    fn waiting_q(&self) -> Option<usize> {
        self.waitq.or(self.side.waitq)
    }
    fn census(&mut self, sim: &mut SimCtx<'_>) {
        let api = Api { w: sim.w, ep: 0, task: &self.name };
        self.side.census(&api);
    }
    fn poll(&mut self, cx: &mut Context<'_>, sim: &mut SimCtx<'_>) -> TP {
        let name = self.name.clone();
        let api = Api { w: sim.w, ep: 0, task: &name };
        let tag = self.prog.tag;
        self.blocked = None;
        self.waitq = None;
        loop {
            match self.phase {
                0 => {
                    if let Some(k) = self.prog.start_q {
                        if sim.reg.nq < k {
                            self.waitq = Some(k);
                            return TP::Pending;
                        }
                    }
                    if sim.reg.sr_failed {
                        sim.reg.reqs_issued += 1;
                        return TP::Done;
                    }
                    match sim.reg.sr.as_ref() {
                        Some(sr) => {
                            self.sr = Some(sr.clone());
                            self.phase = 1;
                        }
                        None => {
                            // handshake not finished: wait for it (conn task will wake everybody)
                            self.waitq = Some(0);
                            return TP::Pending;
                        }
                    }
                }
                1 => {
                    if !self.prog.ready {
                        self.phase = 2;
                        continue;
                    }
                    match self.sr.as_mut().unwrap().poll_ready(cx) {
                        Poll::Pending => {
                            api.ev("poll_ready", 0, tag, "pending", json!({}));
                            self.blocked = Some("poll_ready".into());
                            return TP::Pending;
                        }
                        Poll::Ready(Ok(())) => {
                            api.ev("poll_ready", 0, tag, "ok", json!({}));
                            self.phase = 2;
                        }
                        Poll::Ready(Err(e)) => {
                            api.ev("poll_ready", 0, tag, "err", json!({"e": err_json(&e)}));
                            self.sr = None;
                            sim.reg.reqs_issued += 1;
                            return TP::Done;
                        }
                    }
                }
                2 => {
                    let method = if self.prog.method.is_empty() { "POST" } else { self.prog.method.as_str() };
                    let mut b = Request::builder().method(method).uri(format!("https://sim.test/r/{}", tag)).header("x-tag", tag.to_string());
                    for (n, v) in hdrpool(self.prog.hid) {
                        b = b.header(n, v);
                    }
                    let mut req = b.body(()).unwrap();
                    if self.prog.hid % 24 == 10 {
                        if let Some(v) = req.headers_mut().get_mut("authorization") {
                            v.set_sensitive(true);
                        }
                    }
                    let canon = canon_req(&req);
                    let eos = self.prog.eos;
                    let r = self.sr.as_mut().unwrap().send_request(req, eos);
                    sim.reg.reqs_issued += 1;
                    if let (Some(k), true) = (self.prog.ready_after, r.is_ok()) {
                        // (H2Tasks) the clone, with its `pending` stream, moves to a task of its own that waits in poll_ready
                        sim.spawn.push(Box::new(ReadyWaiter { name: format!("cy{}", tag), tag, sr: self.sr.take(), at: k, blocked: None, waitq: None }));
                    }
                    self.sr = None; // drop our clone
                    match r {
                        Ok((resp, stream)) => {
                            let sid = stream.stream_id().as_u32();
                            api.ev("send_request", sid, tag, "ok", json!({"hdr": canon, "eos": eos}));
                            self.side.stream = Some(stream);
                            sim.spawn.push(Box::new(ClientResp::new(format!("cr{}", tag), tag, sid, resp, self.prog.read.clone())));
                            self.phase = 3;
                        }
                        Err(e) => {
                            api.ev("send_request", 0, tag, "err", json!({"hdr": canon, "eos": eos, "e": err_json(&e)}));
                            return TP::Done;
                        }
                    }
                }
                _ => {
                    let r = self.side.run(cx, sim, &api, None);
                    if let TP::Done = r {
                        let sid = self.side.sid_cached();
                        if self.side.stream.take().is_some() {
                            api.ev("drop_send", sid, tag, "ok", json!({}));
                        }
                    }
                    return r;
                }
            }
        }
    }
}

/// (H2Tasks) a SendRequest handle that has just sent a request (its `pending` stream may still wait for a concurrency slot):
/// calls poll_ready at quiescence `at` and parks in it until it returns Ready; then drops the handle
pub struct ReadyWaiter {
    pub name: String,
    pub tag: u32,
    pub sr: Option<client::SendRequest<Bytes>>,
    pub at: usize,
    pub blocked: Option<String>,
    pub waitq: Option<usize>,
}

impl Task for ReadyWaiter {
    fn name(&self) -> &str {
        &self.name
    }
    fn ep(&self) -> usize {
        0
    }
    fn outstanding(&self) -> Option<String> {
        self.blocked.clone()
    }
    fn waiting_q(&self) -> Option<usize> {
        self.waitq
    }
    fn poll(&mut self, cx: &mut Context<'_>, sim: &mut SimCtx<'_>) -> TP {
        let name = self.name.clone();
        let api = Api { w: sim.w, ep: 0, task: &name };
        self.blocked = None;
        self.waitq = None;
        if sim.reg.nq < self.at {
            self.waitq = Some(self.at);
            return TP::Pending;
        }
        let sr = match self.sr.as_mut() {
            Some(s) => s,
            None => return TP::Done,
        };
        match sr.poll_ready(cx) {
            Poll::Pending => {
                api.ev("poll_ready", 0, self.tag, "pending", json!({}));
                self.blocked = Some("poll_ready".into());
                return TP::Pending;
            }
            Poll::Ready(Ok(())) => api.ev("poll_ready", 0, self.tag, "ok", json!({})),
            Poll::Ready(Err(e)) => api.ev("poll_ready", 0, self.tag, "err", json!({"e": err_json(&e)})),
        }
        self.sr = None;
        TP::Done
    }
}

impl SendSide {
    pub fn sid_cached(&self) -> u32 {
        self.sid()
    }
}

pub struct ClientResp {
    pub name: String,
    pub tag: u32,
    pub sid: u32,
    pub fut: Option<client::ResponseFuture>,
    pub pol: ReadPol,
    pub info_done: bool,
    pub push_spawned: bool,
    pub blocked: Option<String>,
    pub waitq: Option<usize>,
    pub pushed: bool,
    pub pfut: Option<client::PushedResponseFuture>,
}

impl ClientResp {
    pub fn new(name: String, tag: u32, sid: u32, fut: client::ResponseFuture, pol: ReadPol) -> ClientResp {
        ClientResp { name, tag, sid, fut: Some(fut), pol, info_done: false, push_spawned: false, blocked: None, waitq: None, pushed: false, pfut: None }
    }
}

impl Task for ClientResp {
    fn name(&self) -> &str {
        &self.name
    }
    fn cur_sid(&self) -> u32 {
        self.sid
    }
    fn ep(&self) -> usize {
        0
    }
    fn outstanding(&self) -> Option<String> {
        self.blocked.clone()
    }
    fn waiting_q(&self) -> Option<usize> {
        self.waitq
    }
    fn poll(&mut self, cx: &mut Context<'_>, sim: &mut SimCtx<'_>) -> TP {
        let name = self.name.clone();
        let api = Api { w: sim.w, ep: 0, task: &name };
        let (sid, tag) = (self.sid, self.tag);
        self.blocked = None;
        self.waitq = None;
        if let Some(k) = self.pol.start_q {
            if sim.reg.nq < k {
                self.waitq = Some(k);
                return TP::Pending;
            }
        }
        if self.pol.drop_head {
            self.fut = None;
            self.pfut = None;
            api.ev("drop_resp", sid, tag, "ok", json!({}));
            return TP::Done;
        }
        if let Some(pf) = self.pfut.as_mut() {
            // pushed response future
            return match Pin::new(pf).poll(cx) {
                Poll::Pending => {
                    api.ev("poll_response", sid, tag, "pending", json!({}));
                    self.blocked = Some("poll_response".into());
                    TP::Pending
                }
                Poll::Ready(Ok(resp)) => {
                    let canon = canon_resp(&resp);
                    let status = resp.status().as_u16();
                    let (_, body) = resp.into_parts();
                    api.ev("poll_response", sid, tag, "ok", json!({"hdr": canon, "status": status, "eos": body.is_end_stream()}));
                    self.pfut = None;
                    let mut pol = self.pol.clone();
                    pol.start_q = None;
                    sim.spawn.push(Box::new(BodyReader::new(format!("cb{}", tag), 0, tag, body, pol)));
                    TP::Done
                }
                Poll::Ready(Err(e)) => {
                    api.ev("poll_response", sid, tag, "err", json!({"e": err_json(&e)}));
                    self.pfut = None;
                    api.ev("drop_recv", sid, tag, "ok", json!({}));
                    TP::Done
                }
            };
        }
        let fut = self.fut.as_mut().unwrap();
        if self.pol.push && !self.push_spawned {
            self.push_spawned = true;
            let pp = fut.push_promises();
            api.ev("hold_push", sid, tag, "ok", json!({}));
            sim.spawn.push(Box::new(PushPoller { name: format!("cp{}", tag), tag, sid, pp: Some(pp), pol: self.pol.clone(), blocked: None }));
        }
        loop {
            if self.pol.info && !self.info_done {
                match fut.poll_informational(cx) {
                    Poll::Pending => {
                        api.ev("poll_info", sid, tag, "pending", json!({}));
                        // fallthrough to poll the response as well (both register the same waker)
                        self.info_done = false;
                    }
                    Poll::Ready(None) => {
                        api.ev("poll_info", sid, tag, "none", json!({}));
                        self.info_done = true;
                    }
                    Poll::Ready(Some(Ok(resp))) => {
                        api.ev("poll_info", sid, tag, "some", json!({"hdr": canon_resp(&resp), "status": resp.status().as_u16()}));
                        continue;
                    }
                    Poll::Ready(Some(Err(e))) => {
                        api.ev("poll_info", sid, tag, "err", json!({"e": err_json(&e)}));
                        self.info_done = true;
                    }
                }
            }
            match Pin::new(&mut *fut).poll(cx) {
                Poll::Pending => {
                    api.ev("poll_response", sid, tag, "pending", json!({}));
                    self.blocked = Some("poll_response".into());
                    return TP::Pending;
                }
                Poll::Ready(Ok(resp)) => {
                    let canon = canon_resp(&resp);
                    let status = resp.status().as_u16();
                    let (_, body) = resp.into_parts();
                    api.ev("poll_response", sid, tag, "ok", json!({"hdr": canon, "status": status, "eos": body.is_end_stream()}));
                    self.fut = None;
                    let mut pol = self.pol.clone();
                    pol.start_q = None;
                    sim.spawn.push(Box::new(BodyReader::new(format!("cb{}", tag), 0, tag, body, pol)));
                    return TP::Done;
                }
                Poll::Ready(Err(e)) => {
                    api.ev("poll_response", sid, tag, "err", json!({"e": err_json(&e)}));
                    self.fut = None;
                    api.ev("drop_recv", sid, tag, "ok", json!({}));
                    return TP::Done;
                }
            }
        }
    }
}

pub struct PushPoller {
    pub name: String,
    pub tag: u32,
    pub sid: u32,
    pub pp: Option<client::PushPromises>,
    pub pol: ReadPol,
    pub blocked: Option<String>,
}

impl Task for PushPoller {
    fn name(&self) -> &str {
        &self.name
    }
    fn cur_sid(&self) -> u32 {
        self.sid
    }
    fn ep(&self) -> usize {
        0
    }
    fn outstanding(&self) -> Option<String> {
        self.blocked.clone()
    }
    fn poll(&mut self, cx: &mut Context<'_>, sim: &mut SimCtx<'_>) -> TP {
        let name = self.name.clone();
        let api = Api { w: sim.w, ep: 0, task: &name };
        self.blocked = None;
        loop {
            let pp = self.pp.as_mut().unwrap();
            match pp.poll_push_promise(cx) {
                Poll::Pending => {
                    api.ev("poll_push", self.sid, self.tag, "pending", json!({}));
                    self.blocked = Some("poll_push".into());
                    return TP::Pending;
                }
                Poll::Ready(None) => {
                    api.ev("poll_push", self.sid, self.tag, "none", json!({}));
                    self.pp = None;
                    api.ev("drop_push", self.sid, self.tag, "ok", json!({}));
                    return TP::Done;
                }
                Poll::Ready(Some(Err(e))) => {
                    api.ev("poll_push", self.sid, self.tag, "err", json!({"e": err_json(&e)}));
                    self.pp = None;
                    api.ev("drop_push", self.sid, self.tag, "ok", json!({}));
                    return TP::Done;
                }
                Poll::Ready(Some(Ok(p))) => {
                    let (req, pfut) = p.into_parts();
                    let ptag = tag_of(req.headers());
                    let psid = pfut.stream_id().as_u32();
                    api.ev("poll_push", self.sid, ptag, "some", json!({"hdr": canon_req(&req), "psid": psid}));
                    let mut pol = self.pol.clone();
                    pol.push = false;
                    pol.info = false;
                    let mut t = ClientResp { name: format!("cr{}", ptag), tag: ptag, sid: psid, fut: None, pol, info_done: true, push_spawned: true, blocked: None, waitq: None, pushed: true, pfut: Some(pfut) };
                    t.pushed = true;
                    sim.spawn.push(Box::new(t));
                }
            }
        }
    }
}

// ---------------------------------------------------------------------------
// server side

pub enum SState {
    Handshaking(server::Handshake<SimIo, Bytes>),
    Running(server::Connection<SimIo, Bytes>),
    Done,
}

pub struct ServerConn {
    pub st: SState,
    pub blocked: Option<String>,
    /// remaining accepts the application is willing to make (None = unlimited)
    pub accept_budget: Option<usize>,
}

impl ServerConn {
    pub fn new(w: &Shared, cfg: &EpCfg) -> ServerConn {
        let io = SimIo { ep: 1, w: w.clone() };
        let hs = server_builder(cfg).handshake::<SimIo, Bytes>(io);
        ServerConn { st: SState::Handshaking(hs), blocked: None, accept_budget: None }
    }
}

impl Task for ServerConn {
    fn name(&self) -> &str {
        "conn_s"
    }
    fn stats(&self) -> Option<String> {
        match &self.st {
            SState::Running(c) => Some(c.verif_snapshot()),
            _ => None,
        }
    }
    fn ep(&self) -> usize {
        1
    }
    fn is_conn(&self) -> bool {
        true
    }
    fn outstanding(&self) -> Option<String> {
        self.blocked.clone()
    }
    fn ctl(&mut self, op: &str, n: u32, sim: &mut SimCtx<'_>) {
        let api = Api { w: sim.w, ep: 1, task: "conn_s" };
        if op == "drop" {
            self.st = SState::Done;
            self.blocked = None;
            api.ev("conn_drop", 0, 0, "ok", json!({}));
            return;
        }
        if op == "accept_allow" {
            self.accept_budget = Some(self.accept_budget.or(sim.scn.srv_accept_budget).unwrap_or(0) + n as usize);
            return;
        }
        if let SState::Running(c) = &mut self.st {
            match op {
                "target_window" => {
                    c.set_target_window_size(n);
                    api.ev("set_target_window", 0, 0, "ok", json!({"v": n as i64 & 0x7fff_ffff}));
                }
                "initial_window" => match c.set_initial_window_size(n) {
                    Ok(()) => api.ev("set_initial_window", 0, 0, "ok", json!({"v": n as i64 & 0x7fff_ffff})),
                    Err(e) => api.ev("set_initial_window", 0, 0, "err", json!({"v": n as i64 & 0x7fff_ffff, "e": err_json(&e)})),
                },
                "graceful_shutdown" => {
                    c.graceful_shutdown();
                    api.ev("graceful_shutdown", 0, 0, "ok", json!({}));
                }
                "abrupt_shutdown" => {
                    c.abrupt_shutdown(n.into());
                    let (ch, cl) = code_halves(n);
                    api.ev("abrupt_shutdown", 0, 0, "ok", json!({"ch": ch, "cl": cl}));
                }
                "enable_connect" => match c.enable_connect_protocol() {
                    Ok(()) => api.ev("enable_connect", 0, 0, "ok", json!({})),
                    Err(e) => api.ev("enable_connect", 0, 0, "err", json!({"e": err_json(&e)})),
                },
                "ping_handle" => {
                    if sim.reg.ping[1].is_none() {
                        sim.reg.ping[1] = c.ping_pong();
                    }
                }
                _ => {}
            }
        }
    }
    fn poll(&mut self, cx: &mut Context<'_>, sim: &mut SimCtx<'_>) -> TP {
        let api = Api { w: sim.w, ep: 1, task: "conn_s" };
        loop {
            match &mut self.st {
                SState::Handshaking(h) => match Pin::new(h).poll(cx) {
                    Poll::Pending => {
                        self.blocked = Some("handshake".into());
                        return TP::Pending;
                    }
                    Poll::Ready(Ok(c)) => {
                        api.ev("handshake", 0, 0, "ok", json!({}));
                        self.st = SState::Running(c);
                    }
                    Poll::Ready(Err(e)) => {
                        api.ev("handshake", 0, 0, "err", json!({"e": err_json(&e)}));
                        self.st = SState::Done;
                        self.blocked = None;
                        return TP::Done;
                    }
                },
                SState::Running(c) => {
                    if self.accept_budget.is_none() {
                        self.accept_budget = sim.scn.srv_accept_budget;
                    }
                    if sim.scn.srv_no_accept || self.accept_budget == Some(0) {
                        match c.poll_closed(cx) {
                            Poll::Pending => {
                                self.blocked = Some("conn".into());
                                return TP::Pending;
                            }
                            Poll::Ready(Ok(())) => {
                                api.ev("conn_poll", 0, 0, "ok", json!({}));
                                self.st = SState::Done;
                                self.blocked = None;
                                return TP::Done;
                            }
                            Poll::Ready(Err(e)) => {
                                api.ev("conn_poll", 0, 0, "err", json!({"e": err_json(&e)}));
                                self.st = SState::Done;
                                self.blocked = None;
                                return TP::Done;
                            }
                        }
                    }
                    match c.poll_accept(cx) {
                        Poll::Pending => {
                            self.blocked = Some("conn".into());
                            return TP::Pending;
                        }
                        Poll::Ready(None) => {
                            api.ev("conn_poll", 0, 0, "ok", json!({}));
                            self.st = SState::Done;
                            self.blocked = None;
                            return TP::Done;
                        }
                        Poll::Ready(Some(Err(e))) => {
                            api.ev("conn_poll", 0, 0, "err", json!({"e": err_json(&e)}));
                            self.st = SState::Done;
                            self.blocked = None;
                            return TP::Done;
                        }
                        Poll::Ready(Some(Ok((req, resp)))) => {
                            let sid = resp.stream_id().as_u32();
                            let tag = tag_of(req.headers());
                            let canon = canon_req(&req);
                            let (_, body) = req.into_parts();
                            api.ev("accept", sid, tag, "some", json!({"hdr": canon, "eos": body.is_end_stream()}));
                            if let Some(b) = self.accept_budget.as_mut() {
                                *b -= 1;
                            }
                            let idx = sim.reg.accepted;
                            sim.reg.accepted += 1;
                            let prog = if sim.scn.srv.is_empty() {
                                SrvProg { ops: vec![SendOp::Response { status: 200, hid: 0, eos: true }], read: ReadPol::default(), note: String::new() }
                            } else {
                                sim.scn.srv[idx % sim.scn.srv.len()].clone()
                            };
                            sim.spawn.push(Box::new(BodyReader::new(format!("sb{}", sid), 1, tag, body, prog.read.clone())));
                            sim.spawn.push(Box::new(SrvWriter { name: format!("sw{}", sid), tag, resp: Some(resp), side: SendSide::new(prog.ops, tag) }));
                        }
                    }
                }
                SState::Done => return TP::Done,
            }
        }
    }
}

pub struct SrvWriter {
    pub name: String,
    pub tag: u32,
    pub resp: Option<server::SendResponse<Bytes>>,
    pub side: SendSide,
}

impl Task for SrvWriter {
    fn name(&self) -> &str {
        &self.name
    }
    fn cur_sid(&self) -> u32 {
        self.resp.as_ref().map(|r| r.stream_id().as_u32()).unwrap_or(self.side.sid_cached())
    }
    fn ep(&self) -> usize {
        1
    }
    fn outstanding(&self) -> Option<String> {
        self.side.blocked.clone()
    }
    fn waiting_q(&self) -> Option<usize> {
        self.side.waitq
    }
    fn census(&mut self, sim: &mut SimCtx<'_>) {
        let api = Api { w: sim.w, ep: 1, task: &self.name };
        self.side.census(&api);
    }
    fn poll(&mut self, cx: &mut Context<'_>, sim: &mut SimCtx<'_>) -> TP {
        let name = self.name.clone();
        let api = Api { w: sim.w, ep: 1, task: &name };
        // Reset / PollReset before a response is sent go through SendResponse
        loop {
            if self.side.stream.is_none() && self.side.pc < self.side.ops.len() {
                if let Some(r) = self.resp.as_mut() {
                    let sid = r.stream_id().as_u32();
                    match self.side.ops[self.side.pc].clone() {
                        SendOp::Reset { code } => {
                            r.send_reset(code.into());
                            let (ch, cl) = code_halves(code);
                            api.ev("send_reset", sid, self.tag, "ok", json!({"ch": ch, "cl": cl}));
                            self.side.pc += 1;
                            continue;
                        }
                        SendOp::PollReset => {
                            match r.poll_reset(cx) {
                                Poll::Pending => {
                                    api.ev("poll_reset", sid, self.tag, "pending", json!({}));
                                    self.side.blocked = Some("poll_reset".into());
                                    return TP::Pending;
                                }
                                Poll::Ready(Ok(c)) => {
                                    let (ch, cl) = code_halves(c.into());
                                    api.ev("poll_reset", sid, self.tag, "ok", json!({"ch": ch, "cl": cl}));
                                }
                                Poll::Ready(Err(e)) => api.ev("poll_reset", sid, self.tag, "err", json!({"e": err_json(&e)})),
                            }
                            self.side.pc += 1;
                            continue;
                        }
                        _ => {}
                    }
                }
            }
            break;
        }
        let r = self.side.run(cx, sim, &api, self.resp.as_mut());
        if let TP::Done = r {
            let sid = self.resp.as_ref().map(|r| r.stream_id().as_u32()).unwrap_or(0);
            self.side.stream = None;
            self.resp = None;
            if !self.side.parked {
                api.ev("drop_send", sid, self.tag, "ok", json!({}));
            }
        }
        r
    }
}

pub struct PushWriter {
    pub name: String,
    pub pushed: Option<server::SendPushedResponse<Bytes>>,
    pub side: SendSide,
}

impl Task for PushWriter {
    fn name(&self) -> &str {
        &self.name
    }
    fn cur_sid(&self) -> u32 {
        self.pushed.as_ref().map(|r| r.stream_id().as_u32()).unwrap_or(self.side.sid_cached())
    }
    fn ep(&self) -> usize {
        1
    }
    fn outstanding(&self) -> Option<String> {
        self.side.blocked.clone()
    }
    fn waiting_q(&self) -> Option<usize> {
        self.side.waitq
    }
    fn census(&mut self, sim: &mut SimCtx<'_>) {
        let api = Api { w: sim.w, ep: 1, task: &self.name };
        self.side.census(&api);
    }
    fn poll(&mut self, cx: &mut Context<'_>, sim: &mut SimCtx<'_>) -> TP {
        let name = self.name.clone();
        let api = Api { w: sim.w, ep: 1, task: &name };
        let tag = self.side.tag;
        // handle the Response op ourselves (SendPushedResponse has its own send_response)
        while self.side.stream.is_none() && self.side.pc < self.side.ops.len() {
            let p = match self.pushed.as_mut() {
                Some(p) => p,
                None => break,
            };
            let sid = p.stream_id().as_u32();
            match self.side.ops[self.side.pc].clone() {
                SendOp::Response { status, hid, eos } => {
                    let mut b = Response::builder().status(status);
                    for (n, v) in hdrpool(hid) {
                        b = b.header(n, v);
                    }
                    let resp = b.body(()).unwrap();
                    let canon = canon_resp(&resp);
                    match p.send_response(resp, eos) {
                        Ok(s) => {
                            api.ev("send_response", sid, tag, "ok", json!({"hdr": canon, "status": status, "eos": eos}));
                            self.side.stream = Some(s);
                        }
                        Err(e) => api.ev("send_response", sid, tag, "err", json!({"hdr": canon, "status": status, "eos": eos, "e": err_json(&e)})),
                    }
                    self.side.pc += 1;
                }
                SendOp::Reset { code } => {
                    p.send_reset(code.into());
                    let (ch, cl) = code_halves(code);
                    api.ev("send_reset", sid, tag, "ok", json!({"ch": ch, "cl": cl}));
                    self.side.pc += 1;
                }
                SendOp::WaitQ { k } => {
                    if sim.reg.nq < k {
                        self.side.waitq = Some(k);
                        return TP::Pending;
                    }
                    self.side.waitq = None;
                    self.side.pc += 1;
                }
                _ => break,
            }
        }
        let r = self.side.run(cx, sim, &api, None);
        if let TP::Done = r {
            let sid = self.pushed.as_ref().map(|r| r.stream_id().as_u32()).unwrap_or(0);
            self.side.stream = None;
            self.pushed = None;
            api.ev("drop_send", sid, tag, "ok", json!({}));
        }
        r
    }
}

// ---------------------------------------------------------------------------
// user ping task

pub struct PingTask {
    pub name: String,
    pub ep: usize,
    pub pp: Option<h2::PingPong>,
    pub sent: bool,
    pub blocked: Option<String>,
}

impl Task for PingTask {
    fn name(&self) -> &str {
        &self.name
    }
    fn ep(&self) -> usize {
        self.ep
    }
    fn outstanding(&self) -> Option<String> {
        self.blocked.clone()
    }
    fn poll(&mut self, cx: &mut Context<'_>, sim: &mut SimCtx<'_>) -> TP {
        let name = self.name.clone();
        let api = Api { w: sim.w, ep: self.ep, task: &name };
        self.blocked = None;
        let pp = match self.pp.as_mut() {
            Some(p) => p,
            None => return TP::Done,
        };
        if !self.sent {
            match pp.send_ping(h2::Ping::opaque()) {
                Ok(()) => api.ev("send_ping", 0, 0, "ok", json!({})),
                Err(e) => {
                    api.ev("send_ping", 0, 0, "err", json!({"e": err_json(&e)}));
                    sim.reg.ping[self.ep] = self.pp.take();
                    return TP::Done;
                }
            }
            self.sent = true;
        }
        match pp.poll_pong(cx) {
            Poll::Pending => {
                api.ev("poll_pong", 0, 0, "pending", json!({}));
                self.blocked = Some("poll_pong".into());
                TP::Pending
            }
            Poll::Ready(Ok(_)) => {
                api.ev("poll_pong", 0, 0, "ok", json!({}));
                sim.reg.ping[self.ep] = self.pp.take();
                TP::Done
            }
            Poll::Ready(Err(e)) => {
                api.ev("poll_pong", 0, 0, "err", json!({"e": err_json(&e)}));
                sim.reg.ping[self.ep] = self.pp.take();
                TP::Done
            }
        }
    }
}
