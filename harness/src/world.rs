//! Shared simulation state: recorder, byte pipes, the transport handed to h2.

use crate::wire::WireDecoder;
use serde_json::{json, Value};
use std::collections::VecDeque;
use std::io;
use std::pin::Pin;
use std::sync::{Arc, Mutex};
use std::task::{Context, Poll, Waker};
use tokio::io::{AsyncRead, AsyncWrite, ReadBuf};

pub const EP: [&str; 2] = ["c", "s"];

#[derive(Default)]
pub struct Recorder {
    pub lines: Vec<String>,
    pub enabled: bool,
    pub n_events: usize,
    /// per endpoint: something other than rd/wr/fl was logged since the last logged rd / fl
    pub dirty_rd: [bool; 2],
    pub dirty_fl: [bool; 2],
}

impl Recorder {
    /// Transport callback events are only informative (knowledge points) when something
    /// happened since the previous one; redundant ones are dropped to keep traces small.
    pub fn log_io(&mut self, ep: usize, kind: &str, v: Value, always: bool) {
        match kind {
            "rd" => {
                if !always && !self.dirty_rd[ep] {
                    return;
                }
                self.dirty_rd[ep] = false;
            }
            "fl" => {
                if !always && !self.dirty_fl[ep] {
                    return;
                }
                self.dirty_fl[ep] = false;
            }
            _ => {
                if !always {
                    return;
                }
            }
        }
        self.n_events += 1;
        if self.enabled {
            self.lines.push(v.to_string());
        }
    }
    pub fn log(&mut self, v: Value) {
        self.dirty_rd = [true, true];
        self.dirty_fl = [true, true];
        self.n_events += 1;
        if self.enabled {
            self.lines.push(v.to_string());
        }
    }
}

#[derive(Clone, Copy, Debug, PartialEq)]
pub enum Fault {
    None,
    Err(io::ErrorKind),
}

/// One direction of the byte pipe (writer endpoint -> reader endpoint).
pub struct Dir {
    pub inflight: VecDeque<u8>,
    pub readable: VecDeque<u8>,
    pub rwaker: Option<Waker>,
    pub wwaker: Option<Waker>,
    /// remaining bytes the writer may push before writes return Pending; None = unlimited
    pub wbudget: Option<usize>,
    pub wmax: usize,
    pub rmax: usize,
    /// writer has closed (shutdown) or a clean EOF was injected: after draining, reader sees EOF
    pub eof: bool,
    pub rerr: Option<io::ErrorKind>,
    pub werr: Option<io::ErrorKind>,
    pub wzero: bool,
    pub shutdown_called: bool,
    /// after an abrupt cut nothing written later may reach the reader (accepted and discarded)
    pub discard: bool,
    pub vectored: bool,
    pub flush_pending: usize,
    pub out_dec: WireDecoder,
    pub in_dec: WireDecoder,
    pub total_w: u64,
    pub total_r: u64,
    pub out_frames: usize,
    pub in_frames: usize,
    /// number of frames of this direction that the reader-side peer has consumed (mode B: scripted peer)
    pub consumed_frames: usize,
}

impl Dir {
    pub fn new(expect_preface: bool) -> Dir {
        Dir {
            inflight: VecDeque::new(),
            readable: VecDeque::new(),
            rwaker: None,
            wwaker: None,
            wbudget: None,
            wmax: usize::MAX,
            rmax: usize::MAX,
            eof: false,
            rerr: None,
            werr: None,
            wzero: false,
            shutdown_called: false,
            discard: false,
            vectored: false,
            flush_pending: 0,
            out_dec: WireDecoder::new(expect_preface),
            in_dec: WireDecoder::new(expect_preface),
            total_w: 0,
            total_r: 0,
            out_frames: 0,
            in_frames: 0,
            consumed_frames: 0,
        }
    }
}

pub struct World {
    pub rec: Recorder,
    /// dirs[0]: client -> server, dirs[1]: server -> client
    pub dirs: [Dir; 2],
    /// which endpoints are real h2 (true) vs scripted peer (false)
    pub real: [bool; 2],
    pub step: u64,
    /// operations to run inside transport callbacks (C20): (callback kind, closure)
    pub inline_ops: Vec<Box<dyn FnMut(&str, usize) + Send>>,
    /// C20: scripted handle operations waiting for their callback; handles parked by the application tasks
    pub inline_steps: Vec<crate::scenario::InlineStep>,
    /// callbacks seen so far per endpoint: [read, write, flush, any]
    pub inline_count: [[usize; 4]; 2],
    pub parked_send: std::collections::HashMap<(usize, u32), ParkedSend>,
    pub parked_recv: std::collections::HashMap<(usize, u32), ParkedRecv>,
    pub parked_send_ever: std::collections::HashSet<(usize, u32)>,
    pub parked_recv_ever: std::collections::HashSet<(usize, u32)>,
    pub inline_sr: Option<h2::client::SendRequest<bytes::Bytes>>,
    pub inline_ping: [Option<h2::PingPong>; 2],
    /// re-entrancy guard: an inline operation never triggers another one
    pub in_inline: bool,
    /// quiescences so far (mirrors the executor's counter)
    pub nq: usize,
    /// threaded driver: written bytes are readable by the other side at once (no delivery steps)
    pub direct: bool,
}

pub struct ParkedSend {
    pub stream: h2::SendStream<bytes::Bytes>,
    pub sent: u64,
}

pub struct ParkedRecv {
    pub rs: h2::RecvStream,
    pub off: u64,
}

pub type Shared = Arc<Mutex<World>>;

impl World {
    pub fn new() -> World {
        World {
            rec: Recorder { lines: vec![], enabled: true, n_events: 0, dirty_rd: [true, true], dirty_fl: [true, true] },
            dirs: [Dir::new(true), Dir::new(false)],
            real: [true, true],
            step: 0,
            inline_ops: vec![],
            inline_steps: vec![],
            inline_count: [[0; 4]; 2],
            parked_send: Default::default(),
            parked_recv: Default::default(),
            parked_send_ever: Default::default(),
            parked_recv_ever: Default::default(),
            inline_sr: None,
            inline_ping: [None, None],
            in_inline: false,
            nq: 0,
            direct: false,
        }
    }
    pub fn log(&mut self, v: Value) {
        self.rec.log(v);
    }
}

/// The transport handed to h2 for endpoint `ep` (0 = client, 1 = server).
pub struct SimIo {
    pub ep: usize,
    pub w: Shared,
}

impl SimIo {
    fn wdir(&self) -> usize {
        self.ep
    }
    fn rdir(&self) -> usize {
        1 - self.ep
    }
}

fn run_inline(w: &Shared, kind: &str, ep: usize) {
    // take the ops out so that they can lock the world themselves
    let mut ops = {
        let mut g = w.lock().unwrap();
        std::mem::take(&mut g.inline_ops)
    };
    for op in ops.iter_mut() {
        op(kind, ep);
    }
    let due: Vec<crate::scenario::InlineStep> = {
        let mut g = w.lock().unwrap();
        let mut newer = std::mem::take(&mut g.inline_ops);
        ops.append(&mut newer);
        g.inline_ops = ops;
        if g.in_inline || g.inline_steps.is_empty() {
            return;
        }
        let k = match kind { "read" => 0, "write" => 1, _ => 2 };
        g.inline_count[ep][k] += 1;
        g.inline_count[ep][3] += 1;
        let (ck, ca) = (g.inline_count[ep][k], g.inline_count[ep][3]);
        let mut due = vec![];
        let mut rest = vec![];
        for st in std::mem::take(&mut g.inline_steps) {
            let hit = if st.min_q > 0 { (st.at == kind || st.at == "any") && g.nq >= st.min_q } else { (st.at == kind && st.nth == ck) || (st.at == "any" && st.nth == ca) };
            if st.ep == ep && hit {
                due.push(st);
            } else {
                rest.push(st);
            }
        }
        g.inline_steps = rest;
        if !due.is_empty() {
            g.in_inline = true;
        }
        due
    };
    if due.is_empty() {
        return;
    }
    for st in due {
        // a handle that has not been parked yet: try again a few callbacks later
        let wait = {
            let g = w.lock().unwrap();
            match inline_key(&st.act) {
                Some((send, tag)) => !(if send { g.parked_send_ever.contains(&(ep, tag)) } else { g.parked_recv_ever.contains(&(ep, tag)) }),
                None => false,
            }
        };
        if wait {
            let mut g = w.lock().unwrap();
            let k = match st.at.as_str() { "read" => 0, "write" => 1, "flush" => 2, _ => 3 };
            let c = g.inline_count[ep][k];
            if c < 400 {
                let mut st2 = st.clone();
                st2.nth = c + 2;
                g.inline_steps.push(st2);
            }
            continue;
        }
        exec_inline(w, &st, kind);
    }
    w.lock().unwrap().in_inline = false;
}

/// (is a send-half operation, tag) of an inline act that works on a parked handle
fn inline_key(a: &crate::scenario::InlineAct) -> Option<(bool, u32)> {
    use crate::scenario::InlineAct::*;
    match a {
        Data { tag, .. } | Reset { tag, .. } | DropSend { tag } | Reserve { tag, .. } | Capacity { tag } => Some((true, *tag)),
        PollData { tag } | Release { tag, .. } | DropRecv { tag } => Some((false, *tag)),
        _ => None,
    }
}

/// the inline steps scheduled for quiescence number `nq` (what never fired inside a callback is run from the executor)
pub fn run_inline_at_q(w: &Shared, nq: usize) {
    let due: Vec<crate::scenario::InlineStep> = {
        let mut g = w.lock().unwrap();
        let (due, rest): (Vec<_>, Vec<_>) = std::mem::take(&mut g.inline_steps).into_iter().partition(|st| st.at == "q" && st.nth <= nq);
        g.inline_steps = rest;
        due
    };
    for st in due {
        exec_inline(w, &st, "q");
    }
}

/// Watchdog for operations executed inside transport callbacks: if h2 held one of its locks there, the operation would
/// never return (std::sync::Mutex is not re-entrant). The process then reports the deadlock and exits with status 3.
static INLINE_STARTED_MS: std::sync::atomic::AtomicU64 = std::sync::atomic::AtomicU64::new(0);
static WATCHDOG: std::sync::Once = std::sync::Once::new();
pub static CURRENT_RUN: Mutex<String> = Mutex::new(String::new());

fn now_ms() -> u64 {
    std::time::SystemTime::now().duration_since(std::time::UNIX_EPOCH).map(|d| d.as_millis() as u64).unwrap_or(1)
}

fn watchdog_arm() {
    WATCHDOG.call_once(|| {
        std::thread::spawn(|| loop {
            std::thread::sleep(std::time::Duration::from_millis(500));
            let s = INLINE_STARTED_MS.load(std::sync::atomic::Ordering::SeqCst);
            if s != 0 && now_ms().saturating_sub(s) > 20_000 {
                let name = CURRENT_RUN.lock().map(|g| g.clone()).unwrap_or_default();
                eprintln!("DEADLOCK run={} : a handle operation executed inside a transport callback did not return within 20 s", name);
                std::process::exit(3);
            }
        });
    });
    INLINE_STARTED_MS.store(now_ms(), std::sync::atomic::Ordering::SeqCst);
}

fn watchdog_disarm() {
    INLINE_STARTED_MS.store(0, std::sync::atomic::Ordering::SeqCst);
}

/// One handle operation, executed with no harness lock held. It is logged like any application call (task "inline").
fn exec_inline(w: &Shared, st: &crate::scenario::InlineStep, kind: &str) {
    struct Disarm;
    impl Drop for Disarm {
        fn drop(&mut self) {
            watchdog_disarm(); // also when the operation panics
        }
    }
    watchdog_arm();
    let _d = Disarm;
    exec_inline_inner(w, st, kind);
}

fn exec_inline_inner(w: &Shared, st: &crate::scenario::InlineStep, kind: &str) {
    use crate::scenario::InlineAct::*;
    use crate::tasks::{body, err_json, intact, Api};
    use serde_json::json;
    let ep = st.ep;
    let api = Api { w, ep, task: "inline" };
    w.lock().unwrap().log(json!({"t": "inline", "ep": EP[ep], "at": kind, "act": serde_json::to_value(&st.act).unwrap_or_default()}));
    let waker = futures_noop_waker();
    let mut cx = std::task::Context::from_waker(&waker);
    match &st.act {
        Data { tag, n, eos } => {
            let p = w.lock().unwrap().parked_send.remove(&(ep, *tag));
            if let Some(mut p) = p {
                let sid = p.stream.stream_id().as_u32();
                match p.stream.send_data(body(*tag, p.sent, *n), *eos) {
                    Ok(()) => {
                        api.ev("send_data", sid, *tag, "ok", json!({"n": n, "eos": eos, "off": p.sent}));
                        p.sent += *n as u64;
                    }
                    Err(e) => api.ev("send_data", sid, *tag, "err", json!({"n": n, "eos": eos, "off": p.sent, "e": err_json(&e)})),
                }
                w.lock().unwrap().parked_send.insert((ep, *tag), p);
            }
        }
        Reset { tag, code } => {
            let p = w.lock().unwrap().parked_send.remove(&(ep, *tag));
            if let Some(mut p) = p {
                let sid = p.stream.stream_id().as_u32();
                p.stream.send_reset((*code).into());
                api.ev("send_reset", sid, *tag, "ok", json!({"ch": (*code >> 16) as i64, "cl": (*code & 0xffff) as i64}));
                w.lock().unwrap().parked_send.insert((ep, *tag), p);
            }
        }
        DropSend { tag } => {
            let p = w.lock().unwrap().parked_send.remove(&(ep, *tag));
            if let Some(p) = p {
                let sid = p.stream.stream_id().as_u32();
                drop(p);
                api.ev("drop_send", sid, *tag, "ok", json!({}));
            }
        }
        Reserve { tag, n } => {
            let p = w.lock().unwrap().parked_send.remove(&(ep, *tag));
            if let Some(mut p) = p {
                let sid = p.stream.stream_id().as_u32();
                p.stream.reserve_capacity(*n);
                api.ev("reserve", sid, *tag, "ok", json!({"n": n}));
                w.lock().unwrap().parked_send.insert((ep, *tag), p);
            }
        }
        Capacity { tag } => {
            let p = w.lock().unwrap().parked_send.remove(&(ep, *tag));
            if let Some(p) = p {
                let sid = p.stream.stream_id().as_u32();
                let c = p.stream.capacity();
                api.ev("capacity", sid, *tag, "ok", json!({"v": c}));
                w.lock().unwrap().parked_send.insert((ep, *tag), p);
            }
        }
        PollData { tag } => {
            let p = w.lock().unwrap().parked_recv.remove(&(ep, *tag));
            if let Some(mut p) = p {
                let sid = p.rs.stream_id().as_u32();
                match p.rs.poll_data(&mut cx) {
                    std::task::Poll::Pending => api.ev("poll_data", sid, *tag, "pending", json!({})),
                    std::task::Poll::Ready(None) => api.ev("poll_data", sid, *tag, "none", json!({"eos": p.rs.is_end_stream()})),
                    std::task::Poll::Ready(Some(Err(e))) => api.ev("poll_data", sid, *tag, "err", json!({"e": err_json(&e)})),
                    std::task::Poll::Ready(Some(Ok(b))) => {
                        let ok = intact(*tag, p.off, &b);
                        api.ev("poll_data", sid, *tag, "some", json!({"n": b.len(), "off": p.off, "intact": ok, "eos": p.rs.is_end_stream()}));
                        p.off += b.len() as u64;
                    }
                }
                w.lock().unwrap().parked_recv.insert((ep, *tag), p);
            }
        }
        Release { tag, n } => {
            let p = w.lock().unwrap().parked_recv.remove(&(ep, *tag));
            if let Some(mut p) = p {
                let sid = p.rs.stream_id().as_u32();
                match p.rs.flow_control().release_capacity(*n) {
                    Ok(()) => api.ev("release", sid, *tag, "ok", json!({"n": n})),
                    Err(e) => api.ev("release", sid, *tag, "err", json!({"n": n, "e": err_json(&e)})),
                }
                w.lock().unwrap().parked_recv.insert((ep, *tag), p);
            }
        }
        DropRecv { tag } => {
            let p = w.lock().unwrap().parked_recv.remove(&(ep, *tag));
            if let Some(p) = p {
                let sid = p.rs.stream_id().as_u32();
                drop(p);
                api.ev("drop_recv", sid, *tag, "ok", json!({}));
            }
        }
        SendRequest { tag } => {
            let sr = w.lock().unwrap().inline_sr.take();
            if let Some(mut sr) = sr {
                let req = http::Request::builder().method("GET").uri("https://sim.test/inline").header("x-tag", tag.to_string()).body(()).unwrap();
                let canon = crate::tasks::canon_req(&req);
                match sr.send_request(req, true) {
                    Ok((resp, stream)) => {
                        let sid = stream.stream_id().as_u32();
                        api.ev("send_request", sid, *tag, "ok", json!({"hdr": canon, "eos": true}));
                        drop(stream);
                        api.ev("drop_send", sid, *tag, "ok", json!({}));
                        drop(resp);
                        api.ev("drop_resp", sid, *tag, "ok", json!({}));
                    }
                    Err(e) => api.ev("send_request", 0, *tag, "err", json!({"hdr": canon, "eos": true, "e": err_json(&e)})),
                }
                w.lock().unwrap().inline_sr = Some(sr);
            }
        }
        DropSr => {
            let sr = w.lock().unwrap().inline_sr.take();
            if let Some(sr) = sr {
                api.ev("drop_sr", 0, 0, "ok", json!({}));
                drop(sr);
            }
        }
        Ping => {
            let pp = w.lock().unwrap().inline_ping[ep].take();
            if let Some(mut pp) = pp {
                match pp.send_ping(h2::Ping::opaque()) {
                    Ok(()) => api.ev("send_ping", 0, 0, "ok", json!({})),
                    Err(e) => api.ev("send_ping", 0, 0, "err", json!({"e": err_json(&e)})),
                }
                w.lock().unwrap().inline_ping[ep] = Some(pp);
            }
        }
    }
}

fn futures_noop_waker() -> std::task::Waker {
    struct Noop;
    impl std::task::Wake for Noop {
        fn wake(self: Arc<Self>) {}
    }
    std::task::Waker::from(Arc::new(Noop))
}

/// Dropping the transport closes it: the other side sees EOF once the bytes in flight are read
/// (h2 drops its transport when the connection object is dropped).
impl Drop for SimIo {
    fn drop(&mut self) {
        let mut g = match self.w.lock() {
            Ok(g) => g,
            Err(p) => p.into_inner(),
        };
        let d = self.ep;
        if !g.dirs[d].eof {
            g.dirs[d].eof = true;
            g.log(json!({"t": "io_drop", "ep": EP[self.ep]}));
        }
        if let Some(wk) = g.dirs[d].rwaker.take() {
            drop(g);
            wk.wake();
        }
    }
}

impl AsyncRead for SimIo {
    fn poll_read(self: Pin<&mut Self>, cx: &mut Context<'_>, buf: &mut ReadBuf<'_>) -> Poll<io::Result<()>> {
        run_inline(&self.w, "read", self.ep);
        let mut g = self.w.lock().unwrap();
        let ep = self.ep;
        let d = self.rdir();
        if let Some(k) = g.dirs[d].rerr {
            g.rec.log_io(ep, "rd", json!({"t": "rd", "ep": EP[ep], "n": -2}), true);
            return Poll::Ready(Err(io::Error::new(k, "injected read error")));
        }
        if g.dirs[d].readable.is_empty() {
            if g.dirs[d].eof && g.dirs[d].inflight.is_empty() {
                g.rec.log_io(ep, "rd", json!({"t": "rd", "ep": EP[ep], "n": 0}), true);
                return Poll::Ready(Ok(()));
            }
            g.dirs[d].rwaker = Some(cx.waker().clone());
            g.rec.log_io(ep, "rd", json!({"t": "rd", "ep": EP[ep], "n": -1}), false);
            return Poll::Pending;
        }
        let n = buf.remaining().min(g.dirs[d].rmax).min(g.dirs[d].readable.len());
        let bytes: Vec<u8> = g.dirs[d].readable.drain(..n).collect();
        buf.put_slice(&bytes);
        g.dirs[d].total_r += n as u64;
        g.rec.log_io(ep, "rd", json!({"t": "rd", "ep": EP[ep], "n": n}), false);
        let frames = g.dirs[d].in_dec.feed(&bytes);
        for (_, j) in frames {
            g.dirs[d].in_frames += 1;
            let idx = g.dirs[d].in_frames;
            g.log(json!({"t": "in", "ep": EP[ep], "idx": idx, "f": j}));
        }
        Poll::Ready(Ok(()))
    }
}

impl SimIo {
    fn do_write(&self, cx: &mut Context<'_>, data: &[u8]) -> Poll<io::Result<usize>> {
        let mut g = self.w.lock().unwrap();
        let ep = self.ep;
        let d = self.wdir();
        if let Some(k) = g.dirs[d].werr {
            g.rec.log_io(ep, "wr", json!({"t": "wr", "ep": EP[ep], "n": -2}), true);
            return Poll::Ready(Err(io::Error::new(k, "injected write error")));
        }
        if g.dirs[d].wzero {
            g.rec.log_io(ep, "wr", json!({"t": "wr", "ep": EP[ep], "n": 0}), true);
            return Poll::Ready(Ok(0));
        }
        let mut n = data.len().min(g.dirs[d].wmax);
        if let Some(b) = g.dirs[d].wbudget {
            n = n.min(b);
        }
        if n == 0 && !data.is_empty() {
            g.dirs[d].wwaker = Some(cx.waker().clone());
            g.rec.log_io(ep, "wr", json!({"t": "wr", "ep": EP[ep], "n": -1}), false);
            return Poll::Pending;
        }
        if let Some(b) = g.dirs[d].wbudget.as_mut() {
            *b -= n;
        }
        if !g.dirs[d].discard {
            g.dirs[d].inflight.extend(&data[..n]);
        }
        if g.direct {
            let b: Vec<u8> = g.dirs[d].inflight.drain(..).collect();
            g.dirs[d].readable.extend(b);
            if let Some(wk) = g.dirs[d].rwaker.take() {
                wk.wake();
            }
        }
        g.dirs[d].total_w += n as u64;
        g.rec.log_io(ep, "wr", json!({"t": "wr", "ep": EP[ep], "n": n}), false);
        let frames = g.dirs[d].out_dec.feed(&data[..n]);
        for (_, j) in frames {
            g.dirs[d].out_frames += 1;
            let idx = g.dirs[d].out_frames;
            g.log(json!({"t": "out", "ep": EP[ep], "idx": idx, "f": j}));
        }
        Poll::Ready(Ok(n))
    }
}

impl AsyncWrite for SimIo {
    fn poll_write(self: Pin<&mut Self>, cx: &mut Context<'_>, data: &[u8]) -> Poll<io::Result<usize>> {
        run_inline(&self.w, "write", self.ep);
        self.do_write(cx, data)
    }
    fn poll_write_vectored(self: Pin<&mut Self>, cx: &mut Context<'_>, bufs: &[io::IoSlice<'_>]) -> Poll<io::Result<usize>> {
        run_inline(&self.w, "write", self.ep);
        // gather (bounded) and write as one
        let mut v = vec![];
        for b in bufs {
            v.extend_from_slice(b);
        }
        self.do_write(cx, &v)
    }
    fn is_write_vectored(&self) -> bool {
        self.w.lock().unwrap().dirs[self.ep].vectored
    }
    fn poll_flush(self: Pin<&mut Self>, cx: &mut Context<'_>) -> Poll<io::Result<()>> {
        run_inline(&self.w, "flush", self.ep);
        let mut g = self.w.lock().unwrap();
        let ep = self.ep;
        let d = self.wdir();
        if let Some(k) = g.dirs[d].werr {
            g.rec.log_io(ep, "fl", json!({"t": "fl", "ep": EP[ep], "ok": false}), true);
            return Poll::Ready(Err(io::Error::new(k, "injected write error")));
        }
        if g.dirs[d].flush_pending > 0 {
            g.dirs[d].flush_pending -= 1;
            g.rec.log_io(ep, "fl", json!({"t": "fl", "ep": EP[ep], "ok": false}), false);
            cx.waker().wake_by_ref();
            return Poll::Pending;
        }
        g.rec.log_io(ep, "fl", json!({"t": "fl", "ep": EP[ep], "ok": true}), false);
        Poll::Ready(Ok(()))
    }
    fn poll_shutdown(self: Pin<&mut Self>, _cx: &mut Context<'_>) -> Poll<io::Result<()>> {
        let mut g = self.w.lock().unwrap();
        let ep = self.ep;
        let d = self.wdir();
        g.dirs[d].shutdown_called = true;
        g.dirs[d].eof = true;
        if let Some(wk) = g.dirs[d].rwaker.take() {
            wk.wake();
        }
        g.log(json!({"t": "sd", "ep": EP[ep]}));
        Poll::Ready(Ok(()))
    }
}
