//! Shared simulation state: recorder, byte pipes, the transport handed to h2.

use crate::wire::WireDecoder;
use serde_json::{json, Value};
use std::collections::VecDeque;
use std::io;
use std::pin::Pin;
use std::sync::{Arc, Mutex};
use std::task::{Context, Poll, Waker};
use tokio::io::{AsyncRead, AsyncWrite, ReadBuf};

pub const EP: [&str; 2] = ["c", "s"];

#[derive(Default)]
pub struct Recorder {
    pub lines: Vec<String>,
    pub enabled: bool,
    pub n_events: usize,
    /// per endpoint: something other than rd/wr/fl was logged since the last logged rd / fl
    pub dirty_rd: [bool; 2],
    pub dirty_fl: [bool; 2],
}

impl Recorder {
    /// Transport callback events are only informative (knowledge points) when something
    /// happened since the previous one; redundant ones are dropped to keep traces small.
    pub fn log_io(&mut self, ep: usize, kind: &str, v: Value, always: bool) {
        match kind {
            "rd" => {
                if !always && !self.dirty_rd[ep] {
                    return;
                }
                self.dirty_rd[ep] = false;
            }
            "fl" => {
                if !always && !self.dirty_fl[ep] {
                    return;
                }
                self.dirty_fl[ep] = false;
            }
            _ => {
                if !always {
                    return;
                }
            }
        }
        self.n_events += 1;
        if self.enabled {
            self.lines.push(v.to_string());
        }
    }
    pub fn log(&mut self, v: Value) {
        self.dirty_rd = [true, true];
        self.dirty_fl = [true, true];
        self.n_events += 1;
        if self.enabled {
            self.lines.push(v.to_string());
        }
    }
}

#[derive(Clone, Copy, Debug, PartialEq)]
pub enum Fault {
    None,
    Err(io::ErrorKind),
}

/// One direction of the byte pipe (writer endpoint -> reader endpoint).
pub struct Dir {
    pub inflight: VecDeque<u8>,
    pub readable: VecDeque<u8>,
    pub rwaker: Option<Waker>,
    pub wwaker: Option<Waker>,
    /// remaining bytes the writer may push before writes return Pending; None = unlimited
    pub wbudget: Option<usize>,
    pub wmax: usize,
    pub rmax: usize,
    /// writer has closed (shutdown) or a clean EOF was injected: after draining, reader sees EOF
    pub eof: bool,
    pub rerr: Option<io::ErrorKind>,
    pub werr: Option<io::ErrorKind>,
    pub wzero: bool,
    pub shutdown_called: bool,
    /// after an abrupt cut nothing written later may reach the reader (accepted and discarded)
    pub discard: bool,
    pub vectored: bool,
    pub flush_pending: usize,
    pub out_dec: WireDecoder,
    pub in_dec: WireDecoder,
    pub total_w: u64,
    pub total_r: u64,
    pub out_frames: usize,
    pub in_frames: usize,
    /// number of frames of this direction that the reader-side peer has consumed (mode B: scripted peer)
    pub consumed_frames: usize,
}

impl Dir {
    pub fn new(expect_preface: bool) -> Dir {
        Dir {
            inflight: VecDeque::new(),
            readable: VecDeque::new(),
            rwaker: None,
            wwaker: None,
            wbudget: None,
            wmax: usize::MAX,
            rmax: usize::MAX,
            eof: false,
            rerr: None,
            werr: None,
            wzero: false,
            shutdown_called: false,
            discard: false,
            vectored: false,
            flush_pending: 0,
            out_dec: WireDecoder::new(expect_preface),
            in_dec: WireDecoder::new(expect_preface),
            total_w: 0,
            total_r: 0,
            out_frames: 0,
            in_frames: 0,
            consumed_frames: 0,
        }
    }
}

pub struct World {
    pub rec: Recorder,
    /// dirs[0]: client -> server, dirs[1]: server -> client
    pub dirs: [Dir; 2],
    /// which endpoints are real h2 (true) vs scripted peer (false)
    pub real: [bool; 2],
    pub step: u64,
    /// operations to run inside transport callbacks (C20): (callback kind, closure)
    pub inline_ops: Vec<Box<dyn FnMut(&str, usize) + Send>>,
}

pub type Shared = Arc<Mutex<World>>;

impl World {
    pub fn new() -> World {
        World {
            rec: Recorder { lines: vec![], enabled: true, n_events: 0, dirty_rd: [true, true], dirty_fl: [true, true] },
            dirs: [Dir::new(true), Dir::new(false)],
            real: [true, true],
            step: 0,
            inline_ops: vec![],
        }
    }
    pub fn log(&mut self, v: Value) {
        self.rec.log(v);
    }
}

/// The transport handed to h2 for endpoint `ep` (0 = client, 1 = server).
pub struct SimIo {
    pub ep: usize,
    pub w: Shared,
}

impl SimIo {
    fn wdir(&self) -> usize {
        self.ep
    }
    fn rdir(&self) -> usize {
        1 - self.ep
    }
}

fn run_inline(w: &Shared, kind: &str, ep: usize) {
    // take the ops out so that they can lock the world themselves
    let mut ops = {
        let mut g = w.lock().unwrap();
        std::mem::take(&mut g.inline_ops)
    };
    for op in ops.iter_mut() {
        op(kind, ep);
    }
    let mut g = w.lock().unwrap();
    let mut newer = std::mem::take(&mut g.inline_ops);
    ops.append(&mut newer);
    g.inline_ops = ops;
}

/// Dropping the transport closes it: the other side sees EOF once the bytes in flight are read
/// (h2 drops its transport when the connection object is dropped).
impl Drop for SimIo {
    fn drop(&mut self) {
        let mut g = match self.w.lock() {
            Ok(g) => g,
            Err(p) => p.into_inner(),
        };
        let d = self.ep;
        if !g.dirs[d].eof {
            g.dirs[d].eof = true;
            g.log(json!({"t": "io_drop", "ep": EP[self.ep]}));
        }
        if let Some(wk) = g.dirs[d].rwaker.take() {
            drop(g);
            wk.wake();
        }
    }
}

impl AsyncRead for SimIo {
    fn poll_read(self: Pin<&mut Self>, cx: &mut Context<'_>, buf: &mut ReadBuf<'_>) -> Poll<io::Result<()>> {
        run_inline(&self.w, "read", self.ep);
        let mut g = self.w.lock().unwrap();
        let ep = self.ep;
        let d = self.rdir();
        if let Some(k) = g.dirs[d].rerr {
            g.rec.log_io(ep, "rd", json!({"t": "rd", "ep": EP[ep], "n": -2}), true);
            return Poll::Ready(Err(io::Error::new(k, "injected read error")));
        }
        if g.dirs[d].readable.is_empty() {
            if g.dirs[d].eof && g.dirs[d].inflight.is_empty() {
                g.rec.log_io(ep, "rd", json!({"t": "rd", "ep": EP[ep], "n": 0}), true);
                return Poll::Ready(Ok(()));
            }
            g.dirs[d].rwaker = Some(cx.waker().clone());
            g.rec.log_io(ep, "rd", json!({"t": "rd", "ep": EP[ep], "n": -1}), false);
            return Poll::Pending;
        }
        let n = buf.remaining().min(g.dirs[d].rmax).min(g.dirs[d].readable.len());
        let bytes: Vec<u8> = g.dirs[d].readable.drain(..n).collect();
        buf.put_slice(&bytes);
        g.dirs[d].total_r += n as u64;
        g.rec.log_io(ep, "rd", json!({"t": "rd", "ep": EP[ep], "n": n}), false);
        let frames = g.dirs[d].in_dec.feed(&bytes);
        for (_, j) in frames {
            g.dirs[d].in_frames += 1;
            let idx = g.dirs[d].in_frames;
            g.log(json!({"t": "in", "ep": EP[ep], "idx": idx, "f": j}));
        }
        Poll::Ready(Ok(()))
    }
}

impl SimIo {
    fn do_write(&self, cx: &mut Context<'_>, data: &[u8]) -> Poll<io::Result<usize>> {
        let mut g = self.w.lock().unwrap();
        let ep = self.ep;
        let d = self.wdir();
        if let Some(k) = g.dirs[d].werr {
            g.rec.log_io(ep, "wr", json!({"t": "wr", "ep": EP[ep], "n": -2}), true);
            return Poll::Ready(Err(io::Error::new(k, "injected write error")));
        }
        if g.dirs[d].wzero {
            g.rec.log_io(ep, "wr", json!({"t": "wr", "ep": EP[ep], "n": 0}), true);
            return Poll::Ready(Ok(0));
        }
        let mut n = data.len().min(g.dirs[d].wmax);
        if let Some(b) = g.dirs[d].wbudget {
            n = n.min(b);
        }
        if n == 0 && !data.is_empty() {
            g.dirs[d].wwaker = Some(cx.waker().clone());
            g.rec.log_io(ep, "wr", json!({"t": "wr", "ep": EP[ep], "n": -1}), false);
            return Poll::Pending;
        }
        if let Some(b) = g.dirs[d].wbudget.as_mut() {
            *b -= n;
        }
        if !g.dirs[d].discard {
            g.dirs[d].inflight.extend(&data[..n]);
        }
        g.dirs[d].total_w += n as u64;
        g.rec.log_io(ep, "wr", json!({"t": "wr", "ep": EP[ep], "n": n}), false);
        let frames = g.dirs[d].out_dec.feed(&data[..n]);
        for (_, j) in frames {
            g.dirs[d].out_frames += 1;
            let idx = g.dirs[d].out_frames;
            g.log(json!({"t": "out", "ep": EP[ep], "idx": idx, "f": j}));
        }
        Poll::Ready(Ok(n))
    }
}

impl AsyncWrite for SimIo {
    fn poll_write(self: Pin<&mut Self>, cx: &mut Context<'_>, data: &[u8]) -> Poll<io::Result<usize>> {
        run_inline(&self.w, "write", self.ep);
        self.do_write(cx, data)
    }
    fn poll_write_vectored(self: Pin<&mut Self>, cx: &mut Context<'_>, bufs: &[io::IoSlice<'_>]) -> Poll<io::Result<usize>> {
        run_inline(&self.w, "write", self.ep);
        // gather (bounded) and write as one
        let mut v = vec![];
        for b in bufs {
            v.extend_from_slice(b);
        }
        self.do_write(cx, &v)
    }
    fn is_write_vectored(&self) -> bool {
        self.w.lock().unwrap().dirs[self.ep].vectored
    }
    fn poll_flush(self: Pin<&mut Self>, cx: &mut Context<'_>) -> Poll<io::Result<()>> {
        run_inline(&self.w, "flush", self.ep);
        let mut g = self.w.lock().unwrap();
        let ep = self.ep;
        let d = self.wdir();
        if let Some(k) = g.dirs[d].werr {
            g.rec.log_io(ep, "fl", json!({"t": "fl", "ep": EP[ep], "ok": false}), true);
            return Poll::Ready(Err(io::Error::new(k, "injected write error")));
        }
        if g.dirs[d].flush_pending > 0 {
            g.dirs[d].flush_pending -= 1;
            g.rec.log_io(ep, "fl", json!({"t": "fl", "ep": EP[ep], "ok": false}), false);
            cx.waker().wake_by_ref();
            return Poll::Pending;
        }
        g.rec.log_io(ep, "fl", json!({"t": "fl", "ep": EP[ep], "ok": true}), false);
        Poll::Ready(Ok(()))
    }
    fn poll_shutdown(self: Pin<&mut Self>, _cx: &mut Context<'_>) -> Poll<io::Result<()>> {
        let mut g = self.w.lock().unwrap();
        let ep = self.ep;
        let d = self.wdir();
        g.dirs[d].shutdown_called = true;
        g.dirs[d].eof = true;
        if let Some(wk) = g.dirs[d].rwaker.take() {
            wk.wake();
        }
        g.log(json!({"t": "sd", "ep": EP[ep]}));
        Poll::Ready(Ok(()))
    }
}
