//! Deterministic executor: a task is polled only if its waker fired since its
//! last poll (or it is new). Scheduling choices come from the scenario script
//! and then from a seeded RNG.

use crate::peer::Peer;
use crate::scenario::*;
use crate::tasks::*;
use crate::world::*;
use rand::rngs::StdRng;
use rand::{Rng, SeedableRng};
use serde_json::json;
use std::cell::RefCell;
use std::panic::{catch_unwind, AssertUnwindSafe};
use std::sync::atomic::{AtomicBool, AtomicUsize, Ordering};
use std::sync::{Arc, Mutex};
use std::task::{Context, Wake, Waker};

pub struct WakeFlag {
    pub woken: AtomicBool,
    pub wakes: AtomicUsize,
}

impl Wake for WakeFlag {
    fn wake(self: Arc<Self>) {
        self.woken.store(true, Ordering::SeqCst);
        self.wakes.fetch_add(1, Ordering::SeqCst);
    }
    fn wake_by_ref(self: &Arc<Self>) {
        self.woken.store(true, Ordering::SeqCst);
        self.wakes.fetch_add(1, Ordering::SeqCst);
    }
}

struct Slot {
    task: Box<dyn Task>,
    flag: Arc<WakeFlag>,
    done: bool,
    selfwakes: usize,
    polls: usize,
}

thread_local! {
    static LAST_PANIC: RefCell<String> = RefCell::new(String::new());
}

pub fn install_panic_hook() {
    std::panic::set_hook(Box::new(|info| {
        let msg = if let Some(s) = info.payload().downcast_ref::<&str>() {
            s.to_string()
        } else if let Some(s) = info.payload().downcast_ref::<String>() {
            s.clone()
        } else {
            "panic".to_string()
        };
        let loc = info.location().map(|l| format!("{}:{}", l.file(), l.line())).unwrap_or_default();
        if std::env::var("H2SIM_PANIC").is_ok() {
            eprintln!("PANIC: {} @ {}\n{}", msg, loc, std::backtrace::Backtrace::force_capture());
        }
        LAST_PANIC.with(|p| *p.borrow_mut() = format!("{} @ {}", msg, loc));
    }));
}

pub struct RunResult {
    pub lines: Vec<String>,
    pub steps: u64,
    pub nq: usize,
    pub panics: usize,
    pub budget: bool,
    pub events: usize,
}

#[derive(Clone, Debug, PartialEq)]
enum Ch {
    Poll(usize),
    Deliver(usize),
    Peer,
}

/// TLC integers are 32 bit: clamp the usize::MAX style "unlimited" values of the statistics snapshot
fn clamp_ints(v: &mut serde_json::Value) {
    match v {
        serde_json::Value::Number(n) => {
            if n.as_i64().map(|x| x > 0x7fff_ffff).unwrap_or(true) && n.as_f64().map(|x| x > 0.0).unwrap_or(false) {
                *v = json!(0x7fff_ffff);
            }
        }
        serde_json::Value::Array(a) => a.iter_mut().for_each(clamp_ints),
        serde_json::Value::Object(o) => o.values_mut().for_each(clamp_ints),
        _ => {}
    }
}

pub fn cfg_json(c: &EpCfg) -> serde_json::Value {
    json!({
        "iws": c.iws.map(|v| v as i64).unwrap_or(65535),
        "conn_win": c.conn_win.map(|v| v as i64).unwrap_or(65535),
        "max_frame": c.max_frame.map(|v| v as i64).unwrap_or(16384),
        "max_conc": c.max_conc.map(|v| (v as i64).min(0x7fff_ffff)).unwrap_or(-1),
        "max_hdr_list": c.max_hdr_list.map(|v| (v as i64).min(0x7fff_ffff)).unwrap_or(16 << 20),
        "hdr_table": c.hdr_table.map(|v| v as i64).unwrap_or(4096),
        "reset_max": c.reset_max.map(|v| v as i64).unwrap_or(50),
        "pending_accept_reset_max": c.pending_accept_reset_max.map(|v| v as i64).unwrap_or(20),
        "local_error_reset_max": c.local_error_reset_max.unwrap_or(1024),
        "max_send_buf": c.max_send_buf.map(|v| (v as i64).min(0x7fff_ffff)).unwrap_or(409600),
        "enable_push": c.enable_push.unwrap_or(true),
        "data_frame_budget": c.data_frame_budget.map(|v| (v as i64).min(0x7fff_ffff)).unwrap_or(25600),
        "initial_max_send_streams": c.initial_max_send_streams.map(|v| (v as i64).min(0x7fff_ffff)).unwrap_or(100),
        "initial_stream_id": c.initial_stream_id.map(|v| v as i64).unwrap_or(1),
        "reset_dur_ms": c.reset_dur_ms.map(|v| (v as i64).min(0x7fff_ffff)).unwrap_or(30000),
    })
}

pub fn run(scn: &Scenario, record: bool) -> RunResult {
    let w: Shared = Arc::new(Mutex::new(World::new()));
    let mode = if scn.mode.is_empty() { "A" } else { scn.mode.as_str() };
    let real = match mode {
        "Bc" => [true, false],
        "Bs" => [false, true],
        _ => [true, true],
    };
    {
        let mut g = w.lock().unwrap();
        g.rec.enabled = record;
        g.inline_steps = scn.inline.clone();
        if let Ok(mut n) = CURRENT_RUN.lock() {
            *n = scn.name.clone();
        }
        g.real = real;
        for ep in 0..2 {
            g.dirs[ep].wmax = if scn.io.wmax[ep] == 0 { usize::MAX } else { scn.io.wmax[ep] };
            // reads by endpoint ep come from dir 1-ep
            g.dirs[1 - ep].rmax = if scn.io.rmax[ep] == 0 { usize::MAX } else { scn.io.rmax[ep] };
            g.dirs[ep].vectored = scn.io.vectored[ep];
        }
        // the reader-side frame splitters know the endpoint's own frame size limit (frames beyond it are reported at their header)
        g.dirs[1].in_dec.split.max_len = scn.ccfg.max_frame.unwrap_or(16384) as usize;
        g.dirs[0].in_dec.split.max_len = scn.scfg.max_frame.unwrap_or(16384) as usize;
        let ps = &scn.peer_cfg.settings;
        let pget = |k: u16, d: i64| ps.iter().rev().find(|(kk, _)| *kk == k).map(|(_, v)| (*v as i64).min(0x7fff_ffff)).unwrap_or(d);
        g.log(json!({"t": "cfg", "name": scn.name, "mode": mode, "real": {"c": real[0], "s": real[1]},
            "c": cfg_json(&scn.ccfg), "s": cfg_json(&scn.scfg),
            "peer": {"iws": pget(4, 65535), "maxc": pget(3, -1), "mfs": pget(5, 16384), "htz": pget(1, 4096), "push": pget(2, 1)},
            "coop": scn.coop,
            "seed": scn.sched.seed as i64 & 0x7fff_ffff}));
    }

    let mut reg = Registry::default();
    reg.reqs_total = scn.reqs.len();
    let mut slots: Vec<Slot> = vec![];
    let mut spawn: Vec<Box<dyn Task>> = vec![];
    if real[0] {
        spawn.push(Box::new(ClientConn::new(&w, &scn.ccfg)));
        for r in &scn.reqs {
            spawn.push(Box::new(ClientReq::new(r.clone())));
        }
    }
    if real[1] {
        spawn.push(Box::new(ServerConn::new(&w, &scn.scfg)));
    }
    let mut peer: Option<Peer> = if real[0] && real[1] { None } else { Some(Peer::new(if real[0] { 1 } else { 0 }, scn)) };
    if let Some(p) = peer.as_mut() {
        p.start(&mut w.lock().unwrap());
    }

    let mut rng = StdRng::seed_from_u64(scn.sched.seed);
    let max_steps = if scn.sched.max_steps == 0 { 200_000 } else { scn.sched.max_steps };
    let mut step: u64 = 0;
    let mut script_pc = 0usize;
    let mut env_done = vec![false; scn.env.len()];
    let mut panics = 0usize;
    let mut budget = false;
    let mut sr_dropped = false;
    let mut idle_rounds = 0;

    macro_rules! simctx {
        () => {
            SimCtx { w: &w, reg: &mut reg, spawn: &mut spawn, scn }
        };
    }

    loop {
        // adopt newly spawned tasks
        for t in spawn.drain(..) {
            slots.push(Slot { task: t, flag: Arc::new(WakeFlag { woken: AtomicBool::new(true), wakes: AtomicUsize::new(0) }), done: false, selfwakes: 0, polls: 0 });
        }
        step += 1;
        if step > max_steps {
            w.lock().unwrap().log(json!({"t": "budget", "kind": "steps", "task": "", "ep": ""}));
            budget = true;
            break;
        }
        w.lock().unwrap().step = step;

        // env steps triggered by step / event count
        let nev = w.lock().unwrap().rec.n_events as u64;
        for i in 0..scn.env.len() {
            if env_done[i] {
                continue;
            }
            let e = &scn.env[i];
            let fire = match e.at.as_str() {
                "step" => step >= e.n,
                "ev" => nev >= e.n,
                _ => false,
            };
            if fire {
                env_done[i] = true;
                do_env(&e.op, &w, &mut slots, &mut reg, &mut spawn, scn, &mut peer);
            }
        }
        for t in spawn.drain(..) {
            slots.push(Slot { task: t, flag: Arc::new(WakeFlag { woken: AtomicBool::new(true), wakes: AtomicUsize::new(0) }), done: false, selfwakes: 0, polls: 0 });
        }

        // handshake finished: wake tasks waiting for the request handle
        if reg.sr.is_some() || reg.sr_failed {
            for s in slots.iter() {
                if !s.done && s.task.waiting_q() == Some(0) {
                    s.flag.woken.store(true, Ordering::SeqCst);
                }
            }
        }
        if scn.drop_sr_when_done && !sr_dropped && reg.sr.is_some() && reg.reqs_issued >= reg.reqs_total
            && scn.inline.iter().any(|s| matches!(s.act, InlineAct::DropSr))
        {
            // C20: the last request handle is dropped by an inline step (inside a transport callback), not here
            sr_dropped = true;
            let srh = reg.sr.take();
            w.lock().unwrap().inline_sr = srh;
        }
        if scn.drop_sr_when_done && !sr_dropped && reg.sr.is_some() && reg.reqs_issued >= reg.reqs_total {
            sr_dropped = true;
            Api { w: &w, ep: 0, task: "env" }.ev("drop_sr", 0, 0, "ok", json!({}));
            let srh = reg.sr.take();
            if let Some(x) = srh.as_ref() {
                if let Ok(v) = serde_json::from_str::<serde_json::Value>(&catch_unwind(AssertUnwindSafe(|| x.verif_snapshot())).unwrap_or_default()) {
                    w.lock().unwrap().log(json!({"t": "stats", "ep": "c", "conn_done": false, "at": "drop_sr", "s": v}));
                }
            }
            w.lock().unwrap().inline_sr = None;
            guarded_drop(&w, "drop_sr", move || drop(srh));
        }

        let mut choices: Vec<Ch> = vec![];
        for (i, s) in slots.iter().enumerate() {
            if !s.done && s.flag.woken.load(Ordering::SeqCst) {
                choices.push(Ch::Poll(i));
            }
        }
        {
            let g = w.lock().unwrap();
            for d in 0..2 {
                if !g.dirs[d].inflight.is_empty() {
                    choices.push(Ch::Deliver(d));
                }
            }
        }
        if let Some(p) = peer.as_ref() {
            if p.enabled(false) {
                choices.push(Ch::Peer);
            }
        }

        if choices.is_empty() {
            // ---- quiescence ----
            reg.nq += 1;
            let nq = reg.nq;
            w.lock().unwrap().nq = nq;
            let mut outs = vec![];
            let mut conn = json!({"c": "none", "s": "none"});
            for s in slots.iter() {
                let st = if s.done { "done" } else { "pending" };
                if s.task.is_conn() {
                    conn[EP[s.task.ep()]] = json!(st);
                    continue;
                }
                if s.done {
                    continue;
                }
                if let Some(op) = s.task.outstanding() {
                    // (stream_id() locks the streams mutex: poisoned after a panic of the library => a panic here; that is data too)
                    let task = &s.task;
                    let sid = catch_unwind(AssertUnwindSafe(|| task.cur_sid())).unwrap_or(0);
                    outs.push(json!({"ep": EP[s.task.ep()], "task": s.task.name(), "op": op, "sid": sid as i64}));
                }
            }
            let (wb, inflight) = {
                let g = w.lock().unwrap();
                ([g.dirs[0].wbudget.is_some(), g.dirs[1].wbudget.is_some()], [g.dirs[0].inflight.len(), g.dirs[1].inflight.len()])
            };
            let _ = inflight;
            // census of the pure getters on all live handles, at every quiescence
            w.lock().unwrap().log(json!({"t": "census_begin"}));
            for s in slots.iter_mut() {
                if !s.done {
                    let mut sim = SimCtx { w: &w, reg: &mut reg, spawn: &mut spawn, scn };
                    let task = &mut s.task;
                    // (after a panic inside h2 its lock is poisoned: getters panic too - that is data, not a harness crash)
                    if catch_unwind(AssertUnwindSafe(|| task.census(&mut sim))).is_err() {
                        let msg = LAST_PANIC.with(|p| p.borrow().clone());
                        let (name, ep) = (s.task.name().to_string(), s.task.ep());
                        let mut g = match w.lock() { Ok(g) => g, Err(p) => p.into_inner() };
                        g.log(json!({"t": "panic", "ep": EP[ep], "task": name, "msg": msg}));
                        s.done = true;
                    }
                }
            }
            // ... and on the handles parked for inline use (C20)
            {
                let parked: Vec<((usize, u32), ParkedSend)> = { let mut g = w.lock().unwrap(); g.parked_send.drain().collect() };
                for ((ep, tag), p) in parked {
                    // (after a panic inside h2 its lock is poisoned and every getter panics: data, not a harness crash)
                    if let Ok((sid, c)) = catch_unwind(AssertUnwindSafe(|| (p.stream.stream_id().as_u32(), p.stream.capacity()))) {
                        Api { w: &w, ep, task: "inline" }.ev("capacity", sid, tag, "ok", json!({"v": c, "census": true}));
                    }
                    w.lock().unwrap().parked_send.insert((ep, tag), p);
                }
            }
            w.lock().unwrap().log(json!({"t": "census_end"}));
            // guarded statistics snapshot (hook H2) at quiescence
            for s in slots.iter() {
                if s.task.is_conn() {
                    let ep = s.task.ep();
                    let snap = catch_unwind(AssertUnwindSafe(|| if s.done { if ep == 0 { reg.sr.as_ref().map(|x| x.verif_snapshot()) } else { None } } else { s.task.stats() })).unwrap_or(None);
                    if let Some(js) = snap {
                        match serde_json::from_str::<serde_json::Value>(&js) {
                            Ok(mut v) => {
                                clamp_ints(&mut v);
                                w.lock().unwrap().log(json!({"t": "stats", "ep": EP[ep], "conn_done": s.done, "wblocked": wb[ep], "s": v}))
                            }
                            Err(e) => w.lock().unwrap().log(json!({"t": "stats_err", "ep": EP[ep], "err": e.to_string(), "raw": js})),
                        }
                    }
                }
            }
            w.lock().unwrap().log(json!({"t": "q", "n": nq, "out": outs, "conn": conn, "wblocked": {"c": wb[0], "s": wb[1]}, "sr_alive": reg.sr.is_some()}));
            // things that happen at quiescence
            let mut progressed = false;
            for s in slots.iter() {
                if !s.done {
                    if let Some(k) = s.task.waiting_q() {
                        if k != 0 && k <= nq {
                            s.flag.woken.store(true, Ordering::SeqCst);
                            progressed = true;
                        }
                    }
                }
            }
            if !scn.inline.is_empty() {
                let before = w.lock().unwrap().rec.n_events;
                let _ = catch_unwind(AssertUnwindSafe(|| run_inline_at_q(&w, nq)));
                if w.lock().unwrap().rec.n_events != before {
                    progressed = true;
                }
            }
            for i in 0..scn.env.len() {
                if !env_done[i] && scn.env[i].at == "q" && scn.env[i].n as usize <= nq {
                    env_done[i] = true;
                    do_env(&scn.env[i].op, &w, &mut slots, &mut reg, &mut spawn, scn, &mut peer);
                    progressed = true;
                    break; // one env op per quiescence
                }
            }
            if let Some(p) = peer.as_mut() {
                let mut g = w.lock().unwrap();
                if p.at_quiescence(&mut g) {
                    progressed = true;
                }
                if p.enabled(true) {
                    p.step(&mut g);
                    progressed = true;
                }
            }
            // tasks still waiting for a later quiescence keep the run going (bounded)
            if !progressed {
                let waiting_later = slots.iter().any(|s| !s.done && s.task.waiting_q().map(|k| k > nq).unwrap_or(false))
                    || scn.env.iter().enumerate().any(|(i, e)| !env_done[i] && e.at == "q")
                    || w.lock().unwrap().inline_steps.iter().any(|s| s.at == "q");
                if waiting_later && idle_rounds < 64 {
                    idle_rounds += 1;
                    continue;
                }
                let last_q = { let g = w.lock().unwrap(); g.rec.lines.iter().rev().find(|l| l.contains("\"t\":\"q\"")).cloned() };
                if let Some(lq) = last_q {
                    let mut v: serde_json::Value = serde_json::from_str(&lq).unwrap();
                    v["t"] = json!("qf");
                    w.lock().unwrap().log(v);
                }
                break;
            }
            idle_rounds = 0;
            continue;
        }

        // ---- pick a choice ----
        let mut pick: Option<Ch> = None;
        let mut deliver_n = 0usize;
        while script_pc < scn.sched.script.len() && pick.is_none() {
            let c = scn.sched.script[script_pc].clone();
            script_pc += 1;
            let want = match &c {
                Choice::Poll { task } => slots.iter().position(|s| s.task.name() == task).map(Ch::Poll),
                Choice::Deliver { dir, n } => {
                    deliver_n = *n;
                    Some(Ch::Deliver(*dir))
                }
                Choice::Peer => Some(Ch::Peer),
            };
            match want {
                Some(ch) if choices.contains(&ch) => pick = Some(ch),
                _ => {
                    w.lock().unwrap().log(json!({"t": "sched_diverge", "at": script_pc, "want": serde_json::to_value(&c).unwrap()}));
                }
            }
        }
        let ch = match pick {
            Some(c) => c,
            None => match scn.sched.then.as_str() {
                "fifo" => choices[0].clone(),
                "lifo" => choices[choices.len() - 1].clone(),
                // application tasks first (in task order), then byte deliveries and the peer, the connection tasks last:
                // several handle calls happen without the connection being polled in between, and received bytes are
                // already there when it finally runs
                "appfirst" => {
                    let rank = |c: &Ch| match c {
                        Ch::Poll(i) => if slots[*i].task.is_conn() { 3 } else { 0 },
                        Ch::Deliver(_) => 1,
                        Ch::Peer => 2,
                    };
                    choices.iter().min_by_key(|c| rank(c)).unwrap().clone()
                }
                _ => choices[rng.gen_range(0..choices.len())].clone(),
            },
        };

        match ch {
            Ch::Deliver(d) => {
                let mut g = w.lock().unwrap();
                let len = g.dirs[d].inflight.len();
                let n = if deliver_n > 0 {
                    deliver_n.min(len)
                } else {
                    match scn.io.deliver.as_str() {
                        "byte" => 1,
                        "rand" => {
                            if rng.gen_bool(0.3) {
                                len
                            } else {
                                rng.gen_range(1..=len)
                            }
                        }
                        "small" => rng.gen_range(1..=len.min(64)),
                        _ => len,
                    }
                };
                let bytes: Vec<u8> = g.dirs[d].inflight.drain(..n).collect();
                let reader = 1 - d;
                if g.real[reader] {
                    g.dirs[d].readable.extend(bytes);
                    if let Some(wk) = g.dirs[d].rwaker.take() {
                        drop(g);
                        wk.wake();
                    }
                } else if let Some(p) = peer.as_mut() {
                    p.consume(&mut g, &bytes);
                }
            }
            Ch::Peer => {
                if let Some(p) = peer.as_mut() {
                    let mut g = w.lock().unwrap();
                    p.step(&mut g);
                }
            }
            Ch::Poll(i) => {
                let flag = slots[i].flag.clone();
                flag.woken.store(false, Ordering::SeqCst);
                let waker = Waker::from(flag.clone());
                let mut cx = Context::from_waker(&waker);
                slots[i].polls += 1;
                let (ev_before, io_before) = {
                    let g = w.lock().unwrap();
                    (g.rec.n_events, g.dirs[0].total_w + g.dirs[1].total_w + g.dirs[0].total_r + g.dirs[1].total_r)
                };
                let r = {
                    let task = &mut slots[i].task;
                    let mut sim = SimCtx { w: &w, reg: &mut reg, spawn: &mut spawn, scn };
                    catch_unwind(AssertUnwindSafe(|| task.poll(&mut cx, &mut sim)))
                };
                // dense statistics (C18): a snapshot after every poll of a connection task, so that what the endpoint keeps
                // in the middle of a burst is seen too (the library's lock is free between polls)
                if scn.dense_stats && matches!(r, Ok(TP::Pending)) && slots[i].task.is_conn() {
                    let ep = slots[i].task.ep();
                    let task = &slots[i].task;
                    if let Some(js) = catch_unwind(AssertUnwindSafe(|| task.stats())).unwrap_or(None) {
                        if let Ok(mut v) = serde_json::from_str::<serde_json::Value>(&js) {
                            clamp_ints(&mut v);
                            let mut g = w.lock().unwrap();
                            let wbl = g.dirs[ep].wbudget.is_some();
                            // only the counters: the per-stream list is logged at quiescence
                            if let Some(o) = v.as_object_mut() {
                                let held: Vec<i64> = o.get("streams").and_then(|s| s.as_array()).map(|a| a.iter().filter_map(|x| x.get("id").and_then(|i| i.as_i64())).collect()).unwrap_or_default();
                                o.insert("streams".into(), json!(held));
                                o.insert("unlinked".into(), json!([]));
                            }
                            g.log(json!({"t": "stats", "ep": EP[ep], "conn_done": false, "dense": true, "wblocked": wbl, "s": v}));
                        }
                    }
                }
                match r {
                    Ok(TP::Done) => slots[i].done = true,
                    Ok(TP::Pending) => {
                        let io_after = {
                            let g = w.lock().unwrap();
                            g.dirs[0].total_w + g.dirs[1].total_w + g.dirs[0].total_r + g.dirs[1].total_r
                        };
                        let _ = ev_before;
                        if flag.woken.load(Ordering::SeqCst) && io_after == io_before {
                            slots[i].selfwakes += 1;
                            if slots[i].selfwakes > 500 {
                                let (name, ep) = (slots[i].task.name().to_string(), slots[i].task.ep());
                                w.lock().unwrap().log(json!({"t": "budget", "kind": "selfwake", "task": name, "ep": EP[ep]}));
                                budget = true;
                                slots[i].done = true;
                            }
                        } else {
                            slots[i].selfwakes = 0;
                        }
                    }
                    Err(_) => {
                        panics += 1;
                        let msg = LAST_PANIC.with(|p| p.borrow().clone());
                        let (name, ep) = (slots[i].task.name().to_string(), slots[i].task.ep());
                        // the world mutex may be poisoned if the panic happened inside a transport callback
                        let mut g = match w.lock() {
                            Ok(g) => g,
                            Err(p) => p.into_inner(),
                        };
                        // h2's Store::drop debug assertion (only compiled with feature `unstable`): a leak oracle, not a crash of the endpoint
                        if msg.contains("self.slab.is_empty()") {
                            g.log(json!({"t": "drop_panic", "at": name, "msg": msg}));
                        } else {
                            g.log(json!({"t": "panic", "ep": EP[ep], "task": name, "msg": msg}));
                        }
                        slots[i].done = true;
                    }
                }
            }
        }
    }

    // final census + end
    {
        let nq = reg.nq;
        w.lock().unwrap().log(json!({"t": "end", "steps": step as i64, "nq": nq, "panics": panics, "budget": budget}));
    }
    // drop handles in a defined order: application handles first, then the connections.
    // With the `unstable` feature h2's stream store asserts in Drop that no stream record
    // is left; that assertion (or any other panic while dropping) is recorded as data.
    // Every stage is guarded on its own: a panic while dropping one handle (e.g. a poisoned lock after an earlier panic
    // inside the library) must not leave the others to be dropped outside of any guard.
    let mut drop_failures = 0usize;
    let mut stage = |f: Box<dyn FnOnce() + '_>| {
        if catch_unwind(AssertUnwindSafe(f)).is_err() {
            drop_failures += 1;
            let msg = LAST_PANIC.with(|p| p.borrow().clone());
            let mut g = match w.lock() {
                Ok(g) => g,
                Err(p) => p.into_inner(),
            };
            g.log(json!({"t": "drop_panic", "at": "end", "msg": msg}));
        }
    };
    // parked handles (C20) are application handles too
    let (ps, pr, isr, ip) = {
        let mut g = match w.lock() { Ok(g) => g, Err(p) => p.into_inner() };
        (std::mem::take(&mut g.parked_send), std::mem::take(&mut g.parked_recv), g.inline_sr.take(), std::mem::take(&mut g.inline_ping))
    };
    for (_, p) in ps {
        stage(Box::new(move || drop(p)));
    }
    for (_, p) in pr {
        stage(Box::new(move || drop(p)));
    }
    stage(Box::new(move || drop(isr)));
    stage(Box::new(move || drop(ip)));
    for t in spawn.drain(..) {
        stage(Box::new(move || drop(t)));
    }
    let mut conns = vec![];
    for s in slots.drain(..) {
        if s.task.is_conn() {
            conns.push(s);
        } else {
            stage(Box::new(move || drop(s)));
        }
    }
    stage(Box::new(move || drop(reg)));
    for s in conns {
        stage(Box::new(move || drop(s)));
    }
    let r: Result<(), ()> = if drop_failures > 0 { Err(()) } else { Ok(()) };
    let g = match w.lock() {
        Ok(g) => g,
        Err(p) => p.into_inner(),
    };
    RunResult { lines: g.rec.lines.clone(), steps: step, nq: 0, panics: panics + r.is_err() as usize, budget, events: g.rec.n_events }
}

/// Run a closure that drops handles; a panic (e.g. h2's debug assertion that the stream
/// store is empty when it is dropped) is recorded as a `drop_panic` event.
pub fn guarded_drop<F: FnOnce()>(w: &Shared, at: &str, f: F) {
    let r = catch_unwind(AssertUnwindSafe(f));
    if r.is_err() {
        let msg = LAST_PANIC.with(|p| p.borrow().clone());
        let mut g = match w.lock() {
            Ok(g) => g,
            Err(p) => p.into_inner(),
        };
        g.log(json!({"t": "drop_panic", "at": at, "msg": msg}));
    }
}

fn do_env(op: &EnvOp, w: &Shared, slots: &mut Vec<Slot>, reg: &mut Registry, spawn: &mut Vec<Box<dyn Task>>, scn: &Scenario, _peer: &mut Option<Peer>) {
    match op {
        EnvOp::Budget { ep, n } => {
            let mut g = w.lock().unwrap();
            g.dirs[*ep].wbudget = *n;
            g.log(json!({"t": "env", "k": "budget", "ep": EP[*ep], "n": n.map(|x| x as i64).unwrap_or(-1)}));
            if n.map(|x| x > 0).unwrap_or(true) {
                if let Some(wk) = g.dirs[*ep].wwaker.take() {
                    drop(g);
                    wk.wake();
                }
            }
        }
        EnvOp::Wmax { ep, n } => {
            w.lock().unwrap().dirs[*ep].wmax = if *n == 0 { usize::MAX } else { *n };
        }
        EnvOp::Rmax { ep, n } => {
            w.lock().unwrap().dirs[1 - *ep].rmax = if *n == 0 { usize::MAX } else { *n };
        }
        EnvOp::FlushPending { ep, n } => {
            w.lock().unwrap().dirs[*ep].flush_pending = *n;
        }
        EnvOp::Fault { ep, kind } => {
            let mut g = w.lock().unwrap();
            let ep = *ep;
            g.log(json!({"t": "fault", "ep": EP[ep], "kind": kind}));
            let mut wakers = vec![];
            let ek = |s: &str| match s {
                "reset" => std::io::ErrorKind::ConnectionReset,
                "broken" => std::io::ErrorKind::BrokenPipe,
                "aborted" => std::io::ErrorKind::ConnectionAborted,
                "timeout" => std::io::ErrorKind::TimedOut,
                _ => std::io::ErrorKind::Other,
            };
            match kind.as_str() {
                "eof" => {
                    // everything in flight is still delivered, then EOF
                    g.dirs[1 - ep].eof = true;
                    wakers.extend(g.dirs[1 - ep].rwaker.take());
                }
                "eof_cut" => {
                    // lose what is in flight (possibly mid-frame), then EOF
                    let keep = g.dirs[1 - ep].inflight.len() / 2;
                    g.dirs[1 - ep].inflight.truncate(keep);
                    g.dirs[1 - ep].discard = true;
                    g.dirs[1 - ep].eof = true;
                    wakers.extend(g.dirs[1 - ep].rwaker.take());
                }
                k if k.starts_with("rerr") => {
                    g.dirs[1 - ep].rerr = Some(ek(k.split(':').nth(1).unwrap_or("")));
                    wakers.extend(g.dirs[1 - ep].rwaker.take());
                }
                k if k.starts_with("werr") => {
                    g.dirs[ep].werr = Some(ek(k.split(':').nth(1).unwrap_or("")));
                    wakers.extend(g.dirs[ep].wwaker.take());
                }
                "wzero" => {
                    g.dirs[ep].wzero = true;
                    wakers.extend(g.dirs[ep].wwaker.take());
                }
                _ => {}
            }
            drop(g);
            for wk in wakers {
                wk.wake();
            }
        }
        EnvOp::Time { ms } => {
            std::thread::sleep(std::time::Duration::from_millis(*ms));
            w.lock().unwrap().log(json!({"t": "time", "ms": *ms as i64}));
        }
        EnvOp::Conn { ep, op, n } => {
            for s in slots.iter_mut() {
                if s.task.is_conn() && s.task.ep() == *ep && !s.done {
                    let mut sim = SimCtx { w, reg, spawn, scn };
                    let task = &mut s.task;
                    let r = catch_unwind(AssertUnwindSafe(|| task.ctl(op, *n, &mut sim)));
                    if r.is_err() {
                        let msg = LAST_PANIC.with(|p| p.borrow().clone());
                        let mut g = match w.lock() { Ok(g) => g, Err(p) => p.into_inner() };
                        g.log(json!({"t": "drop_panic", "at": op, "msg": msg}));
                    }
                    if op == "drop" {
                        s.done = true;
                    } else {
                        // the application that called a connection method polls the connection afterwards
                        s.flag.woken.store(true, Ordering::SeqCst);
                    }
                }
            }
        }
        EnvOp::DropSr => {
            if let Some(srh) = reg.sr.take() {
                Api { w, ep: 0, task: "env" }.ev("drop_sr", 0, 0, "ok", json!({}));
                if let Ok(v) = serde_json::from_str::<serde_json::Value>(&catch_unwind(AssertUnwindSafe(|| srh.verif_snapshot())).unwrap_or_default()) {
                    w.lock().unwrap().log(json!({"t": "stats", "ep": "c", "conn_done": false, "at": "drop_sr", "s": v}));
                }
                w.lock().unwrap().inline_sr = None;
                guarded_drop(w, "drop_sr", move || drop(srh));
            }
        }
        EnvOp::Census => {
            w.lock().unwrap().log(json!({"t": "census_begin"}));
            for s in slots.iter_mut() {
                if !s.done {
                    let mut sim = SimCtx { w, reg, spawn, scn };
                    let task = &mut s.task;
                    let _ = catch_unwind(AssertUnwindSafe(|| task.census(&mut sim)));
                }
            }
            w.lock().unwrap().log(json!({"t": "census_end"}));
        }
        EnvOp::Ping { ep } => {
            for s in slots.iter_mut() {
                if s.task.is_conn() && s.task.ep() == *ep && !s.done {
                    let mut sim = SimCtx { w, reg, spawn, scn };
                    let fresh = sim.reg.ping[*ep].is_none();
                    s.task.ctl("ping_handle", 0, &mut sim);
                    if fresh {
                        // Connection::ping_pong() is a method of the connection: its owner polls the connection afterwards
                        // (that poll is what registers the connection's waker with the new handle)
                        s.flag.woken.store(true, Ordering::SeqCst);
                    }
                }
            }
            if let Some(pp) = reg.ping[*ep].take() {
                spawn.push(Box::new(PingTask { name: format!("ping_{}", EP[*ep]), ep: *ep, pp: Some(pp), sent: false, blocked: None }));
            }
        }
    }
}
