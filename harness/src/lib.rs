pub mod huff_table;
pub mod wire;
pub mod world;
pub mod scenario;
pub mod tasks;
pub mod peer;
pub mod run;
pub mod gen;
