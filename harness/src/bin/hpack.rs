//! HPACK conformance driver for properties C10 (encoder/decoder sync) and C11 (decoder vs RFC 7541,
//! however split).  Drives the REAL h2 `Encoder` / `Decoder` / Huffman coder through the add-only
//! re-exports in `h2::verif::hpack` and records ndjson that is decided by TLC
//! (/verif/spec/trace/Trace_Hpack.tla, using the operators of Hpack.tla and Huffman.tla).
//!
//! Nothing in here decides a verdict.  The only interpretation done on this side is
//!   * bytes -> instruction list with an independent RFC 7541 parser (partial: the instructions
//!     before the first malformed one, then an `err` marker),
//!   * instruction JSON -> bytes (case construction),
//!   * feeding h2's decoder whole / in pieces exactly like `framed_read.rs` does with `Partial.buf`,
//!   * reading the dynamic table of h2's decoder back through its public behaviour (Indexed 62.. probes).
//!
//! Modes (all files are ndjson, one JSON object per line):
//!   hpack dec   <cases> <out>          decoder cases  (C11)
//!   hpack enc   <histories> <out>      encoder histories (C10)
//!   hpack huff  <maxlen> <extra|-> <out>   h2 huffman_decode on ALL byte strings of length <= maxlen (+ extra cases)
//!   hpack huffx <table.json> <len> <out.json> [threads]  exhaustive length-<len> strings decided by the TLC-emitted trie
//!   hpack henc  <cases> <out>          h2 huffman_encode
//!   hpack int   <cases> <out>          prefix-integer cases through the real decoder
//!   hpack names <per_class> <out.json> real header names per hash class (hash read from h2 itself)

use bytes::{Bytes, BytesMut};
use h2::verif::hpack::{huffman_decode, huffman_encode, BytesStr, Decoder, DecoderError, Encoder, Header};
use http::header::{HeaderName, HeaderValue};
use serde_json::{json, Map, Value};
use std::collections::BTreeMap;
use std::io::{BufRead, BufReader, BufWriter, Cursor, Write};
use std::ops::ControlFlow;
use std::panic::{catch_unwind, AssertUnwindSafe};

type Fld = (Vec<u8>, Vec<u8>);

/// Integers at or above this value are reported as `intbig` (every use of such a value is an
/// RFC 7541 error under the limits used by the harness: tables, blocks and limits are < 2^28).
const BIG: u64 = 1 << 28;

// ---------------------------------------------------------------------------
// injective printable encoding of byte strings (names / values) for JSON + TLA+ strings
// ---------------------------------------------------------------------------
fn esc(b: &[u8]) -> String {
    let mut s = String::new();
    for &c in b {
        if (0x20..0x7f).contains(&c) && c != b'%' && c != b'"' && c != b'\\' {
            s.push(c as char);
        } else {
            s.push_str(&format!("%{:02x}", c));
        }
    }
    s
}
fn unesc(s: &str) -> Vec<u8> {
    let b = s.as_bytes();
    let mut out = vec![];
    let mut i = 0;
    while i < b.len() {
        if b[i] == b'%' && i + 3 <= b.len() {
            let h = std::str::from_utf8(&b[i + 1..i + 3]).unwrap();
            out.push(u8::from_str_radix(h, 16).expect("bad escape"));
            i += 3;
        } else {
            out.push(b[i]);
            i += 1;
        }
    }
    out
}
fn unhex(s: &str) -> Vec<u8> {
    let s: String = s.chars().filter(|c| !c.is_whitespace()).collect();
    (0..s.len() / 2).map(|i| u8::from_str_radix(&s[2 * i..2 * i + 2], 16).expect("hex")).collect()
}
fn fj(f: &Fld) -> Value {
    json!({"n": esc(&f.0), "nl": f.0.len(), "v": esc(&f.1), "vl": f.1.len()})
}
fn bytes_json(b: &[u8]) -> Value {
    Value::Array(b.iter().map(|x| json!(*x)).collect())
}

// ---------------------------------------------------------------------------
// independent RFC 7541 parser (partial)
// ---------------------------------------------------------------------------
#[derive(Debug, Clone, Copy, PartialEq)]
enum PErr {
    Trunc,
    Huff,
    IntBig,
}
impl PErr {
    fn s(self) -> &'static str {
        match self {
            PErr::Trunc => "trunc",
            PErr::Huff => "huff",
            PErr::IntBig => "intbig",
        }
    }
}

/// RFC 7541 5.1, exact for values < 2^28; larger values (of any octet length) -> IntBig.
fn p_int(buf: &[u8], prefix: u8) -> Result<(u64, usize), PErr> {
    if buf.is_empty() {
        return Err(PErr::Trunc);
    }
    let mask = ((1u16 << prefix) - 1) as u64;
    let mut v = (buf[0] as u64) & mask;
    if v < mask {
        return Ok((v, 1));
    }
    let mut m: u32 = 0;
    let mut pos = 1;
    let mut big = false;
    loop {
        if pos >= buf.len() {
            return Err(PErr::Trunc);
        }
        let b = buf[pos];
        pos += 1;
        let part = (b & 0x7f) as u64;
        if part != 0 {
            if m >= 28 {
                big = true;
            } else {
                v += part << m;
                if v >= BIG {
                    big = true;
                }
            }
        }
        m = m.saturating_add(7);
        if b & 0x80 == 0 {
            return if big { Err(PErr::IntBig) } else { Ok((v, pos)) };
        }
    }
}

fn p_string(buf: &[u8]) -> Result<(Vec<u8>, usize), PErr> {
    if buf.is_empty() {
        return Err(PErr::Trunc);
    }
    let huff = buf[0] & 0x80 != 0;
    let (len, n) = p_int(buf, 7)?;
    let len = len as usize;
    if buf.len() - n < len {
        return Err(PErr::Trunc);
    }
    let raw = &buf[n..n + len];
    let s = if huff { h2sim::wire::huff_decode(raw).map_err(|_| PErr::Huff)? } else { raw.to_vec() };
    Ok((s, n + len))
}

fn ij(k: &str, i: u64, n: &[u8], v: &[u8], e: &str) -> Value {
    json!({"k": k, "i": i, "n": esc(n), "nl": n.len(), "v": esc(v), "vl": v.len(), "e": e})
}

/// bytes -> (instructions, offsets at which an instruction ends).  The list ends with an
/// `err` marker if the block is malformed at the encoding level.
fn parse_partial(mut buf: &[u8]) -> (Vec<Value>, Vec<usize>) {
    let total = buf.len();
    let mut out = vec![];
    let mut ends = vec![];
    while !buf.is_empty() {
        let b = buf[0];
        let r: Result<(Value, usize), PErr> = (|| {
            if b & 0x80 != 0 {
                let (i, n) = p_int(buf, 7)?;
                Ok((ij("idx", i, b"", b"", ""), n))
            } else if b & 0xe0 == 0x20 {
                let (i, n) = p_int(buf, 5)?;
                Ok((ij("size", i, b"", b"", ""), n))
            } else {
                let (prefix, kind) = if b & 0xc0 == 0x40 {
                    (6, "incr")
                } else if b & 0xf0 == 0x10 {
                    (4, "never")
                } else {
                    (4, "noidx")
                };
                let (i, mut n) = p_int(buf, prefix)?;
                let mut name = vec![];
                if i == 0 {
                    let (s, k) = p_string(&buf[n..])?;
                    name = s;
                    n += k;
                }
                let (value, k) = p_string(&buf[n..])?;
                n += k;
                Ok((ij(kind, i, &name, &value, ""), n))
            }
        })();
        match r {
            Ok((v, n)) => {
                out.push(v);
                buf = &buf[n..];
                ends.push(total - buf.len());
            }
            Err(e) => {
                out.push(ij("err", 0, b"", b"", e.s()));
                break;
            }
        }
    }
    (out, ends)
}

// ---------------------------------------------------------------------------
// instruction JSON -> bytes (case construction; knobs for every representation choice)
// ---------------------------------------------------------------------------
fn e_int(out: &mut Vec<u8>, first: u8, prefix: u8, v: u64, pad: u64) {
    let mask = ((1u16 << prefix) - 1) as u64;
    if v < mask {
        out.push(first | v as u8);
        return;
    }
    out.push(first | mask as u8);
    let mut v = v - mask;
    while v >= 128 {
        out.push((v % 128) as u8 | 0x80);
        v /= 128;
    }
    out.push(v as u8);
    // non-minimal form: zero-valued continuation octets
    for _ in 0..pad {
        let l = out.len() - 1;
        out[l] |= 0x80;
        out.push(0);
    }
}
fn e_str(out: &mut Vec<u8>, s: &[u8], huff: bool, pad: u64) {
    if huff {
        let h = h2sim::wire::huff_encode(s);
        e_int(out, 0x80, 7, h.len() as u64, pad);
        out.extend_from_slice(&h);
    } else {
        e_int(out, 0, 7, s.len() as u64, pad);
        out.extend_from_slice(s);
    }
}
fn gu(v: &Value, k: &str) -> u64 {
    v.get(k).and_then(|x| x.as_u64()).unwrap_or(0)
}
fn gb(v: &Value, k: &str) -> bool {
    match v.get(k) {
        Some(Value::Bool(b)) => *b,
        Some(x) => x.as_u64().unwrap_or(0) != 0,
        None => false,
    }
}
fn gs<'a>(v: &'a Value, k: &str) -> &'a str {
    v.get(k).and_then(|x| x.as_str()).unwrap_or("")
}
fn enc_ins(out: &mut Vec<u8>, ins: &Value) {
    let k = gs(ins, "k");
    let i = gu(ins, "i");
    let ip = gu(ins, "ip");
    match k {
        "raw" => out.extend_from_slice(&unhex(gs(ins, "hex"))),
        "idx" => e_int(out, 0x80, 7, i, ip),
        "size" => e_int(out, 0x20, 5, i, ip),
        "incr" | "noidx" | "never" => {
            let (first, prefix) = match k {
                "incr" => (0x40, 6),
                "never" => (0x10, 4),
                _ => (0x00, 4),
            };
            e_int(out, first, prefix, i, ip);
            if i == 0 {
                e_str(out, &unesc(gs(ins, "n")), gb(ins, "hn"), gu(ins, "sp"));
            }
            e_str(out, &unesc(gs(ins, "v")), gb(ins, "hv"), gu(ins, "sp"));
        }
        other => panic!("unknown instruction kind {:?}", other),
    }
}
fn enc_block(ins: &Value) -> Vec<u8> {
    let mut out = vec![];
    if let Some(a) = ins.as_array() {
        for i in a {
            enc_ins(&mut out, i);
        }
    }
    out
}

// ---------------------------------------------------------------------------
// driving h2's decoder
// ---------------------------------------------------------------------------
fn hdr_pair(h: &Header) -> Fld {
    (h.name().as_slice().to_vec(), h.value_slice().to_vec())
}

#[derive(Clone, Debug, PartialEq)]
struct Outcome {
    ok: bool,
    err: String,
    fields: Vec<Fld>,
    dynt: Vec<Fld>,
}
impl Outcome {
    fn json(&self) -> Value {
        json!({"ok": self.ok, "err": self.err,
               "f": self.fields.iter().map(fj).collect::<Vec<_>>(),
               "dyn": self.dynt.iter().map(fj).collect::<Vec<_>>()})
    }
}

/// Feed one header block to h2's decoder in the given pieces, resuming after each NeedMore exactly as
/// codec/framed_read.rs does: HEADERS payload -> decode; on NeedMore with more frames to come keep the
/// undecoded tail (`Partial.buf`); next CONTINUATION: replace if the tail is empty, else append; decode
/// again; a NeedMore on the last piece (END_HEADERS) and any other error are failures.
fn h2_feed(dec: &mut Decoder, pieces: &[&[u8]], fields: &mut Vec<Fld>) -> Result<(), String> {
    let r = catch_unwind(AssertUnwindSafe(|| {
        let mut buf = BytesMut::new();
        for (k, p) in pieces.iter().enumerate() {
            let last = k + 1 == pieces.len();
            if buf.is_empty() {
                buf = BytesMut::from(*p);
            } else {
                buf.extend_from_slice(p);
            }
            let res = {
                let mut cur = Cursor::new(&mut buf);
                dec.decode(&mut cur, |h| {
                    fields.push(hdr_pair(&h));
                    ControlFlow::Continue(())
                })
            };
            match res {
                Ok(()) => {}
                Err(DecoderError::NeedMore(_)) if !last => {}
                Err(e) => return Err(format!("{:?}", e)),
            }
        }
        Ok(())
    }));
    match r {
        Ok(x) => x,
        Err(_) => Err("PANIC".to_string()),
    }
}

/// Read h2's dynamic table back through public behaviour: Indexed(62), Indexed(63), ... until refused.
fn probe(dec: &mut Decoder, cap: usize) -> Vec<Fld> {
    let mut out = vec![];
    for i in 0..cap {
        let mut b = vec![];
        e_int(&mut b, 0x80, 7, 62 + i as u64, 0);
        let mut f = vec![];
        match h2_feed(dec, &[&b[..]], &mut f) {
            Ok(()) if f.len() == 1 => out.push(f.pop().unwrap()),
            _ => break,
        }
    }
    out
}

fn split_pieces<'a>(b: &'a [u8], cuts: &[usize]) -> Vec<&'a [u8]> {
    let mut v = vec![];
    let mut p = 0;
    for &c in cuts {
        v.push(&b[p..c]);
        p = c;
    }
    v.push(&b[p..]);
    v
}

enum PreStep {
    Set(usize),
    Blk(Vec<u8>),
}

fn run_dec(limit: usize, pre: &[PreStep], set: Option<usize>, block: &[u8], cuts: &[usize]) -> Outcome {
    let mut dec = Decoder::new(limit);
    for s in pre {
        match s {
            PreStep::Set(n) => dec.queue_size_update(*n),
            PreStep::Blk(b) => {
                let mut f = vec![];
                if let Err(e) = h2_feed(&mut dec, &[&b[..]], &mut f) {
                    return Outcome { ok: false, err: format!("PRE:{}", e), fields: vec![], dynt: vec![] };
                }
            }
        }
    }
    if let Some(n) = set {
        dec.queue_size_update(n);
    }
    let pieces = split_pieces(block, cuts);
    let mut fields = vec![];
    match h2_feed(&mut dec, &pieces, &mut fields) {
        Ok(()) => {
            let dynt = probe(&mut dec, 400);
            Outcome { ok: true, err: String::new(), fields, dynt }
        }
        Err(e) => Outcome { ok: false, err: e, fields: vec![], dynt: vec![] },
    }
}

/// all split configurations tried for a block of length n
fn split_configs(n: usize) -> Vec<Vec<usize>> {
    let mut v = vec![];
    for k in 1..n {
        v.push(vec![k]);
    }
    if n > 2 {
        v.push((1..n).collect()); // 1-byte pieces
    }
    if n <= 14 {
        for a in 1..n {
            for b in a + 1..n {
                v.push(vec![a, b]);
            }
        }
    }
    v
}

fn lines(path: &str) -> Vec<Value> {
    let f = BufReader::new(std::fs::File::open(path).unwrap_or_else(|e| panic!("open {}: {}", path, e)));
    f.lines()
        .map(|l| l.unwrap())
        .filter(|l| !l.trim().is_empty())
        .map(|l| serde_json::from_str(&l).unwrap_or_else(|e| panic!("bad json line {}: {}", l, e)))
        .collect()
}
fn writer(path: &str) -> BufWriter<std::fs::File> {
    BufWriter::new(std::fs::File::create(path).unwrap_or_else(|e| panic!("create {}: {}", path, e)))
}

fn mode_dec(inp: &str, outp: &str) {
    let mut w = writer(outp);
    for c in lines(inp) {
        let limit = c.get("limit").and_then(|x| x.as_u64()).unwrap_or(4096) as usize;
        let mut pre = vec![];
        let mut pre_json = vec![];
        if let Some(a) = c.get("pre").and_then(|x| x.as_array()) {
            for s in a {
                if let Some(n) = s.get("set").and_then(|x| x.as_i64()).filter(|n| *n >= 0) {
                    pre.push(PreStep::Set(n as usize));
                    pre_json.push(json!({"set": n, "ins": []}));
                } else {
                    let b = match s.get("hex") {
                        Some(h) => unhex(h.as_str().unwrap()),
                        None => enc_block(&s["ins"]),
                    };
                    pre_json.push(json!({"set": -1, "ins": parse_partial(&b).0}));
                    pre.push(PreStep::Blk(b));
                }
            }
        }
        let set = c.get("set").and_then(|x| x.as_i64()).filter(|n| *n >= 0).map(|n| n as usize);
        let block = match c.get("hex") {
            Some(h) => unhex(h.as_str().unwrap()),
            None => enc_block(&c["ins"]),
        };
        let (ins, _) = parse_partial(&block);
        let whole = run_dec(limit, &pre, set, &block, &[]);
        let mut groups: Vec<(Outcome, usize, Vec<usize>)> = vec![];
        let mut nsplit = 0;
        if !gb(&c, "nosplit") {
            for cuts in split_configs(block.len()) {
                let o = run_dec(limit, &pre, set, &block, &cuts);
                nsplit += 1;
                match groups.iter_mut().find(|g| g.0 == o) {
                    Some(g) => g.1 += 1,
                    None => groups.push((o, 1, cuts)),
                }
            }
        }
        let line = json!({
            "t": "dec", "id": c.get("id").cloned().unwrap_or(Value::Null), "limit": limit,
            "pre": pre_json, "set": set.map(|n| n as i64).unwrap_or(-1),
            "ins": ins, "len": block.len(), "hex": block.iter().map(|b| format!("{:02x}", b)).collect::<String>(),
            "whole": whole.json(), "nsplit": nsplit,
            "splits": groups.iter().map(|(o, c, ex)| json!({"o": o.json(), "c": c, "ex": ex})).collect::<Vec<_>>(),
        });
        writeln!(w, "{}", line).unwrap();
    }
    w.flush().unwrap();
}

// ---------------------------------------------------------------------------
// driving h2's encoder
// ---------------------------------------------------------------------------
fn mk_header(name: &[u8], value: &[u8], sensitive: bool, omit_name: bool) -> Result<Header<Option<HeaderName>>, String> {
    let bs = |v: &[u8]| BytesStr::try_from(Bytes::copy_from_slice(v)).map_err(|e| format!("{:?}", e));
    if !name.is_empty() && name[0] == b':' {
        return Ok(match name {
            b":authority" => Header::Authority(bs(value)?),
            b":method" => Header::Method(http::Method::from_bytes(value).map_err(|e| format!("{:?}", e))?),
            b":scheme" => Header::Scheme(bs(value)?),
            b":path" => Header::Path(bs(value)?),
            b":protocol" => Header::Protocol(h2::ext::Protocol::from(std::str::from_utf8(value).map_err(|e| format!("{:?}", e))?)),
            b":status" => Header::Status(http::StatusCode::from_bytes(value).map_err(|e| format!("{:?}", e))?),
            _ => return Err("unknown pseudo header".into()),
        });
    }
    let mut v = HeaderValue::from_bytes(value).map_err(|e| format!("{:?}", e))?;
    v.set_sensitive(sensitive);
    let n = if omit_name { None } else { Some(HeaderName::from_bytes(name).map_err(|e| format!("{:?}", e))?) };
    Ok(Header::Field { name: n, value: v })
}

struct Lcg(u64);
impl Lcg {
    fn next(&mut self) -> u64 {
        self.0 = self.0.wrapping_mul(6364136223846793005).wrapping_add(1442695040888963407);
        self.0 >> 33
    }
}

fn mode_enc(inp: &str, outp: &str) {
    let mut w = writer(outp);
    for c in lines(inp) {
        let init = c.get("init").and_then(|x| x.as_u64()).unwrap_or(4096) as usize;
        let cap = c.get("cap").and_then(|x| x.as_u64()).unwrap_or(0) as usize;
        let allsplit = c.get("allsplit").and_then(|x| x.as_u64()).unwrap_or(64) as usize;
        let mut rng = Lcg(c.get("seed").and_then(|x| x.as_u64()).unwrap_or(1));
        let mut enc = Encoder::new(init, cap);
        // three persistent h2 decoders (the peer's): whole blocks, 1-byte pieces, random pieces
        let mut d_whole = Decoder::new(init);
        let mut d_one = Decoder::new(init);
        let mut d_rnd = Decoder::new(init);
        let mut alive = [true, true, true];
        // history of (set | block bytes) for the every-offset replays
        let mut hist: Vec<PreStep> = vec![];
        let mut steps_out = vec![];
        let mut dead = false;
        for s in c["steps"].as_array().expect("steps") {
            if dead {
                break;
            }
            if let Some(n) = s.get("set").and_then(|x| x.as_u64()) {
                let n = n as usize;
                enc.update_max_size(n);
                d_whole.queue_size_update(n);
                d_one.queue_size_update(n);
                d_rnd.queue_size_update(n);
                hist.push(PreStep::Set(n));
                steps_out.push(json!({"set": n as i64, "sub": [], "ins": [], "len": 0, "encerr": "", "outs": []}));
                continue;
            }
            // a header block
            let mut sub = vec![]; // submitted (name, value, sensitive) with repeated names resolved
            let mut hdrs = vec![];
            let mut last_name: Vec<u8> = vec![];
            let mut bad = String::new();
            for f in s["blk"].as_array().expect("blk") {
                let mut name = unesc(gs(f, "n"));
                let value = unesc(gs(f, "v"));
                let sens = gb(f, "s");
                let mut omit = gb(f, "r");
                if omit && (last_name.is_empty() || last_name[0] == b':') {
                    omit = false;
                }
                if omit {
                    name = last_name.clone();
                }
                match mk_header(&name, &value, sens, omit) {
                    Ok(h) => {
                        hdrs.push(h);
                        sub.push(json!({"n": esc(&name), "nl": name.len(), "v": esc(&value), "vl": value.len(), "s": sens}));
                        last_name = name;
                    }
                    Err(e) => {
                        bad = format!("{}: {}", esc(&name), e);
                    }
                }
            }
            let _ = bad; // fields the http crate refuses are simply not submitted
            let mut dst = BytesMut::new();
            let r = catch_unwind(AssertUnwindSafe(|| enc.encode(hdrs, &mut dst)));
            if r.is_err() {
                steps_out.push(json!({"set": -1, "sub": sub, "ins": [], "len": 0, "encerr": "PANIC", "outs": []}));
                dead = true;
                continue;
            }
            let block = dst.to_vec();
            let (ins, _ends) = parse_partial(&block);
            let mut outs: Vec<(String, Outcome, usize)> = vec![];
            let add = |kind: &str, o: Outcome, outs: &mut Vec<(String, Outcome, usize)>| {
                match outs.iter_mut().find(|g| g.1 == o) {
                    Some(g) => g.2 += 1,
                    None => outs.push((kind.to_string(), o, 1)),
                }
            };
            // persistent decoders
            let n = block.len();
            let one_cuts: Vec<usize> = (1..n).collect();
            let mut rnd_cuts: Vec<usize> = vec![];
            if n > 1 {
                let k = 1 + (rng.next() as usize) % 3;
                for _ in 0..k {
                    rnd_cuts.push(1 + (rng.next() as usize) % (n - 1));
                }
                rnd_cuts.sort();
                rnd_cuts.dedup();
            }
            let cfgs: [(&str, &mut Decoder, Vec<usize>); 3] =
                [("whole", &mut d_whole, vec![]), ("bytes1", &mut d_one, one_cuts), ("random", &mut d_rnd, rnd_cuts)];
            for (j, (kind, d, cuts)) in cfgs.into_iter().enumerate() {
                if !alive[j] {
                    continue;
                }
                let mut fields = vec![];
                let pieces = split_pieces(&block, &cuts);
                let o = match h2_feed(d, &pieces, &mut fields) {
                    Ok(()) => Outcome { ok: true, err: String::new(), fields, dynt: probe(d, 400) },
                    Err(e) => {
                        alive[j] = false;
                        Outcome { ok: false, err: e, fields: vec![], dynt: vec![] }
                    }
                };
                add(kind, o, &mut outs);
            }
            // every single split offset (sampled above `allsplit` bytes), on a fresh decoder that replays the history
            if n > 1 {
                let offs: Vec<usize> = if n - 1 <= allsplit {
                    (1..n).collect()
                } else {
                    let mut v: Vec<usize> = (0..allsplit).map(|_| 1 + (rng.next() as usize) % (n - 1)).collect();
                    v.sort();
                    v.dedup();
                    v
                };
                for k in offs {
                    let o = run_dec(init, &hist, None, &block, &[k]);
                    add("offset", o, &mut outs);
                }
            }
            hist.push(PreStep::Blk(block.clone()));
            steps_out.push(json!({
                "set": -1, "sub": sub, "ins": ins, "len": n, "encerr": "",
                "hex": if n <= 256 { block.iter().map(|b| format!("{:02x}", b)).collect::<String>() } else { String::new() },
                "outs": outs.iter().map(|(k, o, c)| json!({"kind": k, "o": o.json(), "c": c})).collect::<Vec<_>>(),
            }));
        }
        let line = json!({"t": "enc", "id": c.get("id").cloned().unwrap_or(Value::Null), "init": init, "steps": steps_out});
        writeln!(w, "{}", line).unwrap();
    }
    w.flush().unwrap();
}

// ---------------------------------------------------------------------------
// Huffman
// ---------------------------------------------------------------------------
fn h2_huff(b: &[u8]) -> Value {
    let r = catch_unwind(AssertUnwindSafe(|| huffman_decode(b)));
    match r {
        Ok(Ok(o)) => json!({"t": "huff", "b": bytes_json(b), "ok": true, "o": bytes_json(&o)}),
        Ok(Err(_)) => json!({"t": "huff", "b": bytes_json(b), "ok": false, "o": []}),
        Err(_) => json!({"t": "huff", "b": bytes_json(b), "ok": false, "o": [], "panic": true}),
    }
}
fn arr_bytes(v: &Value) -> Vec<u8> {
    v.as_array().map(|a| a.iter().map(|x| x.as_u64().unwrap() as u8).collect()).unwrap_or_default()
}
fn mode_huff(maxlen: usize, extra: &str, outp: &str) {
    let mut w = writer(outp);
    let mut cur: Vec<Vec<u8>> = vec![vec![]];
    for l in 0..=maxlen {
        if l > 0 {
            let mut nxt = Vec::with_capacity(cur.len() * 256);
            for c in &cur {
                for b in 0..=255u8 {
                    let mut d = c.clone();
                    d.push(b);
                    nxt.push(d);
                }
            }
            cur = nxt;
        }
        for c in &cur {
            writeln!(w, "{}", h2_huff(c)).unwrap();
        }
    }
    if extra != "-" {
        for c in lines(extra) {
            writeln!(w, "{}", h2_huff(&arr_bytes(&c["b"]))).unwrap();
        }
    }
    w.flush().unwrap();
}

/// Exhaustive strings of a given length decided by the trie TLC emitted from Huffman.tla
/// (table.json: {"trie":[{"k":node key,"b":bit,"leaf":bool,"to":node key | symbol}], "padok":[node keys], "root":1}).
/// node key = 2^len + value of the bit prefix.
fn mode_huffx(table: &str, len: usize, outp: &str, threads: usize) {
    let t: Value = serde_json::from_str(&std::fs::read_to_string(table).unwrap()).unwrap();
    let mut trie: std::collections::HashMap<(u64, u8), (bool, u64)> = Default::default();
    for e in t["trie"].as_array().unwrap() {
        trie.insert((e["k"].as_u64().unwrap(), e["b"].as_u64().unwrap() as u8), (e["leaf"].as_bool().unwrap(), e["to"].as_u64().unwrap()));
    }
    let padok: std::collections::HashSet<u64> = t["padok"].as_array().unwrap().iter().map(|x| x.as_u64().unwrap()).collect();
    let root = t["root"].as_u64().unwrap();
    // compact: node key -> dense id
    let mut ids: std::collections::HashMap<u64, usize> = Default::default();
    for (k, _) in trie.keys() {
        let n = ids.len();
        ids.entry(*k).or_insert(n);
    }
    // per (node, byte): (next node | ERR, symbols emitted)
    const ERR: usize = usize::MAX;
    let nn = ids.len();
    let mut keys = vec![0u64; nn];
    for (k, i) in &ids {
        keys[*i] = *k;
    }
    let mut step: Vec<(usize, Vec<u8>)> = vec![(ERR, vec![]); nn * 256];
    for i in 0..nn {
        for byte in 0..256usize {
            let mut k = keys[i];
            let mut outv = vec![];
            let mut bad = false;
            for bit in (0..8).rev() {
                let b = ((byte >> bit) & 1) as u8;
                let (leaf, to) = *trie.get(&(k, b)).expect("incomplete trie");
                if leaf {
                    if to == 256 {
                        bad = true;
                        break;
                    }
                    outv.push(to as u8);
                    k = root;
                } else {
                    k = to;
                }
            }
            step[i * 256 + byte] = if bad { (ERR, vec![]) } else { (ids[&k], outv) };
        }
    }
    let oracle = |s: &[u8]| -> Option<Vec<u8>> {
        let mut n = ids[&root];
        let mut o = vec![];
        for &b in s {
            let (nx, ref e) = step[n * 256 + b as usize];
            if nx == ERR {
                return None;
            }
            o.extend_from_slice(e);
            n = nx;
        }
        if padok.contains(&keys[n]) {
            Some(o)
        } else {
            None
        }
    };
    // the space is cut by the first octet over `threads` scoped threads (h2's decoder and the oracle are pure)
    let total: u64 = 256u64.pow(len as u32);
    let per_first: u64 = if len == 0 { 1 } else { total / 256 };
    let firsts: Vec<u64> = if len == 0 { vec![0] } else { (0..256).collect() };
    let chunks: Vec<Vec<u64>> = (0..threads).map(|t| firsts.iter().cloned().filter(|f| (*f as usize) % threads == t).collect()).collect();
    let oracle = &oracle;
    let results: Vec<(u64, u64, u64, Vec<Value>)> = std::thread::scope(|sc| {
        let hs: Vec<_> = chunks
            .iter()
            .map(|fs| {
                sc.spawn(move || {
                    let mut s = vec![0u8; len];
                    let (mut n, mut acc, mut rej_valid, mut mism) = (0u64, 0u64, 0u64, vec![]);
                    for f in fs {
                        for x in (f * per_first)..((f + 1) * per_first) {
                            let mut y = x;
                            for j in (0..len).rev() {
                                s[j] = (y & 0xff) as u8;
                                y >>= 8;
                            }
                            let exp = oracle(&s);
                            let got = huffman_decode(&s).ok().map(|b| b.to_vec());
                            n += 1;
                            match (&exp, &got) {
                                (Some(e), Some(g)) if e == g => acc += 1,
                                (None, None) => {}
                                (Some(_), None) => rej_valid += 1,
                                _ => {
                                    if mism.len() < 20 {
                                        mism.push(json!({"b": bytes_json(&s), "exp_ok": exp.is_some(), "exp": exp.as_ref().map(|e| bytes_json(e)),
                                                         "got_ok": got.is_some(), "got": got.as_ref().map(|e| bytes_json(e))}));
                                    }
                                }
                            }
                        }
                    }
                    (n, acc, rej_valid, mism)
                })
            })
            .collect();
        hs.into_iter().map(|h| h.join().expect("huffx worker")).collect()
    });
    let (mut n, mut acc, mut rej_valid, mut mism) = (0u64, 0u64, 0u64, vec![]);
    for (a, b, c, d) in results {
        n += a;
        acc += b;
        rej_valid += c;
        mism.extend(d);
    }
    mism.truncate(20);
    let r = json!({"len": len, "n": n, "accepted_equal": acc, "h2_rejects_valid": rej_valid, "mismatches": mism});
    std::fs::write(outp, serde_json::to_string(&r).unwrap()).unwrap();
}

fn mode_henc(inp: &str, outp: &str) {
    let mut w = writer(outp);
    for c in lines(inp) {
        let s = arr_bytes(&c["s"]);
        let mut dst = BytesMut::new();
        let r = catch_unwind(AssertUnwindSafe(|| huffman_encode(&s, &mut dst)));
        let line = json!({"t": "henc", "s": bytes_json(&s), "b": bytes_json(&dst), "panic": r.is_err()});
        writeln!(w, "{}", line).unwrap();
    }
    w.flush().unwrap();
}

// ---------------------------------------------------------------------------
// prefix integers through the real decoder
// ---------------------------------------------------------------------------
fn dbg_num(s: &str, key: &str) -> Option<u64> {
    let p = s.rfind(key)? + key.len();
    let t: String = s[p..].chars().take_while(|c| c.is_ascii_digit()).collect();
    t.parse().ok()
}
const INT_TABLE_N: usize = 17000;
fn big_table() -> Decoder {
    // entries n1 .. nN (value empty); entry nk ends up at index 62 + N - k
    let mut d = Decoder::new(1 << 24);
    let mut b = vec![];
    for k in 1..=INT_TABLE_N {
        b.push(0x40);
        e_str(&mut b, format!("n{}", k).as_bytes(), false, 0);
        e_str(&mut b, b"", false, 0);
    }
    let mut f = vec![];
    h2_feed(&mut d, &[&b[..]], &mut f).expect("table shaping block");
    assert_eq!(f.len(), INT_TABLE_N);
    d
}
fn mode_int(inp: &str, outp: &str) {
    let mut w = writer(outp);
    let mut shared = big_table();
    for c in lines(inp) {
        let kind = gs(&c, "kind").to_string();
        let ib = arr_bytes(&c["b"]);
        if ib.is_empty() {
            continue;
        }
        let (first, prefix): (u8, u8) = match kind.as_str() {
            "size" => (0x20, 5),
            "idx" => (0x80, 7),
            "incrname" => (0x40, 6),
            "noidxname" => (0x00, 4),
            "nevername" => (0x10, 4),
            "strlen" => (0x00, 7),
            k => panic!("int kind {}", k),
        };
        let mut block = vec![];
        let mut sup = 0usize;
        if kind == "strlen" {
            block.extend_from_slice(&[0x00, 0x01, b'a']);
        }
        block.push(first | ib[0]);
        block.extend_from_slice(&ib[1..]);
        match kind.as_str() {
            "incrname" | "noidxname" | "nevername" => {
                e_str(&mut block, b"v", false, 0);
            }
            "strlen" => {
                if let Ok((v, _)) = p_int(&ib, prefix) {
                    if v <= 70000 {
                        sup = v as usize;
                        block.extend(std::iter::repeat(b'b').take(sup));
                    }
                }
            }
            _ => {}
        }
        let mut fresh;
        let d: &mut Decoder = match kind.as_str() {
            "size" => {
                fresh = Decoder::new((BIG - 1) as usize);
                &mut fresh
            }
            "strlen" => {
                fresh = Decoder::new(4096);
                &mut fresh
            }
            "incrname" => {
                fresh = big_table();
                &mut fresh
            }
            _ => &mut shared,
        };
        let mut f = vec![];
        let r = h2_feed(d, &[&block[..]], &mut f);
        let mut line = Map::new();
        line.insert("t".into(), json!("int"));
        line.insert("kind".into(), json!(kind));
        line.insert("p".into(), json!(prefix));
        line.insert("b".into(), bytes_json(&ib));
        line.insert("N".into(), json!(INT_TABLE_N));
        line.insert("sup".into(), json!(sup));
        line.insert("ok".into(), json!(r.is_ok()));
        line.insert("err".into(), json!(r.clone().err().unwrap_or_default()));
        let (mut n, mut v, mut vl, mut max) = (String::new(), String::new(), 0usize, -1i64);
        if r.is_ok() {
            if kind == "size" {
                max = dbg_num(&format!("{:?}", d), "max_size: ").map(|x| x as i64).unwrap_or(-2);
            } else if let Some(x) = f.last() {
                n = esc(&x.0);
                vl = x.1.len();
                v = if vl <= 64 { esc(&x.1) } else { String::new() };
            }
        }
        line.insert("nf".into(), json!(f.len()));
        line.insert("n".into(), json!(n));
        line.insert("v".into(), json!(v));
        line.insert("vl".into(), json!(vl));
        line.insert("max".into(), json!(max));
        writeln!(w, "{}", Value::Object(line)).unwrap();
    }
    w.flush().unwrap();
}

// ---------------------------------------------------------------------------
// real header names per hash class (the hash is read from h2's own Debug output of the table)
// ---------------------------------------------------------------------------
fn real_hash(name: &str) -> Option<u64> {
    let mut e = Encoder::new(4096, 0);
    let h = mk_header(name.as_bytes(), b"1", false, false).ok()?;
    let mut dst = BytesMut::new();
    e.encode(vec![h], &mut dst);
    dbg_num(&format!("{:?}", e), "hash: HashValue(")
}
fn mode_names(per: usize, outp: &str) {
    let mut classes: BTreeMap<u64, Vec<String>> = BTreeMap::new();
    let mut hashes = Map::new();
    let al = b"abcdefghijklmnopqrstuvwxyz";
    'outer: for a in al {
        for b in al {
            for c in al {
                let name = format!("q{}{}{}", *a as char, *b as char, *c as char);
                if let Some(h) = real_hash(&name) {
                    let cl = h & 15;
                    let e = classes.entry(cl).or_default();
                    if e.len() < per {
                        e.push(name.clone());
                        hashes.insert(name, json!(h));
                    }
                }
                if classes.len() == 16 && classes.values().all(|v| v.len() >= per) {
                    break 'outer;
                }
            }
        }
    }
    let cj: Map<String, Value> = classes.iter().map(|(k, v)| (k.to_string(), json!(v))).collect();
    std::fs::write(outp, serde_json::to_string(&json!({"classes": cj, "hash": hashes})).unwrap()).unwrap();
}

fn main() {
    // panics inside h2 are caught and recorded as outcomes; keep them quiet, but keep our own loud
    let dflt = std::panic::take_hook();
    std::panic::set_hook(Box::new(move |i| {
        let bt = std::backtrace::Backtrace::force_capture().to_string();
        if !bt.contains("h2::hpack") {
            dflt(i);
        }
    }));
    let a: Vec<String> = std::env::args().collect();
    let usage = "usage: hpack dec|enc|huff|huffx|henc|int|names ...";
    if a.len() < 2 {
        eprintln!("{}", usage);
        std::process::exit(2);
    }
    match a[1].as_str() {
        "dec" => mode_dec(&a[2], &a[3]),
        "enc" => mode_enc(&a[2], &a[3]),
        "huff" => mode_huff(a[2].parse().unwrap(), &a[3], &a[4]),
        "huffx" => mode_huffx(&a[2], a[3].parse().unwrap(), &a[4], a.get(5).map(|x| x.parse().unwrap()).unwrap_or(1).max(1)),
        "henc" => mode_henc(&a[2], &a[3]),
        "int" => mode_int(&a[2], &a[3]),
        "names" => mode_names(a[2].parse().unwrap(), &a[3]),
        _ => {
            eprintln!("{}", usage);
            std::process::exit(2);
        }
    }
}
