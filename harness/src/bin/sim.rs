use h2sim::*;
use std::io::Write;

fn main() {
    let args: Vec<String> = std::env::args().collect();
    run::install_panic_hook();
    let mut out: Box<dyn Write> = Box::new(std::io::stdout());
    let mut scn_out: Option<Box<dyn Write>> = None;
    let mut scns: Vec<scenario::Scenario> = vec![];
    let mut quiet = false;
    let mut i = 1;
    while i < args.len() {
        match args[i].as_str() {
            "--scenario" => {
                let txt = std::fs::read_to_string(&args[i + 1]).expect("read scenario");
                for line in txt.lines() {
                    if line.trim().is_empty() { continue; }
                    scns.push(serde_json::from_str(line).expect("parse scenario"));
                }
                i += 1;
            }
            "--gen" => {
                // --gen family seed count
                let fam = args[i + 1].clone();
                let seed: u64 = args[i + 2].parse().unwrap();
                let n: u64 = args[i + 3].parse().unwrap();
                for k in 0..n {
                    scns.push(gen::by_family(&fam, seed.wrapping_mul(1_000_003).wrapping_add(k)));
                }
                i += 3;
            }
            "--one" => {
                let fam = args[i + 1].clone();
                let seed: u64 = args[i + 2].parse().unwrap();
                scns.push(gen::by_family(&fam, seed));
                i += 2;
            }
            "--out" => {
                out = Box::new(std::io::BufWriter::new(std::fs::File::create(&args[i + 1]).unwrap()));
                i += 1;
            }
            "--dump-scenarios" => {
                scn_out = Some(Box::new(std::io::BufWriter::new(std::fs::File::create(&args[i + 1]).unwrap())));
                i += 1;
            }
            "--quiet" => quiet = true,
            _ => {}
        }
        i += 1;
    }
    let mut tot_ev = 0usize;
    let mut tot_steps = 0u64;
    let mut panics = 0usize;
    let mut budgets = 0usize;
    for s in &scns {
        if let Some(so) = scn_out.as_mut() {
            writeln!(so, "{}", serde_json::to_string(s).unwrap()).unwrap();
            so.flush().unwrap();
        }
        let r = run::run(s, true);
        for l in &r.lines {
            writeln!(out, "{}", l).unwrap();
        }
        tot_ev += r.events;
        tot_steps += r.steps;
        panics += r.panics;
        budgets += r.budget as usize;
        if !quiet {
            eprintln!("{}: steps={} events={} panics={} budget={}", s.name, r.steps, r.events, r.panics, r.budget);
        }
    }
    eprintln!("SUMMARY scenarios={} events={} steps={} panics={} budget={}", scns.len(), tot_ev, tot_steps, panics, budgets);
}
