use h2sim::*;
use std::io::Write;

fn main() {
    let args: Vec<String> = std::env::args().collect();
    run::install_panic_hook();
    let mut out: Box<dyn Write> = Box::new(std::io::stdout());
    let mut scns: Vec<scenario::Scenario> = vec![];
    let mut i = 1;
    while i < args.len() {
        match args[i].as_str() {
            "--scenario" => {
                let txt = std::fs::read_to_string(&args[i + 1]).expect("read scenario");
                for line in txt.lines() {
                    if line.trim().is_empty() { continue; }
                    scns.push(serde_json::from_str(line).expect("parse scenario"));
                }
                i += 1;
            }
            "--basic" => {
                let seed: u64 = args[i + 1].parse().unwrap();
                scns.push(gen::basic(seed));
                i += 1;
            }
            "--out" => {
                out = Box::new(std::io::BufWriter::new(std::fs::File::create(&args[i + 1]).unwrap()));
                i += 1;
            }
            _ => {}
        }
        i += 1;
    }
    for s in &scns {
        let r = run::run(s, true);
        for l in &r.lines {
            writeln!(out, "{}", l).unwrap();
        }
        eprintln!("{}: steps={} events={} panics={} budget={}", s.name, r.steps, r.events, r.panics, r.budget);
    }
}
