//! C20, second half: REAL parallel executions. A real h2 client and a real h2 server run on their own OS threads, the
//! application uses the handles from further threads (one per request on the client, one per accepted request on the
//! server), wake-ups are real cross-thread unparks. The transport is the simulator's in-memory pipe in direct mode.
//!
//! Linearization: every transport callback already runs under the world mutex; here every handle call is made, and its
//! `api` event logged, under the same mutex (lock order: world -> h2's own locks; the connection task takes the world
//! mutex only inside transport callbacks, where h2 holds none of its locks - if it did, the two orders would cross and
//! the watchdog reports the deadlock). The recorded trace is therefore a valid sequential order of all operations and is
//! validated by the same TLA+ contract monitors as every other trace. What runs truly in parallel is everything h2 does
//! outside the callbacks (frame processing, prioritisation, encoding) against the application threads contending for its
//! locks.
//!
//! usage: threads <seed> <count> --out trace.ndjson
use bytes::Bytes;
use h2sim::scenario::EpCfg;
use h2sim::tasks::{body, canon_req, canon_resp, client_builder, err_json, hdrpool, intact, no_err, server_builder, tag_of};
use h2sim::world::{Shared, SimIo, World, EP};
use rand::rngs::StdRng;
use rand::{Rng, SeedableRng};
use serde_json::{json, Value};
use std::future::Future;
use std::pin::Pin;
use std::sync::atomic::{AtomicBool, AtomicU64, Ordering};
use std::sync::{Arc, Mutex};
use std::task::{Context, Poll, Wake, Waker};
use std::thread;

struct ThreadWaker(thread::Thread);
impl Wake for ThreadWaker {
    fn wake(self: Arc<Self>) {
        self.0.unpark();
    }
    fn wake_by_ref(self: &Arc<Self>) {
        self.0.unpark();
    }
}

static PROGRESS: AtomicU64 = AtomicU64::new(0);
static LAST_PANIC: Mutex<String> = Mutex::new(String::new());
static CURRENT_WORLD: Mutex<Option<Shared>> = Mutex::new(None);
static OUT_PATH: Mutex<String> = Mutex::new(String::new());
static FINISHED: AtomicBool = AtomicBool::new(false);

/// poll `f` on this thread until it is ready; the thread sleeps until its waker fires (no timeout: a lost wake-up
/// stalls the run and is reported by the watchdog)
fn block_on<T>(mut f: impl FnMut(&mut Context<'_>) -> Poll<T>) -> T {
    let waker = Waker::from(Arc::new(ThreadWaker(thread::current())));
    let mut cx = Context::from_waker(&waker);
    loop {
        if let Poll::Ready(v) = f(&mut cx) {
            return v;
        }
        thread::park();
    }
}

/// one handle call + its log entry, atomically with respect to every transport callback and every other handle call
fn api<T>(w: &Shared, ep: usize, task: &str, f: impl FnOnce() -> T, ev: impl FnOnce(&T) -> (String, u32, u32, String, Value)) -> T {
    let mut g = match w.lock() {
        Ok(g) => g,
        Err(p) => p.into_inner(),
    };
    let r = match std::panic::catch_unwind(std::panic::AssertUnwindSafe(f)) {
        Ok(r) => r,
        Err(p) => {
            // a panic inside the library during a handle call: data (C08 / C20: never poisons its locks)
            let msg = LAST_PANIC.lock().map(|m| m.clone()).unwrap_or_default();
            g.log(json!({"t": "panic", "ep": EP[ep], "task": task, "msg": msg}));
            drop(g);
            std::panic::resume_unwind(p);
        }
    };
    let (call, sid, tag, res, extra) = ev(&r);
    let mut j = json!({"t": "api", "ep": EP[ep], "task": task, "call": call, "sid": sid as i64, "tag": tag as i64,
        "res": res, "n": 0, "v": 0, "eos": false, "off": 0, "intact": true, "hdr": "", "status": 0, "ch": 0, "cl": 0, "e": no_err(), "psid": 0});
    if let (Some(o), Some(x)) = (j.as_object_mut(), extra.as_object()) {
        for (k, v) in x {
            o.insert(k.clone(), v.clone());
        }
    }
    g.log(j);
    PROGRESS.fetch_add(1, Ordering::SeqCst);
    r
}

#[derive(Clone)]
struct Plan {
    seed: u64,
    workers: usize,
    reqs_per_worker: usize,
}

fn send_body(w: &Shared, ep: usize, task: &str, s: &mut h2::SendStream<Bytes>, tag: u32, total: usize, rng: &mut StdRng, may_reset: bool) {
    let sid = s.stream_id().as_u32();
    let mut sent = 0usize;
    loop {
        let left = total - sent;
        if may_reset && rng.gen_bool(0.05) {
            let code: u32 = 8;
            api(w, ep, task, || s.send_reset(code.into()), |_| ("send_reset".into(), sid, tag, "ok".into(), json!({"ch": 0, "cl": 8})));
            return;
        }
        if left == 0 {
            let r = api(w, ep, task, || s.send_data(Bytes::new(), true), |r| match r {
                Ok(()) => ("send_data".into(), sid, tag, "ok".into(), json!({"n": 0, "eos": true, "off": sent})),
                Err(e) => ("send_data".into(), sid, tag, "err".into(), json!({"n": 0, "eos": true, "off": sent, "e": err_json(e)})),
            });
            let _ = r;
            return;
        }
        let want = left.min(rng.gen_range(1..40000));
        api(w, ep, task, || s.reserve_capacity(want), |_| ("reserve".into(), sid, tag, "ok".into(), json!({"n": want})));
        let got = block_on(|cx| {
            let r = api(w, ep, task, || s.poll_capacity(cx), |r| match r {
                Poll::Pending => ("poll_capacity".into(), sid, tag, "pending".into(), json!({})),
                Poll::Ready(None) => ("poll_capacity".into(), sid, tag, "none".into(), json!({})),
                Poll::Ready(Some(Ok(n))) => ("poll_capacity".into(), sid, tag, "ok".into(), json!({"v": n})),
                Poll::Ready(Some(Err(e))) => ("poll_capacity".into(), sid, tag, "err".into(), json!({"e": err_json(e)})),
            });
            r
        });
        let n = match got {
            Some(Ok(n)) => n.min(left),
            _ => return,
        };
        if n == 0 {
            continue;
        }
        let eos = n == left && rng.gen_bool(0.5);
        let data = body(tag, sent as u64, n);
        let r = api(w, ep, task, || s.send_data(data, eos), |r| match r {
            Ok(()) => ("send_data".into(), sid, tag, "ok".into(), json!({"n": n, "eos": eos, "off": sent})),
            Err(e) => ("send_data".into(), sid, tag, "err".into(), json!({"n": n, "eos": eos, "off": sent, "e": err_json(e)})),
        });
        if r.is_err() {
            return;
        }
        sent += n;
        if eos {
            return;
        }
    }
}

fn read_body(w: &Shared, ep: usize, task: &str, rs: &mut h2::RecvStream, tag: u32, rng: &mut StdRng) {
    let sid = rs.stream_id().as_u32();
    let mut off = 0u64;
    loop {
        // (no early drop of a receive half while the peer may still be sending and our own send half lives: the unread data
        //  would hold the stream window for ever - known finding F15 - and the two writers would wait for each other)
        let r = block_on(|cx| {
            let (r, _) = api(w, ep, task, || { let r = rs.poll_data(cx); let es = rs.is_end_stream(); (r, es) }, |(r, es)| match r {
                Poll::Pending => ("poll_data".into(), sid, tag, "pending".into(), json!({})),
                Poll::Ready(None) => ("poll_data".into(), sid, tag, "none".into(), json!({"eos": es})),
                Poll::Ready(Some(Err(e))) => ("poll_data".into(), sid, tag, "err".into(), json!({"e": err_json(e)})),
                Poll::Ready(Some(Ok(b))) => ("poll_data".into(), sid, tag, "some".into(), json!({"n": b.len(), "off": off, "intact": intact(tag, off, b), "eos": es})),
            });
            r
        });
        match r {
            None => break,
            Some(Err(_)) => return,
            Some(Ok(b)) => {
                off += b.len() as u64;
                let n = b.len();
                if n > 0 {
                    let _ = api(w, ep, task, || rs.flow_control().release_capacity(n), |r| match r {
                        Ok(()) => ("release".into(), sid, tag, "ok".into(), json!({"n": n})),
                        Err(e) => ("release".into(), sid, tag, "err".into(), json!({"n": n, "e": err_json(e)})),
                    });
                }
            }
        }
    }
    let _ = block_on(|cx| {
        let (r, _) = api(w, ep, task, || { let r = rs.poll_trailers(cx); let es = rs.is_end_stream(); (r, es) }, |(r, es)| match r {
            Poll::Pending => ("poll_trailers".into(), sid, tag, "pending".into(), json!({})),
            Poll::Ready(Ok(None)) => ("poll_trailers".into(), sid, tag, "none".into(), json!({"eos": es})),
            Poll::Ready(Ok(Some(_))) => ("poll_trailers".into(), sid, tag, "some".into(), json!({})),
            Poll::Ready(Err(e)) => ("poll_trailers".into(), sid, tag, "err".into(), json!({"e": err_json(e)})),
        });
        r
    });
}

fn run_one(plan: &Plan, ccfg: &EpCfg, scfg: &EpCfg, name: &str) -> Vec<String> {
    let w: Shared = Arc::new(Mutex::new(World::new()));
    *CURRENT_WORLD.lock().unwrap() = Some(w.clone());
    {
        let mut g = w.lock().unwrap();
        g.direct = true;
        g.log(json!({"t": "cfg", "name": name, "mode": "A", "real": {"c": true, "s": true}, "c": h2sim::run::cfg_json(ccfg), "s": h2sim::run::cfg_json(scfg),
                      "peer": {"htz": 4096, "iws": 65535, "maxc": -1, "mfs": 16384, "push": 1}, "seed": plan.seed as i64, "coop": false, "threads": true}));
    }
    let mut handles = vec![];
    // ---- server connection thread (accept loop) ----
    let ws = w.clone();
    let scfg2 = scfg.clone();
    let seed = plan.seed;
    handles.push(thread::Builder::new().name("conn_s".into()).spawn(move || {
        let w = ws;
        let io = SimIo { ep: 1, w: w.clone() };
        let mut hs = Box::pin(server_builder(&scfg2).handshake::<SimIo, Bytes>(io));
        let conn = block_on(|cx| hs.as_mut().poll(cx));
        let mut conn = match conn {
            Ok(c) => {
                api(&w, 1, "conn_s", || (), |_| ("handshake".into(), 0, 0, "ok".into(), json!({})));
                c
            }
            Err(e) => {
                api(&w, 1, "conn_s", || (), |_| ("handshake".into(), 0, 0, "err".into(), json!({"e": err_json(&e)})));
                return;
            }
        };
        let mut hthreads = vec![];
        loop {
            // (poll_accept drives the connection: it calls into the transport, so it is NOT wrapped in the world lock;
            //  its result is logged afterwards - nothing else can observe the accepted stream before this thread hands it on)
            let r = match std::panic::catch_unwind(std::panic::AssertUnwindSafe(|| block_on(|cx| conn.poll_accept(cx)))) {
                Ok(r) => r,
                Err(_) => {
                    let msg = LAST_PANIC.lock().map(|m| m.clone()).unwrap_or_default();
                    let mut g = match w.lock() { Ok(g) => g, Err(p) => p.into_inner() };
                    g.log(json!({"t": "panic", "ep": "s", "task": "conn_s", "msg": msg}));
                    break;
                }
            };
            match r {
                None => {
                    api(&w, 1, "conn_s", || (), |_| ("conn_poll".into(), 0, 0, "ok".into(), json!({})));
                    break;
                }
                Some(Err(e)) => {
                    api(&w, 1, "conn_s", || (), |_| ("conn_poll".into(), 0, 0, "err".into(), json!({"e": err_json(&e)})));
                    break;
                }
                Some(Ok((req, mut resp))) => {
                    let sid = resp.stream_id().as_u32();
                    let tag = tag_of(req.headers());
                    let canon = canon_req(&req);
                    let (_, rbody) = req.into_parts();
                    let eos = rbody.is_end_stream();
                    api(&w, 1, "conn_s", || (), |_| ("accept".into(), sid, tag, "some".into(), json!({"hdr": canon, "eos": eos})));
                    let w2 = w.clone();
                    hthreads.push(thread::spawn(move || {
                        let w = w2;
                        let mut rng = StdRng::seed_from_u64(seed ^ (tag as u64) << 8 ^ 0x5E);
                        let tname = format!("sh{}", tag);
                        // read the request body (maybe answer first)
                        let answer_first = rng.gen_bool(0.4);
                        let mut body_thread = None;
                        if !answer_first {
                            let mut rb = rbody;
                            read_body(&w, 1, &tname, &mut rb, tag, &mut rng);
                            api(&w, 1, &tname, || drop(rb), |_| ("drop_recv".into(), sid, tag, "ok".into(), json!({})));
                        } else {
                            // the request body is read (or dropped unread) on a thread of its own while this one answers
                            let w6 = w.clone();
                            let bseed = rng.gen::<u64>();
                            let bname = format!("sb{}", tag);
                            body_thread = Some(thread::spawn(move || {
                                let w = w6;
                                let mut rng = StdRng::seed_from_u64(bseed);
                                let mut rb = rbody;
                                if rng.gen_bool(0.7) {
                                    read_body(&w, 1, &bname, &mut rb, tag, &mut rng);
                                }
                                api(&w, 1, &bname, || drop(rb), |_| ("drop_recv".into(), sid, tag, "ok".into(), json!({})));
                            }));
                        }
                        let hid = rng.gen_range(0..6usize);
                        let mut b = http::Response::builder().status(200);
                        for (n, v) in hdrpool(hid) {
                            b = b.header(n, v);
                        }
                        let rsp = b.body(()).unwrap();
                        let canon = canon_resp(&rsp);
                        let total = [0usize, 10, 3000, 70000][rng.gen_range(0..4)];
                        let eos = total == 0 && rng.gen_bool(0.5);
                        let s = api(&w, 1, &tname, || resp.send_response(rsp, eos), |r| match r {
                            Ok(_) => ("send_response".into(), sid, tag, "ok".into(), json!({"hdr": canon, "status": 200, "eos": eos})),
                            Err(e) => ("send_response".into(), sid, tag, "err".into(), json!({"hdr": canon, "status": 200, "eos": eos, "e": err_json(e)})),
                        });
                        if let Ok(mut s) = s {
                            if !eos {
                                send_body(&w, 1, &tname, &mut s, tag, total, &mut rng, true);
                            }
                            api(&w, 1, &tname, || { drop(s); drop(resp); }, |_| ("drop_send".into(), sid, tag, "ok".into(), json!({})));
                        } else {
                            api(&w, 1, &tname, || drop(resp), |_| ("drop_send".into(), sid, tag, "ok".into(), json!({})));
                        }
                        if let Some(t) = body_thread {
                            let _ = t.join();
                        }
                    }));
                }
            }
        }
        for h in hthreads {
            let _ = h.join();
        }
    }).unwrap());
    // ---- client ----
    let wc = w.clone();
    let ccfg2 = ccfg.clone();
    let plan2 = plan.clone();
    handles.push(thread::Builder::new().name("client".into()).spawn(move || {
        let w = wc;
        let io = SimIo { ep: 0, w: w.clone() };
        let mut hs = Box::pin(client_builder(&ccfg2).handshake::<SimIo, Bytes>(io));
        let (sr, mut conn) = match block_on(|cx| hs.as_mut().poll(cx)) {
            Ok(x) => {
                api(&w, 0, "conn_c", || (), |_| ("handshake".into(), 0, 0, "ok".into(), json!({})));
                x
            }
            Err(e) => {
                api(&w, 0, "conn_c", || (), |_| ("handshake".into(), 0, 0, "err".into(), json!({"e": err_json(&e)})));
                return;
            }
        };
        // connection thread
        let w3 = w.clone();
        let ct = thread::Builder::new().name("conn_c".into()).spawn(move || {
            let w = w3;
            let r = match std::panic::catch_unwind(std::panic::AssertUnwindSafe(|| block_on(|cx| Pin::new(&mut conn).poll(cx)))) {
                Ok(r) => r,
                Err(_) => {
                    let msg = LAST_PANIC.lock().map(|m| m.clone()).unwrap_or_default();
                    let mut g = match w.lock() { Ok(g) => g, Err(p) => p.into_inner() };
                    g.log(json!({"t": "panic", "ep": "c", "task": "conn_c", "msg": msg}));
                    return;
                }
            };
            match r {
                Ok(()) => api(&w, 0, "conn_c", || (), |_| ("conn_poll".into(), 0, 0, "ok".into(), json!({}))),
                Err(e) => api(&w, 0, "conn_c", || (), |_| ("conn_poll".into(), 0, 0, "err".into(), json!({"e": err_json(&e)}))),
            }
        }).unwrap();
        let mut wts = vec![];
        for j in 0..plan2.workers {
            let w4 = w.clone();
            let mut sr = sr.clone();
            let plan3 = plan2.clone();
            wts.push(thread::spawn(move || {
                let w = w4;
                let mut rng = StdRng::seed_from_u64(plan3.seed ^ ((j as u64 + 1) << 20));
                for k in 0..plan3.reqs_per_worker {
                    let tag = (j * 100 + k + 1) as u32;
                    let tname = format!("cw{}", tag);
                    // readiness
                    let ok = block_on(|cx| {
                        api(&w, 0, &tname, || sr.poll_ready(cx), |r| match r {
                            Poll::Pending => ("poll_ready".into(), 0, tag, "pending".into(), json!({})),
                            Poll::Ready(Ok(())) => ("poll_ready".into(), 0, tag, "ok".into(), json!({})),
                            Poll::Ready(Err(e)) => ("poll_ready".into(), 0, tag, "err".into(), json!({"e": err_json(e)})),
                        })
                    });
                    if ok.is_err() {
                        return;
                    }
                    let hid = rng.gen_range(0..6usize);
                    let total = [0usize, 10, 3000, 70000][rng.gen_range(0..4)];
                    let eos = total == 0 && rng.gen_bool(0.5);
                    let mut b = http::Request::builder().method("POST").uri(format!("https://sim.test/r/{}", tag)).header("x-tag", tag.to_string());
                    for (n, v) in hdrpool(hid) {
                        b = b.header(n, v);
                    }
                    let req = b.body(()).unwrap();
                    let canon = canon_req(&req);
                    let r = api(&w, 0, &tname, || sr.send_request(req, eos), |r| match r {
                        Ok((_, s)) => ("send_request".into(), s.stream_id().as_u32(), tag, "ok".into(), json!({"hdr": canon, "eos": eos})),
                        Err(e) => ("send_request".into(), 0, tag, "err".into(), json!({"hdr": canon, "eos": eos, "e": err_json(e)})),
                    });
                    let (mut fut, mut s) = match r {
                        Ok(x) => x,
                        Err(_) => return,
                    };
                    let sid = s.stream_id().as_u32();
                    // the response is awaited and read on a thread of its own while this one streams the request body
                    let w5 = w.clone();
                    let drop_early = false;
                    let rseed = rng.gen::<u64>();
                    let reader = thread::spawn(move || {
                        let w = w5;
                        let mut rng = StdRng::seed_from_u64(rseed);
                        if drop_early {
                            api(&w, 0, "cr", || drop(fut), |_| ("drop_resp".into(), sid, tag, "ok".into(), json!({})));
                            return;
                        }
                        let rname = format!("cr{}", tag);
                        let resp = block_on(|cx| {
                            api(&w, 0, &rname, || Pin::new(&mut fut).poll(cx), |r| match r {
                                Poll::Pending => ("poll_response".into(), sid, tag, "pending".into(), json!({})),
                                Poll::Ready(Ok(resp)) => ("poll_response".into(), sid, tag, "ok".into(), json!({"hdr": canon_resp(resp), "status": resp.status().as_u16(), "eos": resp.body().is_end_stream()})),
                                Poll::Ready(Err(e)) => ("poll_response".into(), sid, tag, "err".into(), json!({"e": err_json(e)})),
                            })
                        });
                        drop(fut);
                        match resp {
                            Ok(resp) => {
                                let (_, mut rb) = resp.into_parts();
                                let bname = format!("cb{}", tag);
                                read_body(&w, 0, &bname, &mut rb, tag, &mut rng);
                                api(&w, 0, &bname, || drop(rb), |_| ("drop_recv".into(), sid, tag, "ok".into(), json!({})));
                            }
                            Err(_) => {
                                api(&w, 0, &rname, || (), |_| ("drop_recv".into(), sid, tag, "ok".into(), json!({})));
                            }
                        }
                    });
                    if !eos {
                        send_body(&w, 0, &tname, &mut s, tag, total, &mut rng, true);
                    }
                    api(&w, 0, &tname, || drop(s), |_| ("drop_send".into(), sid, tag, "ok".into(), json!({})));
                    let _ = reader.join();
                }
            }));
        }
        for t in wts {
            let _ = t.join();
        }
        api(&w, 0, "env", || drop(sr), |_| ("drop_sr".into(), 0, 0, "ok".into(), json!({})));
        let _ = ct.join();
    }).unwrap());
    for h in handles {
        let _ = h.join();
    }
    let mut g = match w.lock() {
        Ok(g) => g,
        Err(p) => p.into_inner(),
    };
    let q = json!({"t": "q", "n": 1, "out": [], "conn": {"c": "done", "s": "done"}, "wblocked": {"c": false, "s": false}, "sr_alive": false});
    g.log(q.clone());
    let mut qf = q;
    qf["t"] = json!("qf");
    g.log(qf);
    g.log(json!({"t": "end", "steps": 0, "nq": 1, "panics": 0, "budget": false}));
    g.rec.lines.clone()
}

fn main() {
    let args: Vec<String> = std::env::args().collect();
    let seed: u64 = args.get(1).and_then(|s| s.parse().ok()).unwrap_or(1);
    let count: usize = args.get(2).and_then(|s| s.parse().ok()).unwrap_or(10);
    std::panic::set_hook(Box::new(|info| {
        let loc = info.location().map(|l| format!(" @ {}:{}", l.file(), l.line())).unwrap_or_default();
        let msg = if let Some(s) = info.payload().downcast_ref::<&str>() { s.to_string() } else if let Some(s) = info.payload().downcast_ref::<String>() { s.clone() } else { "panic".into() };
        if let Ok(mut m) = LAST_PANIC.lock() {
            *m = format!("{}{}", msg, loc);
        }
    }));
    let out = args.iter().position(|a| a == "--out").and_then(|i| args.get(i + 1)).cloned().unwrap_or("/dev/stdout".into());
    *OUT_PATH.lock().unwrap() = out.clone();
    let stall_secs: u64 = std::env::var("H2SIM_STALL_SECS").ok().and_then(|s| s.parse().ok()).unwrap_or(60);
    // watchdog: no event for 60 s while a run is in progress = a stall (deadlock or lost wake-up)
    thread::spawn(move || {
        let mut last = 0u64;
        let mut since = std::time::Instant::now();
        loop {
            thread::sleep(std::time::Duration::from_millis(500));
            if FINISHED.load(Ordering::SeqCst) {
                return;
            }
            let p = PROGRESS.load(Ordering::SeqCst);
            if p != last {
                last = p;
                since = std::time::Instant::now();
            } else if since.elapsed().as_secs() > stall_secs {
                let name = h2sim::world::CURRENT_RUN.lock().map(|g| g.clone()).unwrap_or_default();
                eprintln!("DEADLOCK run={} : no operation completed for 60 s although threads are waiting (deadlock or lost wake-up)", name);
                // leave the events of the stalled run behind for diagnosis (try_lock: the world mutex may be part of the deadlock)
                if let Ok(cw) = CURRENT_WORLD.lock() {
                    if let Some(w) = cw.as_ref() {
                        if let Ok(g) = w.try_lock() {
                            let p = OUT_PATH.lock().map(|p| p.clone()).unwrap_or_default();
                            let _ = std::fs::write(format!("{}.stall", p), g.rec.lines.join("\n") + "\n");
                        } else {
                            eprintln!("(world mutex held: a thread is inside a handle call or a transport callback)");
                        }
                    }
                }
                std::process::exit(3);
            }
        }
    });
    let mut lines: Vec<String> = vec![];
    let mut events = 0usize;
    let dump = args.iter().position(|a| a == "--dump-scenarios").and_then(|i| args.get(i + 1)).cloned();
    let mut scn_lines: Vec<String> = vec![];
    for i in 0..count {
        let s = seed * 1_000_000 + i as u64;
        let mut rng = StdRng::seed_from_u64(s ^ 0x7_43EAD5);
        let name = format!("threadsA-{}", s);
        if let Ok(mut n) = h2sim::world::CURRENT_RUN.lock() {
            *n = name.clone();
        }
        let mut ccfg = EpCfg::default();
        let mut scfg = EpCfg::default();
        if rng.gen_bool(0.5) {
            ccfg.iws = Some([1000u32, 16384, 65535, 1 << 20][rng.gen_range(0..4)]);
        }
        if rng.gen_bool(0.5) {
            scfg.iws = Some([1000u32, 16384, 65535, 1 << 20][rng.gen_range(0..4)]);
        }
        if rng.gen_bool(0.3) {
            scfg.max_conc = Some([1u32, 2, 5][rng.gen_range(0..3)]);
        }
        ccfg.enable_push = Some(false);
        let plan = Plan { seed: s, workers: rng.gen_range(1..5), reqs_per_worker: rng.gen_range(1..4) };
        scn_lines.push(format!("{{\"name\":\"{}\",\"threads\":true,\"seed\":{},\"workers\":{},\"reqs_per_worker\":{},\"how\":\"harness/target/debug/threads <seed / 1000000> <index + 1> (real OS threads: the schedule is not reproducible, the inputs are)\"}}", name, s, plan.workers, plan.reqs_per_worker));
        let l = run_one(&plan, &ccfg, &scfg, &name);
        events += l.len();
        lines.extend(l);
    }
    FINISHED.store(true, Ordering::SeqCst);
    std::fs::write(&out, lines.join("\n") + "\n").unwrap();
    if let Some(d) = dump {
        std::fs::write(&d, scn_lines.join("\n") + "\n").unwrap();
    }
    println!("SUMMARY scenarios={} events={} steps={} panics=0 budget=0", count, events, events);
}
