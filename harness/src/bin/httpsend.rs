//! httpsend - send-side driver for property C13 ("the send API refuses to emit malformed messages").
//!
//! Reads programs (JSON lines), and for each one runs a REAL h2 client against a REAL h2 server over
//! the simulator transport (world.rs SimIo, so every frame either side writes / is handed is decoded by
//! the harness's own parser and logged as `out` / `in` events with the class list of its header block).
//! The client submits ONE request of the described shape through the public send API, the server reacts
//! with the described interim responses / pushes / response / body / trailers.  Every API call is logged
//! as an `api` event at its return.  Output: ndjson in the simulator's event format (a batch = runs
//! separated by `cfg` events), judged by spec/trace/Trace_Http.tla (rules C13.emit_*, and the receive
//! rules on the other real endpoint as a bonus).
//!
//! Program: {"name": "...", "ecp": bool,
//!   "req":  {"method": "GET", "uri": "https://sim.test/p", "http2": bool, "protocol": "" | "websocket",
//!            "fields": [[n, v], ...], "eos": bool, "data": [n, ...], "trailers": null | [[n, v], ...]},
//!   "resp": {"infos": [{"status": 103, "fields": [...]}], "pushes": [{"method", "uri", "fields"}],
//!            "status": 200, "fields": [...], "eos": bool, "data": [n, ...], "trailers": null | [...],
//!            "info_after": [{"status": ..}]}}
//! Shapes the `http` crate types cannot express (invalid header name / value, unparsable URI) are logged
//! as api `build` err and skipped.
//!
//! usage: httpsend --in <programs.jsonl> --out <trace.ndjson>

use bytes::Bytes;
use h2::{client, server, RecvStream, SendStream};
use h2sim::wire::canon;
use h2sim::world::*;
use http::{HeaderMap, HeaderName, HeaderValue, Request, Response};
use serde::Deserialize;
use serde_json::{json, Value};
use std::future::Future;
use std::io::Write;
use std::pin::Pin;
use std::sync::{Arc, Mutex};
use std::task::{Context, Poll, RawWaker, RawWakerVTable, Waker};

#[derive(Deserialize, Clone, Debug, Default)]
#[serde(default)]
struct Msg {
    method: String,
    uri: String,
    http2: bool,
    protocol: String,
    status: u16,
    fields: Vec<(String, String)>,
    eos: bool,
    data: Vec<usize>,
    trailers: Option<Vec<(String, String)>>,
    infos: Vec<Msg>,
    info_after: Vec<Msg>,
    pushes: Vec<Msg>,
}

#[derive(Deserialize, Clone, Debug, Default)]
#[serde(default)]
struct Prog {
    name: String,
    ecp: bool,
    req: Msg,
    resp: Msg,
}

fn noop_waker() -> Waker {
    fn clone(_: *const ()) -> RawWaker {
        RawWaker::new(std::ptr::null(), &VT)
    }
    fn noop(_: *const ()) {}
    static VT: RawWakerVTable = RawWakerVTable::new(clone, noop, noop, noop);
    unsafe { Waker::from_raw(RawWaker::new(std::ptr::null(), &VT)) }
}

fn err_json(e: &h2::Error) -> Value {
    let (rh, rl, has) = match e.reason() {
        Some(r) => {
            let c: u32 = r.into();
            ((c >> 16) as i64, (c & 0xffff) as i64, true)
        }
        None => (0, 0, false),
    };
    let kind = if e.is_io() {
        "io"
    } else if e.is_go_away() {
        "goaway"
    } else if e.is_reset() {
        "reset"
    } else if has {
        "reason"
    } else {
        "user"
    };
    json!({"kind": kind, "rh": rh, "rl": rl, "has": has, "remote": e.is_remote(), "library": e.is_library(), "iokind": "", "msg": e.to_string()})
}

fn api(w: &Shared, ep: usize, task: &str, call: &str, sid: u32, res: &str, extra: Value) {
    let mut j = json!({"t": "api", "ep": EP[ep], "task": task, "call": call, "sid": sid as i64, "tag": 0,
        "res": res, "n": 0, "v": 0, "eos": false, "off": 0, "intact": true, "hdr": "", "status": 0, "ch": 0, "cl": 0,
        "e": {"kind": "", "rh": 0, "rl": 0, "has": false, "remote": false, "library": false, "iokind": "", "msg": ""}, "psid": 0});
    if let (Some(o), Some(x)) = (j.as_object_mut(), extra.as_object()) {
        for (k, v) in x {
            o.insert(k.clone(), v.clone());
        }
    }
    w.lock().unwrap().log(j);
}

fn hmap(fields: &[(String, String)]) -> Option<HeaderMap> {
    let mut m = HeaderMap::new();
    for (n, v) in fields {
        let name = HeaderName::from_bytes(n.as_bytes()).ok()?;
        let val = HeaderValue::from_bytes(v.as_bytes()).ok()?;
        m.append(name, val);
    }
    Some(m)
}

fn canon_fields(pseudo: &[(&str, String)], m: &HeaderMap) -> String {
    let mut f: Vec<(Vec<u8>, Vec<u8>)> = pseudo.iter().map(|(n, v)| (n.as_bytes().to_vec(), v.as_bytes().to_vec())).collect();
    for (n, v) in m.iter() {
        f.push((n.as_str().as_bytes().to_vec(), v.as_bytes().to_vec()));
    }
    canon(&f)
}

fn build_request(m: &Msg) -> Option<Request<()>> {
    let mut b = Request::builder().method(m.method.as_str()).uri(m.uri.as_str());
    if m.http2 {
        b = b.version(http::Version::HTTP_2);
    }
    let mut req = b.body(()).ok()?;
    *req.headers_mut() = hmap(&m.fields)?;
    if !m.protocol.is_empty() {
        req.extensions_mut().insert(h2::ext::Protocol::from(m.protocol.as_str()));
    }
    Some(req)
}

fn build_response(m: &Msg) -> Option<Response<()>> {
    let mut resp = Response::builder().status(m.status).body(()).ok()?;
    *resp.headers_mut() = hmap(&m.fields)?;
    Some(resp)
}

/// send-side body program shared by both roles: data chunks, then trailers or nothing
struct Body {
    stream: Option<SendStream<Bytes>>,
    data: Vec<usize>,
    trailers: Option<Vec<(String, String)>>,
    pc: usize,
}

impl Body {
    fn run(&mut self, w: &Shared, ep: usize) {
        let st = match self.stream.as_mut() {
            Some(s) => s,
            None => return,
        };
        let sid = st.stream_id().as_u32();
        while self.pc < self.data.len() {
            let n = self.data[self.pc];
            let last = self.pc + 1 == self.data.len() && self.trailers.is_none();
            match st.send_data(Bytes::from(vec![b'x'; n]), last) {
                Ok(()) => api(w, ep, "body", "send_data", sid, "ok", json!({"n": n, "eos": last})),
                Err(e) => api(w, ep, "body", "send_data", sid, "err", json!({"n": n, "eos": last, "e": err_json(&e)})),
            }
            self.pc += 1;
        }
        if let Some(t) = self.trailers.take() {
            match hmap(&t) {
                Some(m) => {
                    let c = canon_fields(&[], &m);
                    match st.send_trailers(m) {
                        Ok(()) => api(w, ep, "body", "send_trailers", sid, "ok", json!({"hdr": c})),
                        Err(e) => api(w, ep, "body", "send_trailers", sid, "err", json!({"hdr": c, "e": err_json(&e)})),
                    }
                }
                None => api(w, ep, "body", "build", sid, "err", json!({"hdr": "trailers"})),
            }
        }
        self.stream = None;
    }
}

/// receive-side reader: polls data to the end, then trailers
struct Reader {
    rs: Option<RecvStream>,
    ep: usize,
    phase: u8,
}

impl Reader {
    fn run(&mut self, w: &Shared, cx: &mut Context<'_>) {
        loop {
            let rs = match self.rs.as_mut() {
                Some(r) => r,
                None => return,
            };
            let sid = rs.stream_id().as_u32();
            if self.phase == 0 {
                match rs.poll_data(cx) {
                    Poll::Pending => return,
                    Poll::Ready(None) => {
                        api(w, self.ep, "reader", "poll_data", sid, "none", json!({"eos": rs.is_end_stream()}));
                        self.phase = 1;
                    }
                    Poll::Ready(Some(Ok(b))) => {
                        let _ = rs.flow_control().release_capacity(b.len());
                        api(w, self.ep, "reader", "poll_data", sid, "some", json!({"n": b.len()}));
                    }
                    Poll::Ready(Some(Err(e))) => {
                        api(w, self.ep, "reader", "poll_data", sid, "err", json!({"e": err_json(&e)}));
                        self.rs = None;
                    }
                }
            } else {
                match rs.poll_trailers(cx) {
                    Poll::Pending => return,
                    Poll::Ready(Ok(None)) => {
                        api(w, self.ep, "reader", "poll_trailers", sid, "none", json!({}));
                        self.rs = None;
                    }
                    Poll::Ready(Ok(Some(m))) => {
                        api(w, self.ep, "reader", "poll_trailers", sid, "some", json!({"hdr": canon_fields(&[], &m)}));
                        self.rs = None;
                    }
                    Poll::Ready(Err(e)) => {
                        api(w, self.ep, "reader", "poll_trailers", sid, "err", json!({"e": err_json(&e)}));
                        self.rs = None;
                    }
                }
            }
        }
    }
}

fn run_prog(p: &Prog) -> Vec<String> {
    let w: Shared = Arc::new(Mutex::new(World::new()));
    w.lock().unwrap().log(json!({"t": "cfg", "name": p.name, "mode": "A", "real": {"c": true, "s": true}, "c": {}, "s": {},
        "peer": {}, "coop": false, "seed": 0, "send_driver": true}));
    let waker = noop_waker();
    let mut cx = Context::from_waker(&waker);

    let mut sb = server::Builder::new();
    if p.ecp {
        sb.enable_connect_protocol();
    }
    let mut shs: Option<server::Handshake<SimIo, Bytes>> = Some(sb.handshake(SimIo { ep: 1, w: w.clone() }));
    let mut sconn: Option<server::Connection<SimIo, Bytes>> = None;
    let mut chs: Option<Pin<Box<dyn Future<Output = Result<(client::SendRequest<Bytes>, client::Connection<SimIo, Bytes>), h2::Error>>>>> =
        Some(Box::pin(client::Builder::new().handshake::<SimIo, Bytes>(SimIo { ep: 0, w: w.clone() })));
    let mut cconn: Option<client::Connection<SimIo, Bytes>> = None;
    let mut sr: Option<client::SendRequest<Bytes>> = None;

    let mut sent = false;
    let mut settle = 0; // rounds spent after the handshake before the request is sent (lets SETTINGS / ACKs cross)
    let mut cbody = Body { stream: None, data: p.req.data.clone(), trailers: p.req.trailers.clone(), pc: 0 };
    let mut sbody = Body { stream: None, data: p.resp.data.clone(), trailers: p.resp.trailers.clone(), pc: 0 };
    let mut respfut: Option<client::ResponseFuture> = None;
    let mut pushes: Option<client::PushPromises> = None;
    let mut pushed_futs: Vec<client::PushedResponseFuture> = vec![];
    let mut readers: Vec<Reader> = vec![];
    let mut pushed_bodies: Vec<Body> = vec![];

    let mut idle_rounds = 0;
    for _round in 0..400 {
        let before = {
            let g = w.lock().unwrap();
            (g.rec.n_events, g.dirs[0].total_w + g.dirs[1].total_w)
        };
        // deliver everything in flight
        {
            let mut g = w.lock().unwrap();
            for d in 0..2 {
                if !g.dirs[d].inflight.is_empty() {
                    let bytes: Vec<u8> = g.dirs[d].inflight.drain(..).collect();
                    g.dirs[d].readable.extend(bytes);
                }
            }
        }
        // ---- server connection
        if let Some(h) = shs.as_mut() {
            match Pin::new(h).poll(&mut cx) {
                Poll::Ready(Ok(c)) => {
                    api(&w, 1, "conn_s", "handshake", 0, "ok", json!({}));
                    sconn = Some(c);
                    shs = None;
                }
                Poll::Ready(Err(e)) => {
                    api(&w, 1, "conn_s", "handshake", 0, "err", json!({"e": err_json(&e)}));
                    shs = None;
                }
                Poll::Pending => {}
            }
        }
        let mut sdone = false;
        if let Some(c) = sconn.as_mut() {
            loop {
                match c.poll_accept(&mut cx) {
                    Poll::Pending => break,
                    Poll::Ready(None) => {
                        api(&w, 1, "conn_s", "conn_poll", 0, "ok", json!({}));
                        sdone = true;
                        break;
                    }
                    Poll::Ready(Some(Err(e))) => {
                        api(&w, 1, "conn_s", "conn_poll", 0, "err", json!({"e": err_json(&e)}));
                        sdone = true;
                        break;
                    }
                    Poll::Ready(Some(Ok((req, mut respond)))) => {
                        let sid = respond.stream_id().as_u32();
                        let (parts, body) = req.into_parts();
                        let mut ps = vec![(":method", parts.method.as_str().to_string())];
                        if let Some(pq) = parts.uri.path_and_query() {
                            ps.push((":path", pq.as_str().to_string()));
                        }
                        api(&w, 1, "conn_s", "accept", sid, "some", json!({"hdr": canon_fields(&ps, &parts.headers), "eos": body.is_end_stream()}));
                        readers.push(Reader { rs: Some(body), ep: 1, phase: 0 });
                        // ---- the server's reaction, straight-line
                        for i in &p.resp.infos {
                            match build_response(i) {
                                Some(r) => {
                                    let c = canon_fields(&[(":status", i.status.to_string())], r.headers());
                                    match respond.send_informational(r) {
                                        Ok(()) => api(&w, 1, "srv", "send_info", sid, "ok", json!({"hdr": c, "status": i.status})),
                                        Err(e) => api(&w, 1, "srv", "send_info", sid, "err", json!({"hdr": c, "status": i.status, "e": err_json(&e)})),
                                    }
                                }
                                None => api(&w, 1, "srv", "build", sid, "err", json!({"hdr": "info"})),
                            }
                        }
                        for pm in &p.resp.pushes {
                            match build_request(pm) {
                                Some(r) => {
                                    let c = canon_fields(&[(":method", pm.method.clone()), (":uri", pm.uri.clone())], r.headers());
                                    match respond.push_request(r) {
                                        Ok(mut pushed) => {
                                            let psid = pushed.stream_id().as_u32();
                                            api(&w, 1, "srv", "push_request", sid, "ok", json!({"hdr": c, "psid": psid}));
                                            let r2 = Response::builder().status(200).body(()).unwrap();
                                            match pushed.send_response(r2, true) {
                                                Ok(s) => {
                                                    api(&w, 1, "srv", "send_response", psid, "ok", json!({"status": 200, "eos": true}));
                                                    pushed_bodies.push(Body { stream: Some(s), data: vec![], trailers: None, pc: 0 });
                                                }
                                                Err(e) => api(&w, 1, "srv", "send_response", psid, "err", json!({"e": err_json(&e)})),
                                            }
                                        }
                                        Err(e) => api(&w, 1, "srv", "push_request", sid, "err", json!({"hdr": c, "e": err_json(&e)})),
                                    }
                                }
                                None => api(&w, 1, "srv", "build", sid, "err", json!({"hdr": "push"})),
                            }
                        }
                        if p.resp.status != 0 {
                            match build_response(&p.resp) {
                                Some(r) => {
                                    let c = canon_fields(&[(":status", p.resp.status.to_string())], r.headers());
                                    match respond.send_response(r, p.resp.eos) {
                                        Ok(s) => {
                                            api(&w, 1, "srv", "send_response", sid, "ok", json!({"hdr": c, "status": p.resp.status, "eos": p.resp.eos}));
                                            if !p.resp.eos {
                                                sbody.stream = Some(s);
                                            }
                                        }
                                        Err(e) => api(&w, 1, "srv", "send_response", sid, "err", json!({"hdr": c, "status": p.resp.status, "e": err_json(&e)})),
                                    }
                                }
                                None => api(&w, 1, "srv", "build", sid, "err", json!({"hdr": "response"})),
                            }
                        }
                        for i in &p.resp.info_after {
                            if let Some(r) = build_response(i) {
                                match respond.send_informational(r) {
                                    Ok(()) => api(&w, 1, "srv", "send_info", sid, "ok", json!({"status": i.status, "after": true})),
                                    Err(e) => api(&w, 1, "srv", "send_info", sid, "err", json!({"status": i.status, "after": true, "e": err_json(&e)})),
                                }
                            }
                        }
                        sbody.run(&w, 1);
                    }
                }
            }
        }
        if sdone {
            sconn = None;
        }
        // ---- client connection
        if let Some(f) = chs.as_mut() {
            match f.as_mut().poll(&mut cx) {
                Poll::Ready(Ok((s, c))) => {
                    api(&w, 0, "conn_c", "handshake", 0, "ok", json!({}));
                    sr = Some(s);
                    cconn = Some(c);
                    chs = None;
                }
                Poll::Ready(Err(e)) => {
                    api(&w, 0, "conn_c", "handshake", 0, "err", json!({"e": err_json(&e)}));
                    chs = None;
                }
                Poll::Pending => {}
            }
        }
        let mut cdone = false;
        if let Some(c) = cconn.as_mut() {
            match Pin::new(c).poll(&mut cx) {
                Poll::Pending => {}
                Poll::Ready(Ok(())) => {
                    api(&w, 0, "conn_c", "conn_poll", 0, "ok", json!({}));
                    cdone = true;
                }
                Poll::Ready(Err(e)) => {
                    api(&w, 0, "conn_c", "conn_poll", 0, "err", json!({"e": err_json(&e)}));
                    cdone = true;
                }
            }
        }
        if cdone {
            cconn = None;
        }
        // ---- client application
        if !sent && sr.is_some() && sconn.is_some() {
            settle += 1;
        }
        if !sent && settle >= 3 {
            sent = true;
            let mut s = sr.take().unwrap();
            match build_request(&p.req) {
                Some(req) => {
                    let c = canon_fields(&[(":method", p.req.method.clone()), (":uri", p.req.uri.clone()), (":protocol", p.req.protocol.clone())], req.headers());
                    match s.send_request(req, p.req.eos) {
                        Ok((fut, stream)) => {
                            let sid = stream.stream_id().as_u32();
                            api(&w, 0, "cli", "send_request", sid, "ok", json!({"hdr": c, "eos": p.req.eos}));
                            let mut fut = fut;
                            pushes = Some(fut.push_promises());
                            respfut = Some(fut);
                            if !p.req.eos {
                                cbody.stream = Some(stream);
                                cbody.run(&w, 0);
                            }
                        }
                        Err(e) => api(&w, 0, "cli", "send_request", 0, "err", json!({"hdr": c, "eos": p.req.eos, "e": err_json(&e)})),
                    }
                }
                None => api(&w, 0, "cli", "build", 0, "err", json!({"hdr": "request"})),
            }
            drop(s);
        }
        if let Some(pp) = pushes.as_mut() {
            loop {
                match pp.poll_push_promise(&mut cx) {
                    Poll::Pending => break,
                    Poll::Ready(None) => {
                        pushes = None;
                        break;
                    }
                    Poll::Ready(Some(Err(e))) => {
                        api(&w, 0, "cli", "poll_push", 0, "err", json!({"e": err_json(&e)}));
                        pushes = None;
                        break;
                    }
                    Poll::Ready(Some(Ok(pr))) => {
                        let (req, pf) = pr.into_parts();
                        let psid = pf.stream_id().as_u32();
                        api(&w, 0, "cli", "poll_push", 0, "some", json!({"hdr": canon_fields(&[(":method", req.method().to_string())], req.headers()), "psid": psid}));
                        pushed_futs.push(pf);
                    }
                }
            }
        }
        if let Some(f) = respfut.as_mut() {
            loop {
                match f.poll_informational(&mut cx) {
                    Poll::Ready(Some(Ok(r))) => {
                        api(&w, 0, "cli", "poll_info", f.stream_id().as_u32(), "some", json!({"status": r.status().as_u16()}));
                    }
                    _ => break,
                }
            }
            let sid = f.stream_id().as_u32();
            match Pin::new(&mut *f).poll(&mut cx) {
                Poll::Pending => {}
                Poll::Ready(Ok(r)) => {
                    let (parts, body) = r.into_parts();
                    api(&w, 0, "cli", "poll_response", sid, "ok", json!({"status": parts.status.as_u16(), "hdr": canon_fields(&[(":status", parts.status.as_u16().to_string())], &parts.headers), "eos": body.is_end_stream()}));
                    readers.push(Reader { rs: Some(body), ep: 0, phase: 0 });
                    respfut = None;
                }
                Poll::Ready(Err(e)) => {
                    api(&w, 0, "cli", "poll_response", sid, "err", json!({"e": err_json(&e)}));
                    respfut = None;
                }
            }
        }
        let mut k = 0;
        while k < pushed_futs.len() {
            let sid = pushed_futs[k].stream_id().as_u32();
            match Pin::new(&mut pushed_futs[k]).poll(&mut cx) {
                Poll::Pending => k += 1,
                Poll::Ready(Ok(r)) => {
                    let (parts, body) = r.into_parts();
                    api(&w, 0, "cli", "poll_response", sid, "ok", json!({"status": parts.status.as_u16(), "eos": body.is_end_stream()}));
                    readers.push(Reader { rs: Some(body), ep: 0, phase: 0 });
                    let _ = pushed_futs.remove(k);
                }
                Poll::Ready(Err(e)) => {
                    api(&w, 0, "cli", "poll_response", sid, "err", json!({"e": err_json(&e)}));
                    let _ = pushed_futs.remove(k);
                }
            }
        }
        for r in readers.iter_mut() {
            r.run(&w, &mut cx);
        }
        let after = {
            let g = w.lock().unwrap();
            (g.rec.n_events, g.dirs[0].total_w + g.dirs[1].total_w)
        };
        let inflight = {
            let g = w.lock().unwrap();
            !g.dirs[0].inflight.is_empty() || !g.dirs[1].inflight.is_empty()
        };
        if after == before && !inflight {
            idle_rounds += 1;
            if idle_rounds >= 3 && sent {
                break;
            }
            if idle_rounds >= 12 {
                break;
            }
        } else {
            idle_rounds = 0;
        }
    }
    {
        let mut g = w.lock().unwrap();
        g.log(json!({"t": "q", "n": 1, "out": [], "conn": {"c": "pending", "s": "pending"}, "wblocked": {"c": false, "s": false}, "sr_alive": false}));
        g.log(json!({"t": "qf", "n": 1, "out": [], "conn": {"c": "pending", "s": "pending"}, "wblocked": {"c": false, "s": false}, "sr_alive": false}));
        g.log(json!({"t": "end", "steps": 0, "nq": 1, "panics": 0, "budget": false}));
    }
    // drop the handles before the connections (h2 asserts an empty store when `unstable` is on)
    drop(readers);
    drop(pushed_futs);
    drop(pushes);
    drop(respfut);
    drop(cbody);
    drop(sbody);
    drop(pushed_bodies);
    drop(sr);
    let r = std::panic::catch_unwind(std::panic::AssertUnwindSafe(|| {
        drop(cconn);
        drop(sconn);
        drop(chs);
        drop(shs);
    }));
    let mut g = match w.lock() {
        Ok(g) => g,
        Err(p) => p.into_inner(),
    };
    if r.is_err() {
        g.log(json!({"t": "drop_panic", "at": "end", "msg": "panic while dropping the connections"}));
    }
    g.rec.lines.clone()
}

fn main() {
    let args: Vec<String> = std::env::args().collect();
    let mut inp = String::new();
    let mut outp = String::new();
    let mut i = 1;
    while i < args.len() {
        match args[i].as_str() {
            "--in" => {
                inp = args[i + 1].clone();
                i += 1;
            }
            "--out" => {
                outp = args[i + 1].clone();
                i += 1;
            }
            _ => {}
        }
        i += 1;
    }
    std::panic::set_hook(Box::new(|_| {}));
    let txt = std::fs::read_to_string(&inp).expect("read programs");
    let mut out = std::io::BufWriter::new(std::fs::File::create(&outp).expect("create out"));
    let (mut n, mut panics) = (0, 0);
    for line in txt.lines() {
        if line.trim().is_empty() {
            continue;
        }
        let p: Prog = serde_json::from_str(line).expect("parse program");
        let name = p.name.clone();
        match std::panic::catch_unwind(|| run_prog(&p)) {
            Ok(lines) => {
                for l in lines {
                    writeln!(out, "{}", l).unwrap();
                }
            }
            Err(_) => {
                panics += 1;
                writeln!(out, "{}", json!({"t": "cfg", "name": name, "mode": "A", "real": {"c": false, "s": false}, "c": {}, "s": {}, "peer": {}, "coop": false, "seed": 0})).unwrap();
                writeln!(out, "{}", json!({"t": "panic", "ep": "", "task": "driver", "msg": "panic in httpsend"})).unwrap();
            }
        }
        n += 1;
    }
    eprintln!("SUMMARY programs={} panics={}", n, panics);
}
