//! C12 harness: drives the REAL `h2::Codec` as a Sink (poll_ready / buffer / flush) and as a
//! Stream (poll_next) over an in-memory transport with scripted chunking, single-threaded, with a
//! no-op waker.  It only drives the implementation and records what it did; every verdict is taken
//! by TLC (spec/trace/Trace_Codec.tla) from the recorded ndjson.
//!
//!   codec vectors <vectors.ndjson> <out.ndjson>     TLC reference vectors (spec/mc/MC_FrameLayout)
//!   codec io      <cases.ndjson>   <out.ndjson>     staging / chunking cases (TLC-exported IoChunk schedules
//!                                                   and seeded ones written by the engine)
//!   codec oversize <cases.ndjson>  <out.ndjson>     frames longer than the configured max recv size
//!
//! The independent reference on the harness side is h2sim::wire (frame splitter, RFC 7541 reference).

use bytes::Bytes;
use futures_core::Stream;
use h2::frame::{self, Frame, Reason, StreamId};
use h2::Codec;
use h2sim::wire::{self, RefTable, Splitter};
use serde_json::{json, Map, Value};
use std::collections::VecDeque;
use std::io::{self, BufRead, Write};
use std::pin::Pin;
use std::sync::Arc;
use std::task::{Context, Poll, Wake, Waker};
use tokio::io::{AsyncRead, AsyncWrite, ReadBuf};

// ------------------------------------------------------------------------------------------------
// scripted transport

#[derive(Clone, Copy, Debug, PartialEq)]
enum Step {
    N(usize), // accept / deliver at most n bytes
    All,
    Pending,
    Zero, // write side only: Ok(0)
}

fn step_json(s: &Step) -> Value {
    match s {
        Step::N(n) => json!(n),
        Step::All => json!("all"),
        Step::Pending => json!("P"),
        Step::Zero => json!("Z"),
    }
}
fn step_of(v: &Value) -> Step {
    match v {
        Value::Number(n) => Step::N(n.as_u64().unwrap() as usize),
        Value::String(s) if s == "all" => Step::All,
        Value::String(s) if s == "P" => Step::Pending,
        Value::String(s) if s == "Z" => Step::Zero,
        _ => panic!("bad step {v}"),
    }
}

struct ScriptIo {
    vectored: bool,
    // write side
    wscript: VecDeque<Step>,
    written: Vec<u8>,
    wcalls: Vec<(usize, i64)>, // (offered, accepted | -1 pending)
    flushes: usize,
    // read side
    rdata: Vec<u8>,
    rpos: usize,
    rscript: VecDeque<Step>,
    rcalls: usize,
    rpending: usize,
    max_read_cap: usize,
}

impl ScriptIo {
    fn new(vectored: bool) -> ScriptIo {
        ScriptIo {
            vectored,
            wscript: VecDeque::new(),
            written: vec![],
            wcalls: vec![],
            flushes: 0,
            rdata: vec![],
            rpos: 0,
            rscript: VecDeque::new(),
            rcalls: 0,
            rpending: 0,
            max_read_cap: 0,
        }
    }
    fn accept(&mut self, offered: usize) -> Poll<usize> {
        let st = self.wscript.pop_front().unwrap_or(Step::All);
        let r = match st {
            Step::Pending => {
                self.wcalls.push((offered, -1));
                return Poll::Pending;
            }
            Step::Zero => 0,
            Step::All => offered,
            Step::N(n) => n.min(offered),
        };
        self.wcalls.push((offered, r as i64));
        Poll::Ready(r)
    }
}

impl AsyncWrite for ScriptIo {
    fn poll_write(mut self: Pin<&mut Self>, _cx: &mut Context<'_>, buf: &[u8]) -> Poll<io::Result<usize>> {
        match self.accept(buf.len()) {
            Poll::Pending => Poll::Pending,
            Poll::Ready(n) => {
                self.written.extend_from_slice(&buf[..n]);
                Poll::Ready(Ok(n))
            }
        }
    }
    fn poll_write_vectored(mut self: Pin<&mut Self>, _cx: &mut Context<'_>, bufs: &[io::IoSlice<'_>]) -> Poll<io::Result<usize>> {
        let offered: usize = bufs.iter().map(|b| b.len()).sum();
        match self.accept(offered) {
            Poll::Pending => Poll::Pending,
            Poll::Ready(n) => {
                let mut left = n;
                for b in bufs {
                    let k = left.min(b.len());
                    self.written.extend_from_slice(&b[..k]);
                    left -= k;
                    if left == 0 {
                        break;
                    }
                }
                Poll::Ready(Ok(n))
            }
        }
    }
    fn is_write_vectored(&self) -> bool {
        self.vectored
    }
    fn poll_flush(mut self: Pin<&mut Self>, _cx: &mut Context<'_>) -> Poll<io::Result<()>> {
        self.flushes += 1;
        Poll::Ready(Ok(()))
    }
    fn poll_shutdown(self: Pin<&mut Self>, _cx: &mut Context<'_>) -> Poll<io::Result<()>> {
        Poll::Ready(Ok(()))
    }
}

impl AsyncRead for ScriptIo {
    fn poll_read(mut self: Pin<&mut Self>, _cx: &mut Context<'_>, buf: &mut ReadBuf<'_>) -> Poll<io::Result<()>> {
        self.rcalls += 1;
        self.max_read_cap = self.max_read_cap.max(buf.remaining());
        let avail = self.rdata.len() - self.rpos;
        let st = self.rscript.pop_front().unwrap_or(Step::All);
        let n = match st {
            Step::Pending => {
                self.rpending += 1;
                return Poll::Pending;
            }
            Step::All | Step::Zero => avail.min(buf.remaining()),
            Step::N(n) => n.min(avail).min(buf.remaining()),
        };
        let p = self.rpos;
        buf.put_slice(&self.rdata[p..p + n]);
        self.rpos += n;
        Poll::Ready(Ok(())) // n == 0 with no data left: EOF
    }
}

struct NoWake;
impl Wake for NoWake {
    fn wake(self: Arc<Self>) {}
}
fn noop_waker() -> Waker {
    Waker::from(Arc::new(NoWake))
}

// ------------------------------------------------------------------------------------------------
// small helpers: 32-bit values as 4-octet arrays (TLC integers are 32-bit signed)

fn b4(v: u32) -> Value {
    json!(v.to_be_bytes())
}
fn u32_of(v: &Value) -> u32 {
    let a = v.as_array().expect("4 octets");
    assert_eq!(a.len(), 4);
    a.iter().fold(0u32, |acc, x| (acc << 8) | x.as_u64().unwrap() as u32)
}
fn bytes_json(b: &[u8]) -> Value {
    Value::Array(b.iter().map(|x| json!(x)).collect())
}
fn bytes_of(v: &Value) -> Vec<u8> {
    v.as_array().map(|a| a.iter().map(|x| x.as_u64().unwrap() as u8).collect()).unwrap_or_default()
}
fn fields_json(f: &[(Vec<u8>, Vec<u8>)]) -> Value {
    Value::Array(f.iter().map(|(n, v)| json!([bytes_json(n), bytes_json(v)])).collect())
}

// ------------------------------------------------------------------------------------------------
// independent payload parser: raw wire::Frame -> abstract wire frame in the vocabulary of
// spec/FrameLayout.tla (written from RFC 9113 section 6, shares nothing with h2)

fn defined_flags(ty: u8) -> u8 {
    match ty {
        wire::DATA => 0x09,
        wire::HEADERS => 0x2d,
        wire::SETTINGS => 0x01,
        wire::PUSH_PROMISE => 0x0c,
        wire::PING => 0x01,
        wire::CONTINUATION => 0x04,
        _ => 0,
    }
}

fn unpad(padded: bool, p: &[u8]) -> Result<(i64, &[u8]), &'static str> {
    if !padded {
        return Ok((-1, p));
    }
    if p.is_empty() {
        return Err("padding");
    }
    let n = p[0] as usize;
    if n > p.len() - 1 {
        return Err("padding");
    }
    Ok((n as i64, &p[1..p.len() - n]))
}

fn abstract_of(f: &wire::Frame) -> Value {
    let err = |why: &str| json!({"type": "ERR", "why": why});
    let r = if f.rbit { 1 } else { 0 };
    let sid = b4(f.sid);
    let p = &f.payload[..];
    if f.ty > 9 {
        return json!({"type": "EXT", "tno": f.ty, "r": r, "sid": sid, "uf": f.flags, "payload": bytes_json(p)});
    }
    let uf = f.flags & !defined_flags(f.ty);
    let fl = f.flags;
    let id31 = |b: &[u8]| -> (u8, Value) {
        let v = u32::from_be_bytes([b[0], b[1], b[2], b[3]]);
        ((v >> 31) as u8, b4(v & 0x7fff_ffff))
    };
    match f.ty {
        wire::DATA => match unpad(fl & 8 != 0, p) {
            Err(e) => err(e),
            Ok((pad, d)) => json!({"type": "DATA", "r": r, "sid": sid, "uf": uf, "es": fl & 1 != 0, "pad": pad, "data": bytes_json(d)}),
        },
        wire::HEADERS => match unpad(fl & 8 != 0, p) {
            Err(e) => err(e),
            Ok((pad, q)) => {
                let (prio, frag) = if fl & 0x20 != 0 {
                    if q.len() < 5 {
                        return err("priority");
                    }
                    let (e, d) = id31(&q[..4]);
                    (json!([e, d, q[4]]), &q[5..])
                } else {
                    (json!([]), q)
                };
                json!({"type": "HEADERS", "r": r, "sid": sid, "uf": uf, "es": fl & 1 != 0, "eh": fl & 4 != 0, "pad": pad,
                       "prio": prio, "frag": bytes_json(frag)})
            }
        },
        wire::PRIORITY => {
            if p.len() != 5 {
                return err("size");
            }
            let (e, d) = id31(&p[..4]);
            json!({"type": "PRIORITY", "r": r, "sid": sid, "uf": uf, "excl": e, "dep": d, "weight": p[4]})
        }
        wire::RST_STREAM => {
            if p.len() != 4 {
                return err("size");
            }
            json!({"type": "RST_STREAM", "r": r, "sid": sid, "uf": uf, "code": bytes_json(p)})
        }
        wire::SETTINGS => {
            if p.len() % 6 != 0 {
                return err("size");
            }
            let ps: Vec<Value> = p.chunks(6).map(|c| json!([((c[0] as u32) << 8) | c[1] as u32, bytes_json(&c[2..6])])).collect();
            json!({"type": "SETTINGS", "r": r, "sid": sid, "uf": uf, "ack": fl & 1 != 0, "params": ps})
        }
        wire::PUSH_PROMISE => match unpad(fl & 8 != 0, p) {
            Err(e) => err(e),
            Ok((pad, q)) => {
                if q.len() < 4 {
                    return err("size");
                }
                let (pr, prom) = id31(&q[..4]);
                json!({"type": "PUSH_PROMISE", "r": r, "sid": sid, "uf": uf, "eh": fl & 4 != 0, "pad": pad, "pr": pr,
                       "promised": prom, "frag": bytes_json(&q[4..])})
            }
        },
        wire::PING => {
            if p.len() != 8 {
                return err("size");
            }
            json!({"type": "PING", "r": r, "sid": sid, "uf": uf, "ack": fl & 1 != 0, "opaque": bytes_json(p)})
        }
        wire::GOAWAY => {
            if p.len() < 8 {
                return err("size");
            }
            let (lr, last) = id31(&p[..4]);
            json!({"type": "GOAWAY", "r": r, "sid": sid, "uf": uf, "lr": lr, "last": last, "code": bytes_json(&p[4..8]),
                   "debug": bytes_json(&p[8..])})
        }
        wire::WINDOW_UPDATE => {
            if p.len() != 4 {
                return err("size");
            }
            let (wr, inc) = id31(p);
            json!({"type": "WINDOW_UPDATE", "r": r, "sid": sid, "uf": uf, "wr": wr, "incr": inc})
        }
        wire::CONTINUATION => json!({"type": "CONTINUATION", "r": r, "sid": sid, "uf": uf, "eh": fl & 4 != 0, "frag": bytes_json(p)}),
        _ => unreachable!(),
    }
}

/// header-block fragments of a raw frame sequence, concatenated per block (independent parser)
fn blocks_of(frames: &[wire::Frame]) -> Vec<Vec<u8>> {
    let mut out: Vec<Vec<u8>> = vec![];
    let mut open = false;
    for f in frames {
        let a = abstract_of(f);
        match f.ty {
            wire::HEADERS | wire::PUSH_PROMISE => {
                out.push(bytes_of(&a["frag"]));
                open = !(f.flags & 4 != 0);
            }
            wire::CONTINUATION if open => {
                let fr = bytes_of(&a["frag"]);
                out.last_mut().unwrap().extend_from_slice(&fr);
                open = !(f.flags & 4 != 0);
            }
            _ => {}
        }
    }
    out
}

// ------------------------------------------------------------------------------------------------
// abstract frame -> h2 frame (Sink side), h2 frame -> logical item (Stream side)

fn pseudo_and_map(fields: &[(Vec<u8>, Vec<u8>)]) -> Result<(frame::Pseudo, http::HeaderMap), String> {
    let mut ps = frame::Pseudo::default();
    let mut map = http::HeaderMap::new();
    for (n, v) in fields {
        let bs = |v: &Vec<u8>| frame::BytesStr::try_from(Bytes::copy_from_slice(v)).map_err(|e| e.to_string());
        match &n[..] {
            b":method" => ps.method = Some(http::Method::from_bytes(v).map_err(|e| e.to_string())?),
            b":scheme" => ps.scheme = Some(bs(v)?),
            b":authority" => ps.authority = Some(bs(v)?),
            b":path" => ps.path = Some(bs(v)?),
            b":status" => ps.status = Some(http::StatusCode::from_bytes(v).map_err(|e| e.to_string())?),
            _ => {
                let name = http::header::HeaderName::from_bytes(n).map_err(|e| e.to_string())?;
                let val = http::header::HeaderValue::from_bytes(v).map_err(|e| e.to_string())?;
                map.append(name, val);
            }
        }
    }
    Ok((ps, map))
}

fn flatten(ps: frame::Pseudo, map: http::HeaderMap) -> Vec<(Vec<u8>, Vec<u8>)> {
    let mut out = vec![];
    if let Some(m) = ps.method {
        out.push((b":method".to_vec(), m.as_str().as_bytes().to_vec()));
    }
    if let Some(s) = ps.scheme {
        out.push((b":scheme".to_vec(), (*s).as_bytes().to_vec()));
    }
    if let Some(s) = ps.authority {
        out.push((b":authority".to_vec(), (*s).as_bytes().to_vec()));
    }
    if let Some(s) = ps.path {
        out.push((b":path".to_vec(), (*s).as_bytes().to_vec()));
    }
    if let Some(s) = ps.protocol {
        out.push((b":protocol".to_vec(), s.as_str().as_bytes().to_vec()));
    }
    if let Some(s) = ps.status {
        out.push((b":status".to_vec(), s.as_str().as_bytes().to_vec()));
    }
    let mut last: Option<http::header::HeaderName> = None;
    for (n, v) in map {
        if let Some(n) = n {
            last = Some(n);
        }
        out.push((last.as_ref().unwrap().as_str().as_bytes().to_vec(), v.as_bytes().to_vec()));
    }
    out
}

/// Build the h2 frame for an abstract frame that MC_FrameLayout marked `buildable`.
fn build_h2(a: &Value) -> Result<Frame<Bytes>, String> {
    let ty = a["type"].as_str().unwrap();
    let sid = || StreamId::from(u32_of(&a["sid"]));
    Ok(match ty {
        "DATA" => {
            let mut d = frame::Data::new(sid(), Bytes::from(bytes_of(&a["data"])));
            d.set_end_stream(a["es"].as_bool().unwrap());
            d.into()
        }
        "HEADERS" => {
            let fields = RefTable::new(4096).decode(&bytes_of(&a["frag"])).map_err(|e| format!("{e:?}"))?;
            let (ps, map) = pseudo_and_map(&fields)?;
            let mut h = frame::Headers::new(sid(), ps, map);
            if a["es"].as_bool().unwrap() {
                h.set_end_stream();
            }
            h.into()
        }
        "PUSH_PROMISE" => {
            let fields = RefTable::new(4096).decode(&bytes_of(&a["frag"])).map_err(|e| format!("{e:?}"))?;
            let (ps, map) = pseudo_and_map(&fields)?;
            frame::PushPromise::new(sid(), StreamId::from(u32_of(&a["promised"])), ps, map).into()
        }
        "RST_STREAM" => frame::Reset::new(sid(), Reason::from(u32_of(&a["code"]))).into(),
        "SETTINGS" => {
            if a["ack"].as_bool().unwrap() {
                frame::Settings::ack().into()
            } else {
                let mut s = frame::Settings::default();
                for p in a["params"].as_array().unwrap() {
                    let id = p[0].as_u64().unwrap();
                    let v = u32_of(&p[1]);
                    match id {
                        1 => s.set_header_table_size(Some(v)),
                        2 => s.set_enable_push(v != 0),
                        3 => s.set_max_concurrent_streams(Some(v)),
                        4 => s.set_initial_window_size(Some(v)),
                        5 => s.set_max_frame_size(Some(v)),
                        6 => s.set_max_header_list_size(Some(v)),
                        8 => s.set_enable_connect_protocol(Some(v)),
                        _ => return Err(format!("setting {id} not buildable")),
                    }
                }
                s.into()
            }
        }
        "PING" => {
            let mut pl = [0u8; 8];
            pl.copy_from_slice(&bytes_of(&a["opaque"]));
            if a["ack"].as_bool().unwrap() {
                frame::Ping::pong(pl).into()
            } else {
                frame::Ping::new(pl).into()
            }
        }
        "GOAWAY" => frame::GoAway::with_debug_data(
            StreamId::from(u32_of(&a["last"])),
            Reason::from(u32_of(&a["code"])),
            Bytes::from(bytes_of(&a["debug"])),
        )
        .into(),
        "WINDOW_UPDATE" => frame::WindowUpdate::new(sid(), u32_of(&a["incr"])).into(),
        t => return Err(format!("type {t} not buildable through the Codec API")),
    })
}

fn dbg_num(s: &str, key: &str) -> Option<u64> {
    let i = s.find(key)? + key.len();
    let rest = &s[i..];
    let digits: String = rest.chars().skip_while(|c| !c.is_ascii_digit()).take_while(|c| c.is_ascii_digit()).collect();
    digits.parse().ok()
}
/// StreamDependency is only observable through Debug (no accessors for weight / exclusive)
fn dbg_dep(s: &str) -> Option<Value> {
    let i = s.find("StreamDependency")?;
    let t = &s[i..];
    let dep = dbg_num(t, "dependency_id:")?;
    let w = dbg_num(t, "weight:")?;
    let j = t.find("is_exclusive:")? + "is_exclusive:".len();
    let ex = t[j..].trim_start().starts_with("true");
    Some(json!([if ex { 1 } else { 0 }, b4(dep as u32), w]))
}

/// `big`: summarise DATA payloads / header fields instead of listing octets
fn logical_of(f: Frame<Bytes>, big: Option<&dyn Fn(&str, u32, &[u8], &[(Vec<u8>, Vec<u8>)]) -> Value>) -> Value {
    let dbg = format!("{f:?}");
    match f {
        Frame::Data(d) => {
            let pad: Value = if d.is_padded() {
                match dbg_num(&dbg, "pad_len:") {
                    Some(n) => json!(n),
                    None => json!("unobs"),
                }
            } else {
                json!(-1)
            };
            let sid: u32 = d.stream_id().into();
            let mut o = json!({"type": "DATA", "sid": b4(sid), "es": d.is_end_stream(), "pad": pad});
            match big {
                Some(s) => o["sum"] = s("DATA", sid, &d.payload()[..], &[]),
                None => o["data"] = bytes_json(&d.payload()[..]),
            }
            o
        }
        Frame::Headers(h) => {
            let sid: u32 = h.stream_id().into();
            let es = h.is_end_stream();
            let prio = if dbg.contains("stream_dep") {
                dbg_dep(&dbg).unwrap_or(json!("unobs"))
            } else if dbg.contains("PRIORITY") {
                json!("unobs")
            } else {
                json!([])
            };
            let (ps, map) = h.into_parts();
            let fl = flatten(ps, map);
            let mut o = json!({"type": "HEADERS", "sid": b4(sid), "es": es, "prio": prio});
            match big {
                Some(s) => o["sum"] = s("HEADERS", sid, &[], &fl),
                None => o["fields"] = fields_json(&fl),
            }
            o
        }
        Frame::Priority(_) => {
            let sid = dbg_num(&dbg, "stream_id:").map(|v| b4(v as u32)).unwrap_or(json!("unobs"));
            json!({"type": "PRIORITY", "sid": sid, "prio": dbg_dep(&dbg).unwrap_or(json!("unobs"))})
        }
        Frame::PushPromise(p) => {
            let sid: u32 = p.stream_id().into();
            let prom: u32 = p.promised_id().into();
            let (ps, map) = p.into_parts();
            let fl = flatten(ps, map);
            let mut o = json!({"type": "PUSH_PROMISE", "sid": b4(sid), "promised": b4(prom)});
            match big {
                Some(s) => o["sum"] = s("PUSH_PROMISE", sid, &[], &fl),
                None => o["fields"] = fields_json(&fl),
            }
            o
        }
        Frame::Settings(s) => {
            let mut view = vec![];
            if let Some(v) = s.header_table_size() {
                view.push(json!([1, b4(v)]));
            }
            if let Some(v) = s.is_push_enabled() {
                view.push(json!([2, b4(v as u32)]));
            }
            if let Some(v) = s.max_concurrent_streams() {
                view.push(json!([3, b4(v)]));
            }
            if let Some(v) = s.initial_window_size() {
                view.push(json!([4, b4(v)]));
            }
            if let Some(v) = s.max_frame_size() {
                view.push(json!([5, b4(v)]));
            }
            if let Some(v) = s.max_header_list_size() {
                view.push(json!([6, b4(v)]));
            }
            json!({"type": "SETTINGS", "ack": s.is_ack(), "view": view})
        }
        Frame::Ping(p) => json!({"type": "PING", "ack": p.is_ack(), "opaque": bytes_json(p.payload())}),
        Frame::GoAway(g) => {
            let last: u32 = g.last_stream_id().into();
            let code: u32 = g.reason().into();
            json!({"type": "GOAWAY", "last": b4(last), "code": b4(code), "debug": bytes_json(&g.debug_data()[..])})
        }
        Frame::WindowUpdate(w) => {
            let sid: u32 = w.stream_id().into();
            json!({"type": "WINDOW_UPDATE", "sid": b4(sid), "incr": b4(w.size_increment())})
        }
        Frame::Reset(r) => {
            let sid: u32 = r.stream_id().into();
            let code: u32 = r.reason().into();
            json!({"type": "RST_STREAM", "sid": b4(sid), "code": b4(code)})
        }
    }
}

fn err_json(e: &h2::proto::Error) -> Value {
    match e {
        h2::proto::Error::Reset(id, reason, init) => {
            let id: u32 = (*id).into();
            let c: u32 = (*reason).into();
            json!({"kind": "Reset", "sid": b4(id), "reason": c, "initiator": format!("{init:?}")})
        }
        h2::proto::Error::GoAway(_, reason, init) => {
            let c: u32 = (*reason).into();
            json!({"kind": "GoAway", "reason": c, "initiator": format!("{init:?}")})
        }
        h2::proto::Error::Io(kind, _) => json!({"kind": "Io", "io": format!("{kind:?}")}),
    }
}

// ------------------------------------------------------------------------------------------------
// drivers

type C = Codec<ScriptIo, Bytes>;

/// Read everything the codec yields from `bytes` under `script`.
/// Returns (logical items, end, consumed-at-each-item, io stats)
struct ReadOut {
    items: Vec<Value>,
    end: Value, // "eof" | {"err":..} | "stuck"
    consumed_at_end: usize,
    rcalls: usize,
    max_read_cap: usize,
}

fn run_read(
    bytes: &[u8],
    script: &[Step],
    max_recv: Option<usize>,
    big: Option<&dyn Fn(&str, u32, &[u8], &[(Vec<u8>, Vec<u8>)]) -> Value>,
) -> ReadOut {
    let mut io = ScriptIo::new(false);
    io.rdata = bytes.to_vec();
    io.rscript = script.iter().cloned().collect();
    let mut codec: C = Codec::new(io);
    if let Some(m) = max_recv {
        codec.set_max_recv_frame_size(m);
    }
    let waker = noop_waker();
    let mut cx = Context::from_waker(&waker);
    let mut items = vec![];
    let mut polls = 0usize;
    let limit = 4 * bytes.len() + script.len() + 64;
    let end = loop {
        polls += 1;
        if polls > limit {
            break json!("stuck");
        }
        match Pin::new(&mut codec).poll_next(&mut cx) {
            Poll::Pending => continue,
            Poll::Ready(None) => break json!("eof"),
            Poll::Ready(Some(Ok(f))) => items.push(logical_of(f, big)),
            Poll::Ready(Some(Err(e))) => break json!({"err": err_json(&e)}),
        }
    };
    let io = codec.get_ref();
    ReadOut { items, end, consumed_at_end: io.rpos, rcalls: io.rcalls, max_read_cap: io.max_read_cap }
}

/// Send one frame through a fresh codec under a write script; flush to completion.
fn run_write_one(f: Frame<Bytes>, script: &[Step], vectored: bool) -> Result<Vec<u8>, String> {
    let mut io = ScriptIo::new(vectored);
    io.wscript = script.iter().cloned().collect();
    let mut codec: C = Codec::new(io);
    let waker = noop_waker();
    let mut cx = Context::from_waker(&waker);
    match codec.poll_ready(&mut cx) {
        Poll::Ready(Ok(())) => {}
        other => return Err(format!("poll_ready: {other:?}")),
    }
    codec.buffer(f).map_err(|e| format!("buffer: {e:?}"))?;
    let mut polls = 0;
    loop {
        polls += 1;
        if polls > 100_000 {
            return Err("flush does not terminate".into());
        }
        match codec.flush(&mut cx) {
            Poll::Pending => continue,
            Poll::Ready(Ok(())) => break,
            Poll::Ready(Err(e)) => return Err(format!("flush: {e:?}")),
        }
    }
    Ok(std::mem::take(&mut codec.get_mut().written))
}

fn read_lines(path: &str) -> Vec<Value> {
    let f = std::fs::File::open(path).unwrap_or_else(|e| panic!("open {path}: {e}"));
    io::BufReader::new(f)
        .lines()
        .map(|l| l.unwrap())
        .filter(|l| !l.trim().is_empty())
        .map(|l| serde_json::from_str(&l).expect("json line"))
        .collect()
}

/// distinct values with multiplicity and one example tag
struct Distinct {
    seen: Vec<(String, Value, usize, Value)>,
}
impl Distinct {
    fn new() -> Self {
        Distinct { seen: vec![] }
    }
    fn add(&mut self, v: Value, example: Value) {
        let k = v.to_string();
        if let Some(e) = self.seen.iter_mut().find(|e| e.0 == k) {
            e.2 += 1;
        } else {
            self.seen.push((k, v, 1, example));
        }
    }
    fn json(self) -> Value {
        Value::Array(
            self.seen
                .into_iter()
                .map(|(_, mut v, n, ex)| {
                    v["n"] = json!(n);
                    v["ex"] = ex;
                    v
                })
                .collect(),
        )
    }
}

fn read_scripts(len: usize) -> Vec<Vec<Step>> {
    let mut out = vec![vec![Step::All]];
    // every split point
    for s in 1..len {
        out.push(vec![Step::N(s), Step::All]);
    }
    // every split point with Pending at the cut
    for s in 1..len {
        out.push(vec![Step::N(s), Step::Pending, Step::All]);
    }
    // one octet at a time, Pending between any two octets
    let mut one = vec![];
    for _ in 0..len {
        one.push(Step::N(1));
        one.push(Step::Pending);
    }
    out.push(one);
    out.push((0..len).map(|_| Step::N(1)).collect());
    out.push((0..len).map(|_| Step::N(2)).collect());
    out.push((0..len).map(|_| Step::N(3)).collect());
    out
}

fn mode_vectors(inp: &str, outp: &str) {
    let cases = read_lines(inp);
    let mut out = io::BufWriter::new(std::fs::File::create(outp).unwrap());
    let mut execs = 0usize;
    for (i, c) in cases.iter().enumerate() {
        let frames = c["frames"].as_array().unwrap();
        let refbytes = bytes_of(&c["bytes"]);
        // ---- Sink side
        let mut w = Distinct::new();
        if c["buildable"].as_bool().unwrap() {
            let one_by_one: Vec<Step> = (0..64).flat_map(|_| [Step::N(1), Step::Pending]).collect();
            let scripts: Vec<(Vec<Step>, bool, &str)> = vec![
                (vec![Step::All], false, "all"),
                (vec![Step::All], true, "all/vectored"),
                (one_by_one, false, "1,P,1,P.."),
                (vec![Step::N(2), Step::N(7), Step::Pending, Step::N(1)], true, "2,7,P,1/vectored"),
            ];
            for (sc, vect, name) in scripts {
                execs += 1;
                let res = build_h2(&frames[0]).and_then(|f| run_write_one(f, &sc, vect));
                let v = match res {
                    Err(e) => json!({"err": e, "bytes": [], "parsed": [], "fields": []}),
                    Ok(bytes) => {
                        let mut sp = Splitter::new(false);
                        let raw = sp.push(&bytes);
                        let parsed: Vec<Value> = raw.iter().map(abstract_of).collect();
                        let fields: Vec<Value> = blocks_of(&raw)
                            .iter()
                            .map(|b| match RefTable::new(4096).decode(b) {
                                Ok(f) => fields_json(&f),
                                Err(e) => json!(format!("{e:?}")),
                            })
                            .collect();
                        json!({"err": "", "bytes": bytes_json(&bytes), "parsed": parsed, "fields": fields, "trailing": sp.pending()})
                    }
                };
                w.add(v, json!(name));
            }
        }
        // ---- Stream side: the TLC reference octets under every chunking
        let mut r = Distinct::new();
        let scripts = read_scripts(refbytes.len());
        let nscripts = scripts.len();
        for sc in scripts {
            execs += 1;
            let o = run_read(&refbytes, &sc, None, None);
            let ex: Vec<Value> = sc.iter().take(6).map(step_json).collect();
            r.add(json!({"items": o.items, "end": o.end, "left": refbytes.len() - o.consumed_at_end}), Value::Array(ex));
        }
        let rec = json!({"t": "vec", "id": i + 1, "frames": frames, "refbytes": c["bytes"], "buildable": c["buildable"],
                         "exact": c["exact"], "w": w.json(), "r": r.json(), "chunkings": nscripts});
        writeln!(out, "{rec}").unwrap();
    }
    out.flush().unwrap();
    println!("SUMMARY mode=vectors cases={} executions={}", cases.len(), execs);
}

fn main() {
    let args: Vec<String> = std::env::args().collect();
    if args.len() < 4 {
        eprintln!("usage: codec <vectors|io|oversize> <in.ndjson> <out.ndjson>");
        std::process::exit(2);
    }
    let _ = Map::<String, Value>::new();
    match args[1].as_str() {
        "vectors" => mode_vectors(&args[2], &args[3]),
        m => {
            eprintln!("unknown mode {m}");
            std::process::exit(2);
        }
    }
}
