//! C12 harness: drives the REAL `h2::Codec` as a Sink (poll_ready / buffer / flush) and as a
//! Stream (poll_next) over an in-memory transport with scripted chunking, single-threaded, with a
//! no-op waker.  It only drives the implementation and records what it did; every verdict is taken
//! by TLC (spec/trace/Trace_Codec.tla) from the recorded ndjson.
//!
//!   codec vectors <vectors.ndjson> <out.ndjson>     TLC reference vectors (spec/mc/MC_FrameLayout)
//!   codec io      <cases.ndjson>   <out.ndjson>     staging / chunking cases (TLC-exported IoChunk schedules
//!                                                   and seeded ones written by the engine)
//!   codec oversize <cases.ndjson>  <out.ndjson>     frames longer than the configured max recv size
//!
//! The independent reference on the harness side is h2sim::wire (frame splitter, RFC 7541 reference).

use bytes::Bytes;
use futures_core::Stream;
use h2::frame::{self, Frame, Reason, StreamId};
use h2::Codec;
use h2sim::wire::{self, RefTable, Splitter};
use serde_json::{json, Map, Value};
use std::collections::VecDeque;
use std::io::{self, BufRead, Write};
use std::pin::Pin;
use std::sync::Arc;
use std::task::{Context, Poll, Wake, Waker};
use tokio::io::{AsyncRead, AsyncWrite, ReadBuf};

// ------------------------------------------------------------------------------------------------
// scripted transport

#[derive(Clone, Copy, Debug, PartialEq)]
enum Step {
    N(usize), // accept / deliver at most n bytes
    All,
    Pending,
    Zero, // write side only: Ok(0)
}

fn step_json(s: &Step) -> Value {
    match s {
        Step::N(n) => json!(n),
        Step::All => json!("all"),
        Step::Pending => json!("P"),
        Step::Zero => json!("Z"),
    }
}
fn step_of(v: &Value) -> Step {
    match v {
        Value::Number(n) => Step::N(n.as_u64().unwrap() as usize),
        Value::String(s) if s == "all" => Step::All,
        Value::String(s) if s == "P" => Step::Pending,
        Value::String(s) if s == "Z" => Step::Zero,
        _ => panic!("bad step {v}"),
    }
}

struct ScriptIo {
    vectored: bool,
    // write side
    wscript: VecDeque<Step>,
    written: Vec<u8>,
    wcalls: Vec<(usize, i64)>, // (offered, accepted | -1 pending)
    flushes: usize,
    // read side
    rdata: Vec<u8>,
    rpos: usize,
    rscript: VecDeque<Step>,
    rcalls: usize,
    rpending: usize,
    max_read_cap: usize,
}

impl ScriptIo {
    fn new(vectored: bool) -> ScriptIo {
        ScriptIo {
            vectored,
            wscript: VecDeque::new(),
            written: vec![],
            wcalls: vec![],
            flushes: 0,
            rdata: vec![],
            rpos: 0,
            rscript: VecDeque::new(),
            rcalls: 0,
            rpending: 0,
            max_read_cap: 0,
        }
    }
    fn accept(&mut self, offered: usize) -> Poll<usize> {
        let st = self.wscript.pop_front().unwrap_or(Step::All);
        let r = match st {
            Step::Pending => {
                self.wcalls.push((offered, -1));
                return Poll::Pending;
            }
            Step::Zero => 0,
            Step::All => offered,
            Step::N(n) => n.min(offered),
        };
        self.wcalls.push((offered, r as i64));
        Poll::Ready(r)
    }
}

impl AsyncWrite for ScriptIo {
    fn poll_write(mut self: Pin<&mut Self>, _cx: &mut Context<'_>, buf: &[u8]) -> Poll<io::Result<usize>> {
        match self.accept(buf.len()) {
            Poll::Pending => Poll::Pending,
            Poll::Ready(n) => {
                self.written.extend_from_slice(&buf[..n]);
                Poll::Ready(Ok(n))
            }
        }
    }
    fn poll_write_vectored(mut self: Pin<&mut Self>, _cx: &mut Context<'_>, bufs: &[io::IoSlice<'_>]) -> Poll<io::Result<usize>> {
        let offered: usize = bufs.iter().map(|b| b.len()).sum();
        match self.accept(offered) {
            Poll::Pending => Poll::Pending,
            Poll::Ready(n) => {
                let mut left = n;
                for b in bufs {
                    let k = left.min(b.len());
                    self.written.extend_from_slice(&b[..k]);
                    left -= k;
                    if left == 0 {
                        break;
                    }
                }
                Poll::Ready(Ok(n))
            }
        }
    }
    fn is_write_vectored(&self) -> bool {
        self.vectored
    }
    fn poll_flush(mut self: Pin<&mut Self>, _cx: &mut Context<'_>) -> Poll<io::Result<()>> {
        self.flushes += 1;
        Poll::Ready(Ok(()))
    }
    fn poll_shutdown(self: Pin<&mut Self>, _cx: &mut Context<'_>) -> Poll<io::Result<()>> {
        Poll::Ready(Ok(()))
    }
}

impl AsyncRead for ScriptIo {
    fn poll_read(mut self: Pin<&mut Self>, _cx: &mut Context<'_>, buf: &mut ReadBuf<'_>) -> Poll<io::Result<()>> {
        self.rcalls += 1;
        self.max_read_cap = self.max_read_cap.max(buf.remaining());
        let avail = self.rdata.len() - self.rpos;
        let st = self.rscript.pop_front().unwrap_or(Step::All);
        let n = match st {
            Step::Pending => {
                self.rpending += 1;
                return Poll::Pending;
            }
            Step::All | Step::Zero => avail.min(buf.remaining()),
            Step::N(n) => n.min(avail).min(buf.remaining()),
        };
        let p = self.rpos;
        buf.put_slice(&self.rdata[p..p + n]);
        self.rpos += n;
        Poll::Ready(Ok(())) // n == 0 with no data left: EOF
    }
}

struct NoWake;
impl Wake for NoWake {
    fn wake(self: Arc<Self>) {}
}
fn noop_waker() -> Waker {
    Waker::from(Arc::new(NoWake))
}

// ------------------------------------------------------------------------------------------------
// small helpers: 32-bit values as 4-octet arrays (TLC integers are 32-bit signed)

fn b4(v: u32) -> Value {
    json!(v.to_be_bytes())
}
fn u32_of(v: &Value) -> u32 {
    let a = v.as_array().expect("4 octets");
    assert_eq!(a.len(), 4);
    a.iter().fold(0u32, |acc, x| (acc << 8) | x.as_u64().unwrap() as u32)
}
fn bytes_json(b: &[u8]) -> Value {
    Value::Array(b.iter().map(|x| json!(x)).collect())
}
fn bytes_of(v: &Value) -> Vec<u8> {
    v.as_array().map(|a| a.iter().map(|x| x.as_u64().unwrap() as u8).collect()).unwrap_or_default()
}
fn fields_json(f: &[(Vec<u8>, Vec<u8>)]) -> Value {
    Value::Array(f.iter().map(|(n, v)| json!([bytes_json(n), bytes_json(v)])).collect())
}

// ------------------------------------------------------------------------------------------------
// independent payload parser: raw wire::Frame -> abstract wire frame in the vocabulary of
// spec/FrameLayout.tla (written from RFC 9113 section 6, shares nothing with h2)

fn defined_flags(ty: u8) -> u8 {
    match ty {
        wire::DATA => 0x09,
        wire::HEADERS => 0x2d,
        wire::SETTINGS => 0x01,
        wire::PUSH_PROMISE => 0x0c,
        wire::PING => 0x01,
        wire::CONTINUATION => 0x04,
        _ => 0,
    }
}

fn unpad(padded: bool, p: &[u8]) -> Result<(i64, &[u8]), &'static str> {
    if !padded {
        return Ok((-1, p));
    }
    if p.is_empty() {
        return Err("padding");
    }
    let n = p[0] as usize;
    if n > p.len() - 1 {
        return Err("padding");
    }
    Ok((n as i64, &p[1..p.len() - n]))
}

fn abstract_of(f: &wire::Frame) -> Value {
    let err = |why: &str| json!({"type": "ERR", "why": why});
    let r = if f.rbit { 1 } else { 0 };
    let sid = b4(f.sid);
    let p = &f.payload[..];
    if f.ty > 9 {
        return json!({"type": "EXT", "tno": f.ty, "r": r, "sid": sid, "uf": f.flags, "payload": bytes_json(p)});
    }
    let uf = f.flags & !defined_flags(f.ty);
    let fl = f.flags;
    let id31 = |b: &[u8]| -> (u8, Value) {
        let v = u32::from_be_bytes([b[0], b[1], b[2], b[3]]);
        ((v >> 31) as u8, b4(v & 0x7fff_ffff))
    };
    match f.ty {
        wire::DATA => match unpad(fl & 8 != 0, p) {
            Err(e) => err(e),
            Ok((pad, d)) => json!({"type": "DATA", "r": r, "sid": sid, "uf": uf, "es": fl & 1 != 0, "pad": pad, "data": bytes_json(d)}),
        },
        wire::HEADERS => match unpad(fl & 8 != 0, p) {
            Err(e) => err(e),
            Ok((pad, q)) => {
                let (prio, frag) = if fl & 0x20 != 0 {
                    if q.len() < 5 {
                        return err("priority");
                    }
                    let (e, d) = id31(&q[..4]);
                    (json!([e, d, q[4]]), &q[5..])
                } else {
                    (json!([]), q)
                };
                json!({"type": "HEADERS", "r": r, "sid": sid, "uf": uf, "es": fl & 1 != 0, "eh": fl & 4 != 0, "pad": pad,
                       "prio": prio, "frag": bytes_json(frag)})
            }
        },
        wire::PRIORITY => {
            if p.len() != 5 {
                return err("size");
            }
            let (e, d) = id31(&p[..4]);
            json!({"type": "PRIORITY", "r": r, "sid": sid, "uf": uf, "excl": e, "dep": d, "weight": p[4]})
        }
        wire::RST_STREAM => {
            if p.len() != 4 {
                return err("size");
            }
            json!({"type": "RST_STREAM", "r": r, "sid": sid, "uf": uf, "code": bytes_json(p)})
        }
        wire::SETTINGS => {
            if p.len() % 6 != 0 {
                return err("size");
            }
            let ps: Vec<Value> = p.chunks(6).map(|c| json!([((c[0] as u32) << 8) | c[1] as u32, bytes_json(&c[2..6])])).collect();
            json!({"type": "SETTINGS", "r": r, "sid": sid, "uf": uf, "ack": fl & 1 != 0, "params": ps})
        }
        wire::PUSH_PROMISE => match unpad(fl & 8 != 0, p) {
            Err(e) => err(e),
            Ok((pad, q)) => {
                if q.len() < 4 {
                    return err("size");
                }
                let (pr, prom) = id31(&q[..4]);
                json!({"type": "PUSH_PROMISE", "r": r, "sid": sid, "uf": uf, "eh": fl & 4 != 0, "pad": pad, "pr": pr,
                       "promised": prom, "frag": bytes_json(&q[4..])})
            }
        },
        wire::PING => {
            if p.len() != 8 {
                return err("size");
            }
            json!({"type": "PING", "r": r, "sid": sid, "uf": uf, "ack": fl & 1 != 0, "opaque": bytes_json(p)})
        }
        wire::GOAWAY => {
            if p.len() < 8 {
                return err("size");
            }
            let (lr, last) = id31(&p[..4]);
            json!({"type": "GOAWAY", "r": r, "sid": sid, "uf": uf, "lr": lr, "last": last, "code": bytes_json(&p[4..8]),
                   "debug": bytes_json(&p[8..])})
        }
        wire::WINDOW_UPDATE => {
            if p.len() != 4 {
                return err("size");
            }
            let (wr, inc) = id31(p);
            json!({"type": "WINDOW_UPDATE", "r": r, "sid": sid, "uf": uf, "wr": wr, "incr": inc})
        }
        wire::CONTINUATION => json!({"type": "CONTINUATION", "r": r, "sid": sid, "uf": uf, "eh": fl & 4 != 0, "frag": bytes_json(p)}),
        _ => unreachable!(),
    }
}

/// header-block fragments of a raw frame sequence, concatenated per block (independent parser)
fn blocks_of(frames: &[wire::Frame]) -> Vec<Vec<u8>> {
    let mut out: Vec<Vec<u8>> = vec![];
    let mut open = false;
    for f in frames {
        match f.ty {
            wire::HEADERS | wire::PUSH_PROMISE => {
                let mut q = match unpad(f.flags & 8 != 0, &f.payload) {
                    Ok((_, q)) => q,
                    Err(_) => &[][..],
                };
                let skip = if f.ty == wire::PUSH_PROMISE { 4 } else if f.flags & 0x20 != 0 { 5 } else { 0 };
                q = if q.len() >= skip { &q[skip..] } else { &[][..] };
                out.push(q.to_vec());
                open = f.flags & 4 == 0;
            }
            wire::CONTINUATION if open => {
                out.last_mut().unwrap().extend_from_slice(&f.payload);
                open = f.flags & 4 == 0;
            }
            _ => {}
        }
    }
    out
}

// ------------------------------------------------------------------------------------------------
// abstract frame -> h2 frame (Sink side), h2 frame -> logical item (Stream side)

fn pseudo_and_map(fields: &[(Vec<u8>, Vec<u8>)]) -> Result<(frame::Pseudo, http::HeaderMap), String> {
    let mut ps = frame::Pseudo::default();
    let mut map = http::HeaderMap::new();
    for (n, v) in fields {
        let bs = |v: &Vec<u8>| frame::BytesStr::try_from(Bytes::copy_from_slice(v)).map_err(|e| e.to_string());
        match &n[..] {
            b":method" => ps.method = Some(http::Method::from_bytes(v).map_err(|e| e.to_string())?),
            b":scheme" => ps.scheme = Some(bs(v)?),
            b":authority" => ps.authority = Some(bs(v)?),
            b":path" => ps.path = Some(bs(v)?),
            b":status" => ps.status = Some(http::StatusCode::from_bytes(v).map_err(|e| e.to_string())?),
            _ => {
                let name = http::header::HeaderName::from_bytes(n).map_err(|e| e.to_string())?;
                let val = http::header::HeaderValue::from_bytes(v).map_err(|e| e.to_string())?;
                map.append(name, val);
            }
        }
    }
    Ok((ps, map))
}

fn flatten(ps: frame::Pseudo, map: http::HeaderMap) -> Vec<(Vec<u8>, Vec<u8>)> {
    let mut out = vec![];
    if let Some(m) = ps.method {
        out.push((b":method".to_vec(), m.as_str().as_bytes().to_vec()));
    }
    if let Some(s) = ps.scheme {
        out.push((b":scheme".to_vec(), (*s).as_bytes().to_vec()));
    }
    if let Some(s) = ps.authority {
        out.push((b":authority".to_vec(), (*s).as_bytes().to_vec()));
    }
    if let Some(s) = ps.path {
        out.push((b":path".to_vec(), (*s).as_bytes().to_vec()));
    }
    if let Some(s) = ps.protocol {
        out.push((b":protocol".to_vec(), s.as_str().as_bytes().to_vec()));
    }
    if let Some(s) = ps.status {
        out.push((b":status".to_vec(), s.as_str().as_bytes().to_vec()));
    }
    let mut last: Option<http::header::HeaderName> = None;
    for (n, v) in map {
        if let Some(n) = n {
            last = Some(n);
        }
        out.push((last.as_ref().unwrap().as_str().as_bytes().to_vec(), v.as_bytes().to_vec()));
    }
    out
}

/// Build the h2 frame for an abstract frame that MC_FrameLayout marked `buildable`.
fn build_h2(a: &Value) -> Result<Frame<Bytes>, String> {
    let ty = a["type"].as_str().unwrap();
    let sid = || StreamId::from(u32_of(&a["sid"]));
    Ok(match ty {
        "DATA" => {
            let mut d = frame::Data::new(sid(), Bytes::from(bytes_of(&a["data"])));
            d.set_end_stream(a["es"].as_bool().unwrap());
            d.into()
        }
        "HEADERS" => {
            let fields = RefTable::new(4096).decode(&bytes_of(&a["frag"])).map_err(|e| format!("{e:?}"))?;
            let (ps, map) = pseudo_and_map(&fields)?;
            let mut h = frame::Headers::new(sid(), ps, map);
            if a["es"].as_bool().unwrap() {
                h.set_end_stream();
            }
            h.into()
        }
        "PUSH_PROMISE" => {
            let fields = RefTable::new(4096).decode(&bytes_of(&a["frag"])).map_err(|e| format!("{e:?}"))?;
            let (ps, map) = pseudo_and_map(&fields)?;
            frame::PushPromise::new(sid(), StreamId::from(u32_of(&a["promised"])), ps, map).into()
        }
        "RST_STREAM" => frame::Reset::new(sid(), Reason::from(u32_of(&a["code"]))).into(),
        "SETTINGS" => {
            if a["ack"].as_bool().unwrap() {
                frame::Settings::ack().into()
            } else {
                let mut s = frame::Settings::default();
                for p in a["params"].as_array().unwrap() {
                    let id = p[0].as_u64().unwrap();
                    let v = u32_of(&p[1]);
                    match id {
                        1 => s.set_header_table_size(Some(v)),
                        2 => s.set_enable_push(v != 0),
                        3 => s.set_max_concurrent_streams(Some(v)),
                        4 => s.set_initial_window_size(Some(v)),
                        5 => s.set_max_frame_size(Some(v)),
                        6 => s.set_max_header_list_size(Some(v)),
                        8 => s.set_enable_connect_protocol(Some(v)),
                        _ => return Err(format!("setting {id} not buildable")),
                    }
                }
                s.into()
            }
        }
        "PING" => {
            let mut pl = [0u8; 8];
            pl.copy_from_slice(&bytes_of(&a["opaque"]));
            if a["ack"].as_bool().unwrap() {
                frame::Ping::pong(pl).into()
            } else {
                frame::Ping::new(pl).into()
            }
        }
        "GOAWAY" => frame::GoAway::with_debug_data(
            StreamId::from(u32_of(&a["last"])),
            Reason::from(u32_of(&a["code"])),
            Bytes::from(bytes_of(&a["debug"])),
        )
        .into(),
        "WINDOW_UPDATE" => frame::WindowUpdate::new(sid(), u32_of(&a["incr"])).into(),
        t => return Err(format!("type {t} not buildable through the Codec API")),
    })
}

fn dbg_num(s: &str, key: &str) -> Option<u64> {
    let i = s.find(key)? + key.len();
    let rest = &s[i..];
    let digits: String = rest.chars().skip_while(|c| !c.is_ascii_digit()).take_while(|c| c.is_ascii_digit()).collect();
    digits.parse().ok()
}
/// StreamDependency is only observable through Debug (no accessors for weight / exclusive)
fn dbg_dep(s: &str) -> Option<Value> {
    let i = s.find("StreamDependency")?;
    let t = &s[i..];
    let dep = dbg_num(t, "dependency_id:")?;
    let w = dbg_num(t, "weight:")?;
    let j = t.find("is_exclusive:")? + "is_exclusive:".len();
    let ex = t[j..].trim_start().starts_with("true");
    Some(json!([if ex { 1 } else { 0 }, b4(dep as u32), w]))
}

/// `big`: summarise DATA payloads / header fields instead of listing octets
fn logical_of(f: Frame<Bytes>, big: Option<&dyn Fn(&str, u32, &[u8], &[(Vec<u8>, Vec<u8>)]) -> Value>) -> Value {
    let dbg = format!("{f:?}");
    match f {
        Frame::Data(d) => {
            let pad: Value = if d.is_padded() {
                match dbg_num(&dbg, "pad_len:") {
                    Some(n) => json!(n),
                    None => json!(-3),
                }
            } else {
                json!(-1)
            };
            let sid: u32 = d.stream_id().into();
            let mut o = json!({"type": "DATA", "sid": b4(sid), "es": d.is_end_stream(), "pad": pad});
            match big {
                Some(s) => o["sum"] = s("DATA", sid, &d.payload()[..], &[]),
                None => o["data"] = bytes_json(&d.payload()[..]),
            }
            o
        }
        Frame::Headers(h) => {
            let sid: u32 = h.stream_id().into();
            let es = h.is_end_stream();
            let prio = if dbg.contains("stream_dep") {
                dbg_dep(&dbg).unwrap_or(json!([-3]))
            } else if dbg.contains("PRIORITY") {
                json!([-3])
            } else {
                json!([])
            };
            let (ps, map) = h.into_parts();
            let fl = flatten(ps, map);
            let mut o = json!({"type": "HEADERS", "sid": b4(sid), "es": es, "prio": prio});
            match big {
                Some(s) => o["sum"] = s("HEADERS", sid, &[], &fl),
                None => o["fields"] = fields_json(&fl),
            }
            o
        }
        Frame::Priority(_) => {
            let sid = dbg_num(&dbg, "stream_id:").map(|v| b4(v as u32)).unwrap_or(json!([-3]));
            json!({"type": "PRIORITY", "sid": sid, "prio": dbg_dep(&dbg).unwrap_or(json!([-3]))})
        }
        Frame::PushPromise(p) => {
            let sid: u32 = p.stream_id().into();
            let prom: u32 = p.promised_id().into();
            let (ps, map) = p.into_parts();
            let fl = flatten(ps, map);
            let mut o = json!({"type": "PUSH_PROMISE", "sid": b4(sid), "promised": b4(prom)});
            match big {
                Some(s) => o["sum"] = s("PUSH_PROMISE", sid, &[], &fl),
                None => o["fields"] = fields_json(&fl),
            }
            o
        }
        Frame::Settings(s) => {
            let mut view = vec![];
            if let Some(v) = s.header_table_size() {
                view.push(json!([1, b4(v)]));
            }
            if let Some(v) = s.is_push_enabled() {
                view.push(json!([2, b4(v as u32)]));
            }
            if let Some(v) = s.max_concurrent_streams() {
                view.push(json!([3, b4(v)]));
            }
            if let Some(v) = s.initial_window_size() {
                view.push(json!([4, b4(v)]));
            }
            if let Some(v) = s.max_frame_size() {
                view.push(json!([5, b4(v)]));
            }
            if let Some(v) = s.max_header_list_size() {
                view.push(json!([6, b4(v)]));
            }
            json!({"type": "SETTINGS", "ack": s.is_ack(), "view": view})
        }
        Frame::Ping(p) => json!({"type": "PING", "ack": p.is_ack(), "opaque": bytes_json(p.payload())}),
        Frame::GoAway(g) => {
            let last: u32 = g.last_stream_id().into();
            let code: u32 = g.reason().into();
            json!({"type": "GOAWAY", "last": b4(last), "code": b4(code), "debug": bytes_json(&g.debug_data()[..])})
        }
        Frame::WindowUpdate(w) => {
            let sid: u32 = w.stream_id().into();
            json!({"type": "WINDOW_UPDATE", "sid": b4(sid), "incr": b4(w.size_increment())})
        }
        Frame::Reset(r) => {
            let sid: u32 = r.stream_id().into();
            let code: u32 = r.reason().into();
            json!({"type": "RST_STREAM", "sid": b4(sid), "code": b4(code)})
        }
    }
}

fn err_json(e: &h2::proto::Error) -> Value {
    match e {
        h2::proto::Error::Reset(id, reason, init) => {
            let id: u32 = (*id).into();
            let c: u32 = (*reason).into();
            json!({"kind": "Reset", "sid": b4(id), "reason": c, "initiator": format!("{init:?}")})
        }
        h2::proto::Error::GoAway(_, reason, init) => {
            let c: u32 = (*reason).into();
            json!({"kind": "GoAway", "reason": c, "initiator": format!("{init:?}")})
        }
        h2::proto::Error::Io(kind, _) => json!({"kind": "Io", "io": format!("{kind:?}")}),
    }
}

// ------------------------------------------------------------------------------------------------
// drivers

type C = Codec<ScriptIo, Bytes>;

/// Read everything the codec yields from `bytes` under `script`.
/// Returns (logical items, end, consumed-at-each-item, io stats)
struct ReadOut {
    items: Vec<Value>,
    end: Value, // "eof" | {"err":..} | "stuck"
    consumed_at_end: usize,
    rcalls: usize,
    max_read_cap: usize,
}

fn run_read(
    bytes: &[u8],
    script: &[Step],
    max_recv: Option<usize>,
    big: Option<&dyn Fn(&str, u32, &[u8], &[(Vec<u8>, Vec<u8>)]) -> Value>,
) -> ReadOut {
    match std::panic::catch_unwind(std::panic::AssertUnwindSafe(|| run_read_(bytes, script, max_recv, big))) {
        Ok(r) => r,
        Err(_) => ReadOut { items: vec![], end: json!("panic"), consumed_at_end: 0, rcalls: 0, max_read_cap: 0 },
    }
}
fn run_read_(
    bytes: &[u8],
    script: &[Step],
    max_recv: Option<usize>,
    big: Option<&dyn Fn(&str, u32, &[u8], &[(Vec<u8>, Vec<u8>)]) -> Value>,
) -> ReadOut {
    let mut io = ScriptIo::new(false);
    io.rdata = bytes.to_vec();
    io.rscript = script.iter().cloned().collect();
    let mut codec: C = Codec::new(io);
    if let Some(m) = max_recv {
        codec.set_max_recv_frame_size(m);
    }
    // SETTINGS_MAX_HEADER_LIST_SIZE is a different limit (default 16 MiB, over-size lists are delivered empty);
    // keep it out of the way of the 2^24-1 frame-size cases
    codec.set_max_recv_header_list_size(1 << 30);
    let waker = noop_waker();
    let mut cx = Context::from_waker(&waker);
    let mut items = vec![];
    let mut polls = 0usize;
    let limit = 4 * bytes.len() + script.len() + 64;
    let end = loop {
        polls += 1;
        if polls > limit {
            break json!("stuck");
        }
        match Pin::new(&mut codec).poll_next(&mut cx) {
            Poll::Pending => continue,
            Poll::Ready(None) => break json!("eof"),
            Poll::Ready(Some(Ok(f))) => items.push(logical_of(f, big)),
            Poll::Ready(Some(Err(e))) => break json!({"err": err_json(&e)}),
        }
    };
    let io = codec.get_ref();
    ReadOut { items, end, consumed_at_end: io.rpos, rcalls: io.rcalls, max_read_cap: io.max_read_cap }
}

/// Send one frame through a fresh codec under a write script; flush to completion.
fn run_write_one(f: Frame<Bytes>, script: &[Step], vectored: bool) -> Result<Vec<u8>, String> {
    match std::panic::catch_unwind(std::panic::AssertUnwindSafe(|| run_write_one_(f, script, vectored))) {
        Ok(r) => r,
        Err(p) => Err(format!("panic: {}", panic_msg(&p))),
    }
}
fn run_write_one_(f: Frame<Bytes>, script: &[Step], vectored: bool) -> Result<Vec<u8>, String> {
    let mut io = ScriptIo::new(vectored);
    io.wscript = script.iter().cloned().collect();
    let mut codec: C = Codec::new(io);
    let waker = noop_waker();
    let mut cx = Context::from_waker(&waker);
    match codec.poll_ready(&mut cx) {
        Poll::Ready(Ok(())) => {}
        other => return Err(format!("poll_ready: {other:?}")),
    }
    codec.buffer(f).map_err(|e| format!("buffer: {e:?}"))?;
    let mut polls = 0;
    loop {
        polls += 1;
        if polls > 100_000 {
            return Err("flush does not terminate".into());
        }
        match codec.flush(&mut cx) {
            Poll::Pending => continue,
            Poll::Ready(Ok(())) => break,
            Poll::Ready(Err(e)) => return Err(format!("flush: {e:?}")),
        }
    }
    Ok(std::mem::take(&mut codec.get_mut().written))
}

fn read_lines(path: &str) -> Vec<Value> {
    let f = std::fs::File::open(path).unwrap_or_else(|e| panic!("open {path}: {e}"));
    io::BufReader::new(f)
        .lines()
        .map(|l| l.unwrap())
        .filter(|l| !l.trim().is_empty())
        .map(|l| serde_json::from_str(&l).expect("json line"))
        .collect()
}

/// distinct values with multiplicity and one example tag
struct Distinct {
    seen: Vec<(String, Value, usize, Value)>,
}
impl Distinct {
    fn new() -> Self {
        Distinct { seen: vec![] }
    }
    fn add(&mut self, v: Value, example: Value) {
        let k = v.to_string();
        if let Some(e) = self.seen.iter_mut().find(|e| e.0 == k) {
            e.2 += 1;
        } else {
            self.seen.push((k, v, 1, example));
        }
    }
    fn json(self) -> Value {
        Value::Array(
            self.seen
                .into_iter()
                .map(|(_, mut v, n, ex)| {
                    v["n"] = json!(n);
                    v["ex"] = ex;
                    v
                })
                .collect(),
        )
    }
}

fn read_scripts(len: usize) -> Vec<Vec<Step>> {
    let mut out = vec![vec![Step::All]];
    // every split point
    for s in 1..len {
        out.push(vec![Step::N(s), Step::All]);
    }
    // every split point with Pending at the cut
    for s in 1..len {
        out.push(vec![Step::N(s), Step::Pending, Step::All]);
    }
    // one octet at a time, Pending between any two octets
    let mut one = vec![];
    for _ in 0..len {
        one.push(Step::N(1));
        one.push(Step::Pending);
    }
    out.push(one);
    out.push((0..len).map(|_| Step::N(1)).collect());
    out.push((0..len).map(|_| Step::N(2)).collect());
    out.push((0..len).map(|_| Step::N(3)).collect());
    out
}

fn mode_vectors(inp: &str, outp: &str) {
    let cases = read_lines(inp);
    let mut out = io::BufWriter::new(std::fs::File::create(outp).unwrap());
    let mut execs = 0usize;
    for (i, c) in cases.iter().enumerate() {
        let frames = c["frames"].as_array().unwrap();
        let refbytes = bytes_of(&c["bytes"]);
        // ---- Sink side
        let mut w = Distinct::new();
        if c["buildable"].as_bool().unwrap() {
            let one_by_one: Vec<Step> = (0..64).flat_map(|_| [Step::N(1), Step::Pending]).collect();
            let scripts: Vec<(Vec<Step>, bool, &str)> = vec![
                (vec![Step::All], false, "all"),
                (vec![Step::All], true, "all/vectored"),
                (one_by_one, false, "1,P,1,P.."),
                (vec![Step::N(2), Step::N(7), Step::Pending, Step::N(1)], true, "2,7,P,1/vectored"),
            ];
            for (sc, vect, name) in scripts {
                execs += 1;
                let built = std::panic::catch_unwind(std::panic::AssertUnwindSafe(|| build_h2(&frames[0])))
                    .unwrap_or_else(|p| Err(format!("panic: {}", panic_msg(&p))));
                let res = built.and_then(|f| run_write_one(f, &sc, vect));
                let v = match res {
                    Err(e) => json!({"err": e, "bytes": [], "parsed": [], "fields": []}),
                    Ok(bytes) => {
                        let mut sp = Splitter::new(false);
                        let raw = sp.push(&bytes);
                        let parsed: Vec<Value> = raw.iter().map(abstract_of).collect();
                        let fields: Vec<Value> = blocks_of(&raw)
                            .iter()
                            .map(|b| match RefTable::new(4096).decode(b) {
                                Ok(f) => fields_json(&f),
                                Err(e) => json!(format!("{e:?}")),
                            })
                            .collect();
                        json!({"err": "", "bytes": bytes_json(&bytes), "parsed": parsed, "fields": fields, "trailing": sp.pending()})
                    }
                };
                w.add(v, json!(name));
            }
        }
        // ---- Stream side: the TLC reference octets under every chunking
        let mut r = Distinct::new();
        let scripts = read_scripts(refbytes.len());
        let nscripts = scripts.len();
        for sc in scripts {
            execs += 1;
            let o = run_read(&refbytes, &sc, None, None);
            let ex: Vec<Value> = sc.iter().take(6).map(step_json).collect();
            r.add(json!({"items": o.items, "end": end_rec(&o.end)}), Value::Array(ex));
        }
        let rec = json!({"t": "vec", "id": i + 1, "frames": frames, "refbytes": c["bytes"], "buildable": c["buildable"],
                         "exact": c["exact"], "w": w.json(), "r": r.json(), "chunkings": nscripts});
        writeln!(out, "{rec}").unwrap();
    }
    out.flush().unwrap();
    println!("SUMMARY mode=vectors cases={} executions={}", cases.len(), execs);
}

// ------------------------------------------------------------------------------------------------
// io mode: staging / chunking cases at real scale

fn pat(i: usize, off: usize) -> u8 {
    ((i * 131 + off * 7 + (off >> 8) * 13 + (off >> 16) * 101) & 0xff) as u8
}
thread_local! {
    static PATS: std::cell::RefCell<std::collections::HashMap<usize, Bytes>> = Default::default();
}
/// first n octets of the position-dependent fill pattern of item i (cached)
fn pat_bytes(i: usize, n: usize) -> Bytes {
    PATS.with(|p| {
        let mut p = p.borrow_mut();
        let have = p.get(&i).map(|b| b.len()).unwrap_or(0);
        if have < n || have == 0 {
            let len = n.max(4096).next_power_of_two();
            let v: Vec<u8> = (0..len).map(|o| pat(i, o)).collect();
            p.insert(i, Bytes::from(v));
        }
        p.get(&i).unwrap().slice(..n)
    })
}
fn pat_ok(i: usize, data: &[u8]) -> bool {
    pat_bytes(i, data.len())[..] == *data
}

#[derive(Clone)]
struct Item {
    k: String,
    n: usize,
    i: usize, // 1-based index
    sid: u32,
    es: bool,
    fields: Vec<(Vec<u8>, Vec<u8>)>, // hdr / pp
    blk: i64,                        // measured block length (hdr / pp), -1 otherwise
}

fn item_frame(it: &Item) -> Frame<Bytes> {
    match it.k.as_str() {
        "data" => {
            let mut d = frame::Data::new(StreamId::from(it.sid), pat_bytes(it.i, it.n));
            d.set_end_stream(it.es);
            d.into()
        }
        "ctl" => frame::Ping::new([it.i as u8; 8]).into(),
        "hdr" | "pp" => {
            let mut map = http::HeaderMap::new();
            for (n, v) in &it.fields {
                let mut val = http::header::HeaderValue::from_bytes(v).unwrap();
                val.set_sensitive(true);
                map.append(http::header::HeaderName::from_bytes(n).unwrap(), val);
            }
            if it.k == "hdr" {
                let mut h = frame::Headers::new(StreamId::from(it.sid), frame::Pseudo::default(), map);
                if it.es {
                    h.set_end_stream();
                }
                h.into()
            } else {
                frame::PushPromise::new(StreamId::from(it.sid), StreamId::from(it.sid + 1), frame::Pseudo::default(), map).into()
            }
        }
        k => panic!("item kind {k}"),
    }
}

fn flush_all(codec: &mut C, cx: &mut Context<'_>) -> Result<(), String> {
    for _ in 0..1_000_000 {
        match codec.flush(cx) {
            Poll::Pending => continue,
            Poll::Ready(Ok(())) => return Ok(()),
            Poll::Ready(Err(e)) => return Err(format!("{:?}", e.kind())),
        }
    }
    Err("flush does not terminate".into())
}

/// header block length h2 produces for `cand` after the header items in `prev` (same encoder state)
fn measure_block(prev: &[Item], cand: &Item) -> usize {
    let io = ScriptIo::new(false);
    let mut codec: C = Codec::new(io);
    codec.set_max_send_frame_size((1 << 24) - 1);
    let waker = noop_waker();
    let mut cx = Context::from_waker(&waker);
    for p in prev.iter().filter(|p| p.k == "hdr" || p.k == "pp") {
        codec.buffer(item_frame(p)).unwrap();
        flush_all(&mut codec, &mut cx).unwrap();
    }
    codec.get_mut().written.clear();
    codec.buffer(item_frame(cand)).unwrap();
    flush_all(&mut codec, &mut cx).unwrap();
    let raw = Splitter::new(false).push(&codec.get_ref().written);
    blocks_of(&raw).iter().map(|b| b.len()).sum()
}

/// choose sensitive filler fields so that the encoded header block has exactly `n` octets
fn size_fields(prev: &[Item], it: &mut Item) {
    let target = it.n;
    let mk = |la: usize, lb: Option<usize>| -> Vec<(Vec<u8>, Vec<u8>)> {
        let mut f = vec![(b"x-a".to_vec(), vec![b'X'; la])];
        if let Some(lb) = lb {
            f.push((b"x-b".to_vec(), vec![b'X'; lb]));
        }
        f
    };
    for lb in [None, Some(1usize), Some(2), Some(3)] {
        let mut la = target.saturating_sub(6).max(1);
        for _ in 0..6 {
            it.fields = mk(la, lb);
            let got = measure_block(prev, it);
            if got == target {
                it.blk = got as i64;
                return;
            }
            let nl = la as i64 + target as i64 - got as i64;
            if nl < 1 {
                break;
            }
            la = nl as usize;
        }
    }
    // not reachable exactly (tiny targets): keep the closest, report the real length
    it.blk = measure_block(prev, it) as i64;
}

fn make_items(spec: &Value) -> Vec<Item> {
    let mut out: Vec<Item> = vec![];
    for (j, v) in spec.as_array().unwrap().iter().enumerate() {
        let i = j + 1;
        let mut it = Item {
            k: v["k"].as_str().unwrap().to_string(),
            n: v["n"].as_u64().unwrap() as usize,
            i,
            sid: (2 * i - 1) as u32,
            es: i % 2 == 0,
            fields: vec![],
            blk: -1,
        };
        if it.k == "hdr" || it.k == "pp" {
            size_fields(&out, &mut it);
        }
        out.push(it);
    }
    out
}

fn poll_name<T: std::fmt::Debug>(p: &Poll<io::Result<T>>) -> String {
    match p {
        Poll::Pending => "pending".into(),
        Poll::Ready(Ok(_)) => "ready".into(),
        Poll::Ready(Err(e)) => format!("{:?}", e.kind()),
    }
}

type Memo = std::collections::HashMap<Vec<u8>, Vec<(Vec<u8>, Vec<u8>)>>;

/// reference decode, memoised while the dynamic table is (and stays) empty -- the reference Huffman
/// decoder is a deliberately simple bit walk and the same large blocks recur across schedules
fn ref_decode(table: &mut RefTable, memo: &mut Memo, block: &[u8]) -> Option<Vec<(Vec<u8>, Vec<u8>)>> {
    if table.entries.is_empty() && table.max == 4096 {
        if let Some(f) = memo.get(block) {
            return Some(f.clone());
        }
        let r = table.decode(block).ok()?;
        if table.entries.is_empty() && table.max == 4096 {
            memo.insert(block.to_vec(), r.clone());
        }
        return Some(r);
    }
    table.decode(block).ok()
}

fn sum_raw(raw: &[wire::Frame], items: &[Item], memo: &mut Memo) -> Vec<Value> {
    // content check against the items, by stream id (sid = 2i-1); header blocks decoded with the
    // independent RFC 7541 reference (one table per connection)
    let mut table = RefTable::new(4096);
    let mut block: Vec<u8> = vec![];
    let mut out = vec![];
    for f in raw {
        let item = if f.ty == wire::PING {
            f.payload.first().and_then(|b| items.get((*b as usize).wrapping_sub(1)))
        } else {
            items.get(((f.sid as usize + 1) / 2).wrapping_sub(1))
        };
        // h2 never pads or prioritises what it sends: PADDED / PRIORITY flags make the frame "not ok"
        let plain = f.flags & 0x28 == 0;
        let ok = match (f.ty, item) {
            (wire::DATA, Some(it)) => plain && pat_ok(it.i, &f.payload),
            (wire::PING, Some(it)) => f.payload == vec![it.i as u8; 8],
            (wire::HEADERS, Some(it)) | (wire::PUSH_PROMISE, Some(it)) | (wire::CONTINUATION, Some(it)) => {
                let mut frag = &f.payload[..];
                let mut okp = plain || f.ty == wire::CONTINUATION;
                if f.ty != wire::CONTINUATION {
                    block.clear();
                }
                if f.ty == wire::PUSH_PROMISE {
                    if frag.len() >= 4 {
                        okp = okp && frag[..4] == (it.sid + 1).to_be_bytes();
                        frag = &frag[4..];
                    } else {
                        okp = false;
                    }
                }
                block.extend_from_slice(frag);
                if f.flags & 4 != 0 {
                    let r = ref_decode(&mut table, memo, &block).map(|fl| fl == it.fields).unwrap_or(false);
                    block.clear();
                    r && okp
                } else {
                    okp
                }
            }
            _ => false,
        };
        let mut o = json!({"ty": f.ty, "fl": f.flags, "r": if f.rbit { 1 } else { 0 }, "sid": b4(f.sid), "len": f.payload.len(), "ok": ok});
        if f.ty == wire::PING {
            o["i"] = json!(f.payload.first().cloned().unwrap_or(0));
        }
        out.push(o);
    }
    out
}

fn mode_io(inp: &str, outp: &str) {
    let cases = read_lines(inp);
    let mut out = io::BufWriter::new(std::fs::File::create(outp).unwrap());
    let waker = noop_waker();
    let mut cx = Context::from_waker(&waker);
    let mut items_cache: std::collections::HashMap<String, Vec<Item>> = Default::default();
    let mut plain_cache: std::collections::HashMap<String, Vec<u8>> = Default::default();
    let mut memo: Memo = Default::default();
    let mut do_case = |c: &Value| -> Value {
        let vectored = c["vectored"].as_bool().unwrap();
        let max_send = c["max_send"].as_u64().unwrap() as usize;
        let max_recv = c["max_recv"].as_u64().unwrap() as usize;
        let ikey = c["items"].to_string();
        let items = items_cache.entry(ikey.clone()).or_insert_with(|| make_items(&c["items"])).clone();
        let mut io_ = ScriptIo::new(vectored);
        io_.wscript.clear();
        let mut codec: C = Codec::new(io_);
        codec.set_max_send_frame_size(max_send);
        let hist: Vec<Value> = c["hist"].as_array().cloned().unwrap_or_default();
        let mut staged: Vec<Value> = vec![];
        let mut flushes: Vec<Value> = vec![];
        let mut ready: Vec<Value> = vec![];
        let mut rscript: Vec<Step> = vec![];
        let mut next_item = 0usize;
        let mut stage = |codec: &mut C, cx: &mut Context<'_>, ready: &mut Vec<Value>, staged: &mut Vec<Value>, it: &Item| {
            let mut tries = 0;
            loop {
                let p = codec.poll_ready(cx);
                ready.push(json!(poll_name(&p)));
                match p {
                    Poll::Ready(Ok(())) => break,
                    Poll::Ready(Err(_)) => {
                        tries += 1;
                        if tries > 4 {
                            staged.push(json!("poll_ready_error"));
                            return;
                        }
                    }
                    Poll::Pending => {
                        tries += 1;
                        if tries > 1_000_000 {
                            staged.push(json!("poll_ready_stuck"));
                            return;
                        }
                    }
                }
            }
            match codec.buffer(item_frame(it)) {
                Ok(()) => staged.push(json!("ok")),
                Err(e) => staged.push(json!(format!("{e:?}"))),
            }
        };
        let mut h = 0;
        while h < hist.len() {
            let e = &hist[h];
            let tag = e[0].as_str().unwrap();
            match tag {
                "B" => {
                    if next_item < items.len() {
                        let it = items[next_item].clone();
                        next_item += 1;
                        stage(&mut codec, &mut cx, &mut ready, &mut staged, &it);
                    }
                    h += 1;
                }
                "F" => {
                    h += 1;
                    let mut sc = VecDeque::new();
                    while h < hist.len() && hist[h][0] == json!("w") {
                        let o = hist[h][1].as_i64().unwrap();
                        let k = hist[h][2].as_i64().unwrap();
                        sc.push_back(if k < 0 {
                            Step::Pending
                        } else if k == 0 {
                            Step::Zero
                        } else if k >= o {
                            Step::All
                        } else {
                            Step::N(k as usize)
                        });
                        h += 1;
                    }
                    codec.get_mut().wscript = sc;
                    let p = codec.flush(&mut cx);
                    flushes.push(json!(poll_name(&p)));
                    codec.get_mut().wscript.clear();
                }
                "r" => {
                    let n = e[1].as_i64().unwrap();
                    rscript.push(if n < 0 { Step::Pending } else { Step::N(n as usize) });
                    h += 1;
                }
                _ => {
                    h += 1;
                }
            }
        }
        let replay_calls = codec.get_ref().wcalls.clone();
        // drain: stage what is left, flush with a transport that accepts everything
        while next_item < items.len() {
            let it = items[next_item].clone();
            next_item += 1;
            stage(&mut codec, &mut cx, &mut ready, &mut staged, &it);
        }
        let drain = match flush_all(&mut codec, &mut cx) {
            Ok(()) => "ready".to_string(),
            Err(e) => e,
        };
        let written = std::mem::take(&mut codec.get_mut().written);
        let mut sp = Splitter::new(false);
        let raw = sp.push(&written);
        let wire_sum = sum_raw(&raw, &items, &mut memo);
        // metamorphic reference: same items, one buffer+flush each, transport accepts everything
        let pkey = format!("{ikey}/{max_send}");
        let plain = plain_cache.entry(pkey).or_insert_with(|| {
            let mut c2: C = Codec::new(ScriptIo::new(false));
            c2.set_max_send_frame_size(max_send);
            for it in &items {
                if c2.buffer(item_frame(it)).is_ok() {
                    let _ = flush_all(&mut c2, &mut cx);
                }
            }
            std::mem::take(&mut c2.get_mut().written)
        });
        let same_as_plain = *plain == written;
        // ---- Stream side over the captured octets
        let items_ref = &items;
        let summ = |ty: &str, sid: u32, data: &[u8], fl: &[(Vec<u8>, Vec<u8>)]| -> Value {
            let it = items_ref.get(((sid as usize + 1) / 2).wrapping_sub(1));
            match (ty, it) {
                ("DATA", Some(it)) => json!({"len": data.len(), "ok": pat_ok(it.i, data)}),
                (_, Some(it)) => json!({"len": -1, "ok": fl == &it.fields[..]}),
                _ => json!({"len": -1, "ok": false}),
            }
        };
        let ro = run_read(&written, &rscript, Some(max_recv), Some(&summ));
        let ritems: Vec<Value> = ro
            .items
            .into_iter()
            .map(|mut v| {
                if v["type"] == json!("PING") {
                    let pl = bytes_of(&v["opaque"]);
                    let ok = pl.first().map(|b| pl == vec![*b; 8] && (*b as usize) >= 1 && (*b as usize) <= items.len() && items[*b as usize - 1].k == "ctl").unwrap_or(false);
                    v["sum"] = json!({"len": 8, "ok": ok});
                    v["i"] = json!(pl.first().cloned().unwrap_or(0));
                }
                v
            })
            .collect();
        let its: Vec<Value> = items
            .iter()
            .map(|it| json!({"k": it.k, "n": it.n, "sid": b4(it.sid), "es": it.es, "blk": it.blk, "i": it.i}))
            .collect();
        let calls: Vec<Value> = replay_calls.iter().map(|(o, k)| json!([o, k])).collect();
        let rec = json!({
            "t": "io", "id": c["id"], "src": c["src"],
            "cfg": {"vectored": vectored, "max_send": max_send, "max_recv": max_recv},
            "items": its, "hist": hist, "model": c["model"],
            "staged": staged, "flushes": flushes, "drain": drain, "wcalls": calls,
            "wire": wire_sum, "trailing": sp.pending(), "wire_len": written.len(), "same_as_plain": same_as_plain,
            "read": {"items": ritems, "end": end_rec(&ro.end), "consumed": ro.consumed_at_end, "rcalls": ro.rcalls, "max_read_cap": ro.max_read_cap},
        });
        rec
    };
    for c in &cases {
        let rec = match std::panic::catch_unwind(std::panic::AssertUnwindSafe(|| do_case(c))) {
            Ok(r) => r,
            Err(p) => {
                // a panic inside h2 on a legal input: recorded, judged by the trace spec (nothing was serialised / parsed)
                let its: Vec<Value> = c["items"]
                    .as_array()
                    .unwrap()
                    .iter()
                    .enumerate()
                    .map(|(j, v)| json!({"k": v["k"], "n": v["n"], "sid": b4((2 * j + 1) as u32), "es": (j + 1) % 2 == 0, "blk": -1, "i": j + 1}))
                    .collect();
                let staged: Vec<Value> = its.iter().map(|_| json!("ok")).collect();
                json!({
                    "t": "io", "id": c["id"], "src": c["src"],
                    "cfg": {"vectored": c["vectored"], "max_send": c["max_send"], "max_recv": c["max_recv"]},
                    "items": its, "hist": c["hist"], "model": c["model"],
                    "staged": staged, "flushes": [], "drain": format!("panic: {}", panic_msg(&p)), "wcalls": [],
                    "wire": [], "trailing": 0, "wire_len": 0, "same_as_plain": false,
                    "read": {"items": [], "end": {"k": "panic"}, "consumed": 0, "rcalls": 0, "max_read_cap": 0},
                })
            }
        };
        writeln!(out, "{rec}").unwrap();
    }
    out.flush().unwrap();
    println!("SUMMARY mode=io cases={} executions={}", cases.len(), cases.len() * 2);
}

fn panic_msg(p: &Box<dyn std::any::Any + Send>) -> String {
    if let Some(s) = p.downcast_ref::<&str>() {
        s.to_string()
    } else if let Some(s) = p.downcast_ref::<String>() {
        s.clone()
    } else {
        "?".into()
    }
}

fn end_rec(e: &Value) -> Value {
    match e {
        Value::String(s) => json!({"k": s}),
        o => json!({"k": "err", "err": o["err"]}),
    }
}

// ------------------------------------------------------------------------------------------------
// oversize mode: a frame whose declared length exceeds the configured max recv frame size.
// case: {"id", "max_recv", "prefix": [n1, n2..] (DATA frames of those sizes sent first), "ty", "L" (declared),
//        "supply" (payload octets actually available), "script": [...]}

fn mode_oversize(inp: &str, outp: &str) {
    let cases = read_lines(inp);
    let mut out = io::BufWriter::new(std::fs::File::create(outp).unwrap());
    for c in &cases {
        let max_recv = c["max_recv"].as_u64().unwrap() as usize;
        let declared = c["L"].as_u64().unwrap() as usize;
        let supply = c["supply"].as_u64().unwrap() as usize;
        let ty = c["ty"].as_u64().unwrap() as u8;
        let mut bytes = vec![];
        let mut npre = 0;
        for (j, n) in c["prefix"].as_array().unwrap().iter().enumerate() {
            let n = n.as_u64().unwrap() as usize;
            let v = pat_bytes(j + 1, n);
            bytes.extend_from_slice(&wire::f_data((2 * j + 1) as u32, &v, false, None).ser());
            npre += 1;
        }
        let x = bytes.len();
        let sid: u32 = if ty == wire::SETTINGS || ty == wire::PING || ty == wire::GOAWAY { 0 } else { (2 * npre + 1) as u32 };
        let fl: u8 = if ty == wire::HEADERS || ty == wire::CONTINUATION || ty == wire::PUSH_PROMISE { 4 } else { 0 };
        let mut fr = wire::Frame::new(ty, fl, sid, vec![]).ser_with_len(declared);
        fr.extend_from_slice(&pat_bytes(npre + 1, supply));
        bytes.extend_from_slice(&fr);
        let script: Vec<Step> = c["script"].as_array().unwrap().iter().map(step_of).collect();
        let summ = |_: &str, sid: u32, data: &[u8], _: &[(Vec<u8>, Vec<u8>)]| -> Value {
            json!({"len": data.len(), "ok": pat_ok(((sid + 1) / 2) as usize, data)})
        };
        let ro = run_read(&bytes, &script, Some(max_recv), Some(&summ));
        let rec = json!({"t": "oversize", "id": c["id"], "max_recv": max_recv, "L": declared, "supply": supply, "ty": ty,
                         "prefix": c["prefix"], "npre": npre, "x": x, "total": bytes.len(), "script": c["script"],
                         "items": ro.items, "end": end_rec(&ro.end), "consumed": ro.consumed_at_end, "rcalls": ro.rcalls,
                         "max_read_cap": ro.max_read_cap});
        writeln!(out, "{rec}").unwrap();
    }
    out.flush().unwrap();
    println!("SUMMARY mode=oversize cases={} executions={}", cases.len(), cases.len());
}

fn main() {
    let args: Vec<String> = std::env::args().collect();
    if args.len() < 4 {
        eprintln!("usage: codec <vectors|io|oversize> <in.ndjson> <out.ndjson>");
        std::process::exit(2);
    }
    let _ = Map::<String, Value>::new();
    std::panic::set_hook(Box::new(|_| {})); // panics inside h2 are caught per case and recorded
    match args[1].as_str() {
        "vectors" => mode_vectors(&args[2], &args[3]),
        "io" => mode_io(&args[2], &args[3]),
        "oversize" => mode_oversize(&args[2], &args[3]),
        m => {
            eprintln!("unknown mode {m}");
            std::process::exit(2);
        }
    }
}
