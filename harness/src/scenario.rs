//! Scenario description (inputs only): configuration, application programs,
//! scripted peer, environment steps and schedule. JSON via serde.

use serde::{Deserialize, Serialize};

fn d_true() -> bool {
    true
}

#[derive(Serialize, Deserialize, Clone, Debug, Default)]
#[serde(default)]
pub struct EpCfg {
    pub iws: Option<u32>,
    pub conn_win: Option<u32>,
    pub max_frame: Option<u32>,
    pub max_conc: Option<u32>,
    pub max_hdr_list: Option<u32>,
    pub hdr_table: Option<u32>,
    pub reset_max: Option<usize>,
    pub reset_dur_ms: Option<u64>,
    pub pending_accept_reset_max: Option<usize>,
    pub local_error_reset_max: Option<i64>, // -1 => None (unlimited)
    pub max_send_buf: Option<usize>,
    pub enable_push: Option<bool>,
    pub data_frame_budget: Option<usize>,
    pub initial_max_send_streams: Option<usize>,
    pub initial_stream_id: Option<u32>,
    pub enable_connect_protocol: bool,
}

#[derive(Serialize, Deserialize, Clone, Debug)]
#[serde(default)]
pub struct IoCfg {
    /// per write call cap for [client, server] writes (0 = unlimited)
    pub wmax: [usize; 2],
    /// per read call cap for [client, server] reads (0 = unlimited)
    pub rmax: [usize; 2],
    pub vectored: [bool; 2],
    /// how many bytes a deliver step moves: "all" | "byte" | "rand" | "frame"
    pub deliver: String,
}

impl Default for IoCfg {
    fn default() -> Self {
        IoCfg { wmax: [0, 0], rmax: [0, 0], vectored: [false, false], deliver: "all".into() }
    }
}

#[derive(Serialize, Deserialize, Clone, Debug, PartialEq)]
#[serde(tag = "op", rename_all = "snake_case")]
pub enum SendOp {
    Reserve { n: usize },
    PollCap,
    /// poll_capacity once, log the result and go on whatever it was
    PollCapOnce,
    /// read capacity() (census)
    Cap,
    /// send n bytes in one send_data call
    Data { n: usize, eos: bool },
    /// send n bytes using reserve/poll_capacity/send_data(min(cap, rest)) loop
    DataCap { n: usize, eos: bool },
    Trailers { hid: usize },
    Reset { code: u32 },
    PollReset,
    /// wait until the k-th quiescence (k counted from scenario start)
    WaitQ { k: usize },
    /// yield once (return Pending after waking self)
    Yield,
    Drop,
    // --- server response ops
    Info { status: u16 },
    Response { status: u16, hid: usize, eos: bool },
    Push { tag: u32, hid: usize, ops: Vec<SendOp> },
    // --- usability probe (C16): send exactly capacity() bytes
    SendCap { eos: bool },
    /// hand the SendStream over to the inline registry (C20): from now on it is used from inside transport callbacks
    Park,
}

/// one scripted call on the receive half (conformance replays)
#[derive(Serialize, Deserialize, Clone, Debug, PartialEq)]
#[serde(tag = "op", rename_all = "snake_case")]
pub enum RecvOp {
    /// poll_data once, log the result, go on
    PollData,
    Release { n: usize },
    WaitQ { k: usize },
    Drop,
    /// hand the RecvStream over to the inline registry (C20)
    Park,
    /// (H2Tasks) poll_data, BLOCKING: the task parks in the call until it returns Ready
    PollDataWait,
    /// (H2Tasks) poll_trailers, BLOCKING
    PollTrailers,
}

/// C20: a handle operation executed INSIDE a transport callback of endpoint `ep`'s connection task (h2 holds none of
/// its locks there), i.e. at exactly the points where another thread could get in while the connection is being polled.
#[derive(Serialize, Deserialize, Clone, Debug, PartialEq)]
#[serde(tag = "op", rename_all = "snake_case")]
pub enum InlineAct {
    Data { tag: u32, n: usize, eos: bool },
    Reset { tag: u32, code: u32 },
    DropSend { tag: u32 },
    Reserve { tag: u32, n: usize },
    Capacity { tag: u32 },
    PollData { tag: u32 },
    Release { tag: u32, n: usize },
    DropRecv { tag: u32 },
    /// a new request through a SendRequest clone (client)
    SendRequest { tag: u32 },
    /// user ping through the PingPong handle
    Ping,
    /// drop the last SendRequest handle (client)
    DropSr,
}

#[derive(Serialize, Deserialize, Clone, Debug, PartialEq)]
pub struct InlineStep {
    pub ep: usize,
    /// "read" | "write" | "flush" | "any" (callback kind) | "q" (at quiescence number nth: clean-up of what never fired)
    pub at: String,
    /// fire at the nth callback of that kind (1-based)
    pub nth: usize,
    pub act: InlineAct,
    /// if > 0: fire at the first callback of that kind once this many quiescences have passed (nth is ignored)
    #[serde(default)]
    pub min_q: usize,
}

#[derive(Serialize, Deserialize, Clone, Debug)]
#[serde(default)]
pub struct ReadPol {
    /// poll informational responses before the final response (client)
    pub info: bool,
    /// poll push promises (client)
    pub push: bool,
    /// drop the response future / request body before reading the head
    pub drop_head: bool,
    /// "now" | "late" (release everything at end) | "never" | "half"
    pub release: String,
    /// after this many data chunks, drop the RecvStream (None = read to the end)
    pub max_chunks: Option<usize>,
    /// poll trailers before data is fully consumed
    pub trailers_first: bool,
    /// keep the RecvStream alive until the k-th quiescence after finishing
    pub hold_q: Option<usize>,
    /// start reading only at the k-th quiescence
    pub start_q: Option<usize>,
    /// don't read at all, just hold the handle (until hold_q or the end of the run)
    pub idle: bool,
    /// explicit script of calls (overrides the policy fields above)
    pub script: Vec<RecvOp>,
}

impl Default for ReadPol {
    fn default() -> Self {
        ReadPol { info: false, push: false, drop_head: false, release: "now".into(), max_chunks: None, trailers_first: false, hold_q: None, start_q: None, idle: false, script: vec![] }
    }
}

#[derive(Serialize, Deserialize, Clone, Debug, Default)]
#[serde(default)]
pub struct ReqProg {
    pub tag: u32,
    pub method: String,
    pub hid: usize,
    pub eos: bool,
    /// call poll_ready until Ready before send_request
    #[serde(default = "d_true")]
    pub ready: bool,
    pub ops: Vec<SendOp>,
    pub read: ReadPol,
    /// start only at the k-th quiescence
    pub start_q: Option<usize>,
    /// (H2Tasks) after send_request the SendRequest clone (with its `pending` stream) lives on in a task `cy<tag>` of its own,
    /// which calls poll_ready at the k-th quiescence and parks in it until Ready
    pub ready_after: Option<usize>,
}

#[derive(Serialize, Deserialize, Clone, Debug, Default)]
#[serde(default)]
pub struct SrvProg {
    pub ops: Vec<SendOp>,
    pub read: ReadPol,
    /// read policy for pushed streams' (none) - unused
    pub note: String,
}

#[derive(Serialize, Deserialize, Clone, Debug, PartialEq)]
#[serde(tag = "k", rename_all = "snake_case")]
pub enum PeerStep {
    /// send raw frame
    Frame { ty: u8, fl: u8, sid: u32, hex: String },
    /// send raw bytes
    Raw { hex: String },
    Settings { vals: Vec<(u16, u32)> },
    SettingsAck,
    Ping { ack: bool, pl: u64 },
    Wu { sid: u32, inc: u32 },
    Rst { sid: u32, code: u32 },
    Goaway { last: u32, code: u32, dbg: usize },
    Data { sid: u32, n: usize, eos: bool, pad: Option<u8> },
    /// HEADERS with literal-encoded field list `fields` (or header id from the pool when empty)
    Headers { sid: u32, hid: usize, fields: Vec<(String, String)>, eos: bool, frag: usize, huff: bool, status: u16, req: bool, method: String, tag: u32 },
    /// HEADERS carrying a raw header block
    HeadersRaw { sid: u32, hex: String, eos: bool, frag: usize },
    PushPromise { sid: u32, promised: u32, hid: usize, fields: Vec<(String, String)>, frag: usize, tag: u32 },
    Priority { sid: u32, dep: u32, excl: bool, weight: u8 },
    /// wait for quiescence before continuing
    WaitQ,
    /// wait until the endpoint has written at least n frames
    WaitOut { n: usize },
    /// change automatic behaviour
    Auto { ack_settings: Option<bool>, ack_ping: Option<bool>, grant: Option<String>, respond: Option<bool> },
    /// close the peer's write side (clean EOF)
    Eof,
}

#[derive(Serialize, Deserialize, Clone, Debug, PartialEq)]
#[serde(tag = "k", rename_all = "snake_case")]
pub enum EnvOp {
    /// block (Some(0)) / limit / unblock (None) writes of endpoint ep
    Budget { ep: usize, n: Option<usize> },
    Fault { ep: usize, kind: String },
    Time { ms: u64 },
    Conn { ep: usize, op: String, n: u32 },
    DropSr,
    Census,
    Ping { ep: usize },
    FlushPending { ep: usize, n: usize },
    Wmax { ep: usize, n: usize },
    Rmax { ep: usize, n: usize },
}

#[derive(Serialize, Deserialize, Clone, Debug)]
pub struct EnvStep {
    /// "q" : at quiescence number `n` (1-based) ; "step": at executor step n ; "ev": when n events have been recorded
    pub at: String,
    pub n: u64,
    pub op: EnvOp,
}

#[derive(Serialize, Deserialize, Clone, Debug, PartialEq)]
#[serde(tag = "c", rename_all = "snake_case")]
pub enum Choice {
    Poll { task: String },
    Deliver { dir: usize, n: usize },
    Peer,
}

#[derive(Serialize, Deserialize, Clone, Debug, Default)]
#[serde(default)]
pub struct Sched {
    pub seed: u64,
    pub script: Vec<Choice>,
    /// "random" | "fifo" | "lifo"
    pub then: String,
    pub max_steps: u64,
}

#[derive(Serialize, Deserialize, Clone, Debug, Default)]
#[serde(default)]
pub struct PeerCfg {
    pub settings: Vec<(u16, u32)>,
    pub ack_settings: bool,
    pub ack_ping: bool,
    /// "all" (grant back everything consumed, immediately) | "none" | "lazy" (at quiescence)
    pub grant: String,
    /// scripted server: answer each request with 200 + END_STREAM automatically
    pub respond: bool,
    pub max_frame: usize,
    /// C08: corrupt the peer's byte stream after `after` octets: (seed, after, one octet in `one_in` is hit)
    pub mutate: Option<(u64, usize, u32)>,
}

#[derive(Serialize, Deserialize, Clone, Debug, Default)]
#[serde(default)]
pub struct Scenario {
    pub name: String,
    /// "A" (real client + real server) | "Bc" (real client, scripted server) | "Bs" (real server, scripted client)
    pub mode: String,
    pub ccfg: EpCfg,
    pub scfg: EpCfg,
    pub io: IoCfg,
    pub reqs: Vec<ReqProg>,
    pub srv: Vec<SrvProg>,
    /// server: never call accept (poll_closed only)
    pub srv_no_accept: bool,
    /// the server application accepts at most this many requests (None = unlimited); env op conn/accept_allow adds n
    pub srv_accept_budget: Option<usize>,
    /// log a statistics snapshot after every poll of a connection task (not only at quiescence)
    pub dense_stats: bool,
    /// C20: handle operations executed inside transport callbacks
    pub inline: Vec<InlineStep>,
    pub peer_cfg: PeerCfg,
    pub peer: Vec<PeerStep>,
    pub env: Vec<EnvStep>,
    pub sched: Sched,
    /// drop all SendRequest handles when all requests have been issued
    pub drop_sr_when_done: bool,
    /// properties this scenario is aimed at (informational)
    pub aims: Vec<String>,
    /// both applications cooperate (free of circular waits, everything read and released):
    /// the progress rule (C06) applies
    pub coop: bool,
}
