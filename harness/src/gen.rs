//! Seeded random scenario generators (inputs only).
use crate::scenario::*;
use rand::rngs::StdRng;
use rand::seq::SliceRandom;
use rand::{Rng, SeedableRng};

pub const SIZES: [usize; 22] = [0, 1, 2, 9, 100, 255, 256, 257, 1023, 1024, 1025, 4096, 16383, 16384, 16385, 21845, 32768, 43690, 65535, 65536, 70000, 150000];
pub const WINDOWS: [u32; 12] = [0, 1, 2, 100, 1000, 16384, 21845, 43690, 65535, 65536, 200000, 1 << 20];
pub const CODES: [u32; 14] = [0, 1, 2, 3, 5, 7, 8, 11, 13, 14, 255, 65536, 0x7fff_ffff, 0xdead_beef];

fn pick<T: Copy>(rng: &mut StdRng, v: &[T]) -> T {
    *v.choose(rng).unwrap()
}

fn small_hid(rng: &mut StdRng) -> usize {
    // mostly small header lists, sometimes huge (CONTINUATION)
    if rng.gen_bool(0.15) {
        pick(rng, &[7usize, 8, 9, 20, 21])
    } else {
        pick(rng, &[0usize, 1, 2, 3, 4, 5, 6, 10, 11, 12, 13, 15, 16, 17, 19, 22, 23])
    }
}

fn body_ops(rng: &mut StdRng, allow_reset: bool) -> (Vec<SendOp>, bool) {
    // returns ops and whether the stream is ended cleanly by them
    let mut ops = vec![];
    let n = rng.gen_range(0..4);
    let mut ended = false;
    for i in 0..n {
        let last = i == n - 1;
        let sz = pick(rng, &SIZES);
        let eos = last && rng.gen_bool(0.7);
        match rng.gen_range(0..10) {
            0..=4 => ops.push(SendOp::Data { n: sz, eos }),
            5..=7 => ops.push(SendOp::DataCap { n: sz, eos }),
            8 => {
                ops.push(SendOp::Reserve { n: sz });
                ops.push(SendOp::Cap);
                ops.push(SendOp::Data { n: sz, eos });
            }
            _ => {
                ops.push(SendOp::Reserve { n: sz });
                // nothing requested => poll_capacity has nothing to wait for (it would park for ever, as documented): poll it once only
                ops.push(if sz == 0 { SendOp::PollCapOnce } else { SendOp::PollCap });
                ops.push(SendOp::Reserve { n: sz / 2 });
                ops.push(SendOp::Data { n: sz / 2, eos });
            }
        }
        if eos {
            ended = true;
        }
        if rng.gen_bool(0.1) {
            ops.push(SendOp::Yield);
        }
    }
    if !ended {
        match rng.gen_range(0..10) {
            0..=3 => {
                ops.push(SendOp::Trailers { hid: small_hid(rng) });
                ended = true;
            }
            4..=6 => {
                ops.push(SendOp::Data { n: 0, eos: true });
                ended = true;
            }
            7 if allow_reset => ops.push(SendOp::Reset { code: pick(rng, &CODES) }),
            8 if allow_reset => ops.push(SendOp::Drop),
            _ => {
                ops.push(SendOp::Data { n: pick(rng, &SIZES), eos: true });
                ended = true;
            }
        }
    }
    (ops, ended)
}

fn read_pol(rng: &mut StdRng, disrupt: bool) -> ReadPol {
    let mut p = ReadPol::default();
    p.release = pick(rng, &["now", "now", "now", "late", "half", "never"]).to_string();
    if disrupt {
        if rng.gen_bool(0.08) {
            p.drop_head = true;
        }
        if rng.gen_bool(0.12) {
            p.max_chunks = Some(rng.gen_range(0..3));
        }
    }
    if p.release == "never" || p.release == "half" {
        // holding capacity for ever would stall a cooperating peer by design: let go eventually
        p.release = "late".into();
    }
    if rng.gen_bool(0.1) {
        p.trailers_first = true;
    }
    p
}

fn ep_cfg(rng: &mut StdRng, server: bool) -> EpCfg {
    let mut c = EpCfg::default();
    if rng.gen_bool(0.5) {
        c.iws = Some(pick(rng, &[1u32, 100, 1000, 16384, 21845, 65535, 100000, 1 << 20]));
    }
    if rng.gen_bool(0.3) {
        c.conn_win = Some(pick(rng, &[65535u32, 65536, 100000, 1 << 20, 1000, 30000]));
    }
    if rng.gen_bool(0.3) {
        c.max_frame = Some(pick(rng, &[16384u32, 16385, 20000, 65536, 1 << 20, (1 << 24) - 1]));
    }
    if rng.gen_bool(0.3) && server {
        c.max_conc = Some(pick(rng, &[1u32, 2, 3, 100]));
    }
    if rng.gen_bool(0.2) {
        c.hdr_table = Some(pick(rng, &[0u32, 64, 200, 4096, 8192]));
    }
    if rng.gen_bool(0.3) {
        c.max_send_buf = Some(pick(rng, &[1usize, 100, 16384, 65536, 1 << 20]));
    }
    if rng.gen_bool(0.2) {
        c.reset_max = Some(pick(rng, &[0usize, 1, 2, 10]));
    }
    c
}

/// Mode A: real client and real server, random programs and schedules.
/// `disrupt` enables resets / drops / early handle drops.
pub fn mix_a(seed: u64, disrupt: bool) -> Scenario {
    let mut rng = StdRng::seed_from_u64(seed ^ 0xA11CE);
    let mut s = Scenario::default();
    s.name = format!("mixA{}-{}", if disrupt { "d" } else { "" }, seed);
    s.mode = "A".into();
    s.sched.seed = seed;
    s.ccfg = ep_cfg(&mut rng, false);
    s.scfg = ep_cfg(&mut rng, true);
    let push = rng.gen_bool(0.3);
    s.ccfg.enable_push = Some(push);
    for ep in 0..2 {
        if rng.gen_bool(0.35) {
            s.io.wmax[ep] = pick(&mut rng, &[1usize, 3, 9, 10, 64, 1000, 16384, 20000]);
        }
        if rng.gen_bool(0.35) {
            s.io.rmax[ep] = pick(&mut rng, &[1usize, 2, 5, 9, 64, 1000, 16393]);
        }
        s.io.vectored[ep] = rng.gen_bool(0.5);
    }
    s.io.deliver = pick(&mut rng, &["all", "all", "rand", "rand", "small"]).to_string();
    let tiny_win = |c: &EpCfg| c.iws.map(|v| v < 1000).unwrap_or(false) || c.conn_win.map(|v| v < 10000).unwrap_or(false) || c.max_send_buf.map(|v| v < 1000).unwrap_or(false);
    let env_win: Option<u32> = if rng.gen_bool(0.2) { Some(pick(&mut rng, &WINDOWS)) } else { None };
    let big_bodies = s.io.wmax.iter().chain(s.io.rmax.iter()).all(|&x| x == 0 || x >= 64) && s.io.deliver != "small"
        && !tiny_win(&s.ccfg) && !tiny_win(&s.scfg) && env_win.map(|v| v >= 1000).unwrap_or(true);
    let nreq = rng.gen_range(1..6);
    for i in 0..nreq {
        let mut r = ReqProg::default();
        r.tag = i + 1;
        r.ready = rng.gen_bool(0.8);
        r.hid = small_hid(&mut rng);
        r.method = pick(&mut rng, &["POST", "POST", "GET", "PUT"]).to_string();
        let (mut ops, _) = body_ops(&mut rng, disrupt);
        if !big_bodies {
            shrink(&mut ops);
        }
        if rng.gen_bool(0.25) {
            r.eos = true;
            ops.clear();
        }
        r.ops = ops;
        if !big_bodies && [7usize, 8, 9, 20, 21, 6, 16].contains(&r.hid) {
            r.hid = 5;
        }
        r.read = read_pol(&mut rng, disrupt);
        r.read.info = rng.gen_bool(0.3);
        r.read.push = push && rng.gen_bool(0.7);
        if rng.gen_bool(0.15) {
            r.start_q = Some(1);
        }
        s.reqs.push(r);
    }
    let nsrv = rng.gen_range(1..4);
    for _ in 0..nsrv {
        let mut ops = vec![];
        for _ in 0..rng.gen_range(0..3) {
            if rng.gen_bool(0.4) {
                ops.push(SendOp::Info { status: pick(&mut rng, &[100u16, 103, 103]) });
            }
        }
        if push && rng.gen_bool(0.5) {
            let ptag = 100 + rng.gen_range(0..50);
            let (mut pops, _) = body_ops(&mut rng, disrupt);
            if !big_bodies {
                shrink(&mut pops);
            }
            let mut all = vec![SendOp::Response { status: 200, hid: small_hid(&mut rng), eos: false }];
            all.append(&mut pops);
            ops.push(SendOp::Push { tag: ptag, hid: small_hid(&mut rng), ops: all });
        }
        if disrupt && rng.gen_bool(0.08) {
            ops.push(SendOp::Reset { code: pick(&mut rng, &CODES) });
        } else {
            let eos = rng.gen_bool(0.3);
            ops.push(SendOp::Response { status: pick(&mut rng, &[200u16, 200, 404, 204]), hid: small_hid(&mut rng), eos });
            if !eos {
                let (mut b, _) = body_ops(&mut rng, disrupt);
                if !big_bodies {
                    shrink(&mut b);
                }
                ops.append(&mut b);
            }
        }
        if !big_bodies {
            for o in ops.iter_mut() {
                match o {
                    SendOp::Response { hid, .. } | SendOp::Push { hid, .. } => {
                        if [7usize, 8, 9, 20, 21, 6, 16].contains(hid) {
                            *hid = 5;
                        }
                    }
                    _ => {}
                }
                if let SendOp::Push { ops: pops, .. } = o {
                    for po in pops.iter_mut() {
                        if let SendOp::Response { hid, .. } = po {
                            if [7usize, 8, 9, 20, 21, 6, 16].contains(hid) {
                                *hid = 5;
                            }
                        }
                    }
                }
            }
        }
        s.srv.push(SrvProg { ops, read: read_pol(&mut rng, disrupt), note: String::new() });
    }
    // environment
    if rng.gen_bool(0.35) {
        let ep = rng.gen_range(0..2);
        let at = rng.gen_range(5..150);
        s.env.push(EnvStep { at: "step".into(), n: at, op: EnvOp::Budget { ep, n: Some(rng.gen_range(0..40)) } });
        if rng.gen_bool(0.5) {
            s.env.push(EnvStep { at: "step".into(), n: at + rng.gen_range(1..80), op: EnvOp::Budget { ep, n: None } });
        } else {
            s.env.push(EnvStep { at: "q".into(), n: 1, op: EnvOp::Budget { ep, n: None } });
        }
    }
    if let Some(v) = env_win {
        let ep = rng.gen_range(0..2);
        s.env.push(EnvStep { at: "step".into(), n: rng.gen_range(5..150), op: EnvOp::Conn { ep, op: "initial_window".into(), n: v } });
    }
    if rng.gen_bool(0.15) {
        let ep = rng.gen_range(0..2);
        s.env.push(EnvStep { at: "step".into(), n: rng.gen_range(5..150), op: EnvOp::Conn { ep, op: "target_window".into(), n: pick(&mut rng, &[1000u32, 65535, 70000, 1 << 20]) } });
    }
    if rng.gen_bool(0.2) {
        s.env.push(EnvStep { at: "step".into(), n: rng.gen_range(5..150), op: EnvOp::Ping { ep: rng.gen_range(0..2) } });
    }
    if rng.gen_bool(0.3) {
        s.env.push(EnvStep { at: "step".into(), n: rng.gen_range(5..200), op: EnvOp::Census });
    }
    s.env.push(EnvStep { at: "q".into(), n: 1, op: EnvOp::Census });
    s.drop_sr_when_done = rng.gen_bool(0.7);
    if !s.drop_sr_when_done {
        s.env.push(EnvStep { at: "q".into(), n: 2, op: EnvOp::DropSr });
    }
    s.sched.then = pick(&mut rng, &["random", "random", "random", "fifo", "lifo"]).to_string();
    let pol_ok = |p: &ReadPol| p.release == "now" && !p.idle;
    // resets, drops and early handle drops do not create circular waits: the run is still cooperative
    s.coop = s.reqs.iter().all(|r| pol_ok(&r.read)) && s.srv.iter().all(|p| pol_ok(&p.read))
        && !s.env.iter().any(|e| matches!(&e.op, EnvOp::Conn { op, n, .. } if op == "initial_window" && *n == 0));
    s
}

fn shrink(ops: &mut Vec<SendOp>) {
    for o in ops.iter_mut() {
        match o {
            SendOp::Data { n, .. } | SendOp::DataCap { n, .. } | SendOp::Reserve { n } => {
                if *n > 300 {
                    *n = 257 + (*n % 13);
                }
            }
            SendOp::Trailers { hid } => {
                if [7usize, 8, 9, 20, 21, 6, 16, 12, 22].contains(hid) {
                    *hid = 1;
                }
            }
            _ => {}
        }
    }
}

pub fn basic(seed: u64) -> Scenario {
    mix_a(seed, false)
}

pub fn by_family(fam: &str, seed: u64) -> Scenario {
    match fam {
        "mixA" => mix_a(seed, false),
        "mixAd" => mix_a(seed, true),
        "bpReset" => bp_reset(seed),
        "flowBs" => flow_bs(seed),
        "flowBc" => flow_bc(seed),
        "capRace" => cap_race(seed),
        "ctlB" => ctl_b(seed),
        "concBc" => conc_bc(seed),
        "faultA" => fault_a(seed),
        "abuseB" => abuse_b(seed),
        "shutdownBs" => shutdown_bs(seed),
        "goawayBc" => goaway_bc(seed),
        "shutdownA" => shutdown_a(seed),
        "floodBs" => flood_bs(seed),
        "floodBc" => flood_bc(seed),
        "inlineA" => inline_a(seed),
        "wuBurstBs" => wu_burst_bs(seed),
        "mutateB" => mutate_b(seed),
        "rstRaceBc" => rst_race_bc(seed),
        "pushRaceBs" => push_race_bs(seed),
        "pushRaceBc" => push_race_bc(seed),
        "cancelA" => cancel_a(seed),
        "capWaitBc" => cap_wait_bc(seed),
        "pingsA" => pings_a(seed),
        _ => mix_a(seed, false),
    }
}

// ---------------------------------------------------------------------------
// Mode A with back-pressure: several streams with multi-frame bodies, the writer's transport is blocked
// after k bytes (a frame is left partly written), then at the first quiescence one stream is reset /
// dropped / ends, then writes are unblocked. Everything else must be unaffected (C17, C01, C06, C16).
pub fn bp_reset(seed: u64) -> Scenario {
    let mut rng = StdRng::seed_from_u64(seed ^ 0xB9_5E7);
    let mut s = Scenario::default();
    s.name = format!("bpReset-{}", seed);
    s.mode = "A".into();
    s.sched.seed = seed;
    let side = rng.gen_range(0..2); // whose writes are blocked: 0 client (request bodies), 1 server (response bodies)
    let nreq = rng.gen_range(2..4);
    let victim = rng.gen_range(0..nreq);
    let act = rng.gen_range(0..4); // what happens to the victim at q1
    let victim_op = |rng: &mut StdRng| -> Vec<SendOp> {
        match act {
            0 => vec![SendOp::WaitQ { k: 1 }, SendOp::Reset { code: pick(rng, &CODES) }],
            1 => vec![SendOp::WaitQ { k: 1 }, SendOp::Drop],
            2 => vec![SendOp::WaitQ { k: 1 }, SendOp::Data { n: 10, eos: true }],
            _ => vec![SendOp::WaitQ { k: 1 }, SendOp::Reserve { n: 0 }, SendOp::Reset { code: 8 }],
        }
    };
    let big = |rng: &mut StdRng| pick(rng, &[16385usize, 20000, 32768, 40000, 50000]);
    for i in 0..nreq {
        let mut r = ReqProg::default();
        r.tag = i + 1;
        r.ready = true;
        r.hid = pick(&mut rng, &[0usize, 1, 3]);
        if side == 0 {
            // the bystanders either end with their big chunk or send a little more after the back-pressure is gone
            let more = i != victim && rng.gen_bool(0.5);
            let mut ops = vec![SendOp::Data { n: big(&mut rng), eos: i != victim && !more }];
            if i == victim {
                ops.append(&mut victim_op(&mut rng));
            } else if more {
                ops.push(SendOp::WaitQ { k: 3 });
                ops.push(if rng.gen_bool(0.5) { SendOp::Data { n: 10, eos: true } } else { SendOp::Trailers { hid: 1 } });
            }
            r.ops = ops;
        } else {
            r.eos = true;
        }
        s.reqs.push(r);
    }
    if side == 1 {
        for i in 0..nreq {
            let more = i != victim && rng.gen_bool(0.5);
            let mut ops = vec![SendOp::Response { status: 200, hid: 0, eos: false }, SendOp::Data { n: big(&mut rng), eos: i != victim && !more }];
            if i == victim {
                ops.append(&mut victim_op(&mut rng));
            } else if more {
                ops.push(SendOp::WaitQ { k: 3 });
                ops.push(if rng.gen_bool(0.5) { SendOp::Data { n: 10, eos: true } } else { SendOp::Trailers { hid: 1 } });
            }
            s.srv.push(SrvProg { ops, read: ReadPol::default(), note: String::new() });
        }
    } else {
        s.srv.push(SrvProg { ops: vec![SendOp::Response { status: 200, hid: 0, eos: true }], read: ReadPol::default(), note: String::new() });
    }
    // the peer's receive windows are big enough that only the transport blocks
    let bigw = EpCfg { iws: Some(1 << 20), conn_win: Some(1 << 22), ..Default::default() };
    if side == 0 {
        s.scfg = bigw;
    } else {
        s.ccfg = bigw;
    }
    // block after the handshake + k bytes; the byte budget is taken at an early step
    let k = pick(&mut rng, &[100usize, 1000, 9000, 16393 + 9, 16500, 20000, 33000, 40000]);
    s.env.push(EnvStep { at: "step".into(), n: rng.gen_range(8..14), op: EnvOp::Budget { ep: side, n: Some(k) } });
    s.env.push(EnvStep { at: "q".into(), n: 2, op: EnvOp::Budget { ep: side, n: None } });
    s.env.push(EnvStep { at: "q".into(), n: 3, op: EnvOp::Census });
    s.io.wmax[side] = pick(&mut rng, &[0usize, 0, 1000, 16384, 5000]);
    s.drop_sr_when_done = true;
    s.coop = true;
    s.sched.then = "random".into();
    s
}

// ---------------------------------------------------------------------------
// Mode Bs: real server, scripted client peer. Receive-side flow control (C03): the peer exhausts the
// server's stream / connection windows exactly, with padded, padding-only and empty frames, on live,
// reset, refused, unaccepted and closed streams; then waits. The window must come back.
pub fn flow_bs(seed: u64) -> Scenario {
    let mut rng = StdRng::seed_from_u64(seed ^ 0xF10B5);
    let mut s = Scenario::default();
    s.name = format!("flowBs-{}", seed);
    s.mode = "Bs".into();
    s.sched.seed = seed;
    let iws = pick(&mut rng, &[256u32, 1000, 4096, 16384, 65535]);
    s.scfg.iws = Some(iws);
    if rng.gen_bool(0.3) {
        s.scfg.max_conc = Some(1);
    }
    if rng.gen_bool(0.2) {
        s.scfg.reset_max = Some(pick(&mut rng, &[0usize, 1]));
    }
    s.peer_cfg.ack_settings = true;
    s.peer_cfg.ack_ping = true;
    s.peer_cfg.grant = "all".into();
    s.peer_cfg.settings = vec![];
    let variant = rng.gen_range(0..6);
    // server application behaviour per accepted stream
    let rel = "now".to_string();
    let mut read = ReadPol { release: rel, ..Default::default() };
    let mut ops = vec![SendOp::Response { status: 200, hid: 0, eos: true }];
    match variant {
        1 => read.max_chunks = Some(rng.gen_range(0..2)), // drop the RecvStream early
        2 => ops = vec![SendOp::Reset { code: pick(&mut rng, &CODES) }], // reset before responding
        3 => read.drop_head = true,
        4 => s.srv_no_accept = true,
        _ => {}
    }
    s.srv.push(SrvProg { ops, read, note: String::new() });
    let nstreams = if s.scfg.max_conc == Some(1) { 2 } else { rng.gen_range(1..3) };
    let mut steps = vec![PeerStep::WaitQ];
    let mut conn_left: i64 = 65535;
    for i in 0..nstreams {
        let sid = 1 + 2 * i as u32;
        steps.push(PeerStep::Headers { sid, hid: 0, fields: vec![], eos: false, frag: 0, huff: rng.gen_bool(0.3), status: 0, req: true, method: "POST".into(), tag: sid });
        // exhaust this stream's window exactly, in frames of assorted shapes
        let mut left = (iws as i64).min(conn_left);
        let mut guard = 0;
        while left > 0 && guard < 40 {
            guard += 1;
            let shape = rng.gen_range(0..6);
            let (n, pad): (usize, Option<u8>) = match shape {
                0 => (left.min(16384) as usize, None),
                1 => {
                    let p = rng.gen_range(0..=255u8).min((left - 1).max(0).min(255) as u8);
                    ((left - 1 - p as i64).max(0).min(rng.gen_range(0..2000)) as usize, Some(p))
                }
                2 => (0, Some(((left - 1).min(255)) as u8)), // padding only
                3 => (0, Some(0)),
                4 => (rng.gen_range(1..=left.min(300)) as usize, None),
                _ => ((left.min(16384) as usize).min(rng.gen_range(1..20000)), None),
            };
            let fc = n as i64 + pad.map(|p| 1 + p as i64).unwrap_or(0);
            if fc == 0 || fc > left {
                continue;
            }
            steps.push(PeerStep::Data { sid, n, eos: false, pad });
            left -= fc;
            conn_left -= fc;
            if rng.gen_bool(0.15) {
                steps.push(PeerStep::WaitQ);
            }
        }
        steps.push(PeerStep::WaitQ);
        if variant == 5 {
            // the peer resets its own stream after filling the window
            steps.push(PeerStep::Rst { sid, code: pick(&mut rng, &CODES) });
            steps.push(PeerStep::WaitQ);
        }
    }
    // later: finish the streams properly if still possible (empty DATA with END_STREAM costs nothing)
    for i in 0..nstreams {
        let sid = 1 + 2 * i as u32;
        if variant != 5 {
            steps.push(PeerStep::Data { sid, n: 0, eos: true, pad: None });
        }
    }
    steps.push(PeerStep::WaitQ);
    s.peer = steps;
    s.peer_cfg.grant = "none".into();
    s.env.push(EnvStep { at: "q".into(), n: 2, op: EnvOp::Census });
    s
}

// ---------------------------------------------------------------------------
// Mode Bc: real client, scripted server peer. Send-side flow control and the capacity API (C02, C16):
// the peer's SETTINGS / WINDOW_UPDATE patterns are scripted; windows go to 0, negative, back up.
pub fn flow_bc(seed: u64) -> Scenario {
    let mut rng = StdRng::seed_from_u64(seed ^ 0xF10BC);
    let mut s = Scenario::default();
    s.name = format!("flowBc-{}", seed);
    s.mode = "Bc".into();
    s.sched.seed = seed;
    let unit = 21845u32;
    let w0 = pick(&mut rng, &[0u32, 1, 100, unit, 2 * unit, 65535, 100000]);
    s.peer_cfg.settings = vec![(4, w0)];
    if rng.gen_bool(0.3) {
        s.peer_cfg.settings.push((5, pick(&mut rng, &[16384u32, 20000, 65536])));
    }
    if rng.gen_bool(0.3) {
        s.peer_cfg.settings.push((3, pick(&mut rng, &[1u32, 2])));
    }
    s.peer_cfg.ack_settings = true;
    s.peer_cfg.ack_ping = true;
    s.peer_cfg.grant = "none".into();
    s.peer_cfg.respond = true;
    if rng.gen_bool(0.3) {
        s.ccfg.max_send_buf = Some(pick(&mut rng, &[1000usize, 16384, 65536, 1 << 20]));
    }
    let nreq = rng.gen_range(1..4);
    let sizes = [0usize, 1, 100, unit as usize, 2 * unit as usize, 65535, 70000];
    for i in 0..nreq {
        let mut r = ReqProg::default();
        r.tag = i + 1;
        r.ready = true;
        let mut ops = vec![];
        match rng.gen_range(0..5) {
            0 => ops.push(SendOp::Data { n: pick(&mut rng, &sizes), eos: true }),
            1 => ops.push(SendOp::DataCap { n: pick(&mut rng, &sizes), eos: true }),
            2 => {
                ops.push(SendOp::Reserve { n: pick(&mut rng, &sizes) });
                ops.push(SendOp::PollCap);
                ops.push(SendOp::SendCap { eos: false });
                ops.push(SendOp::WaitQ { k: 2 });
                ops.push(SendOp::Reserve { n: pick(&mut rng, &sizes) });
                ops.push(SendOp::WaitQ { k: 3 });
                ops.push(SendOp::SendCap { eos: true });
            }
            3 => {
                ops.push(SendOp::Reserve { n: pick(&mut rng, &sizes) });
                ops.push(SendOp::WaitQ { k: 1 });
                ops.push(SendOp::Reserve { n: 0 });
                ops.push(SendOp::WaitQ { k: 2 });
                ops.push(if rng.gen_bool(0.5) { SendOp::Reset { code: 8 } } else { SendOp::Data { n: 5, eos: true } });
            }
            _ => {
                ops.push(SendOp::Data { n: pick(&mut rng, &sizes), eos: false });
                ops.push(SendOp::WaitQ { k: rng.gen_range(1..4) });
                ops.push(match rng.gen_range(0..3) { 0 => SendOp::Reset { code: pick(&mut rng, &CODES) }, 1 => SendOp::Drop, _ => SendOp::Data { n: 1, eos: true } });
            }
        }
        r.ops = ops;
        s.reqs.push(r);
    }
    // peer script: at each quiescence one flow-control move
    let mut steps = vec![];
    let nsteps = rng.gen_range(2..9);
    for _ in 0..nsteps {
        steps.push(PeerStep::WaitQ);
        let sid = if rng.gen_bool(0.3) { 0 } else { 1 + 2 * rng.gen_range(0..nreq) };
        match rng.gen_range(0..7) {
            0 | 1 => steps.push(PeerStep::Wu { sid, inc: pick(&mut rng, &[1u32, 100, unit, 2 * unit, 65535]) }),
            2 => steps.push(PeerStep::Settings { vals: vec![(4, pick(&mut rng, &[0u32, 1, unit, 2 * unit, 65535, 200000]))] }),
            3 => {
                steps.push(PeerStep::Settings { vals: vec![(4, pick(&mut rng, &[0u32, unit, 65535]))] });
                steps.push(PeerStep::Settings { vals: vec![(4, pick(&mut rng, &[0u32, unit, 3 * unit]))] });
            }
            4 => {
                steps.push(PeerStep::Wu { sid: 0, inc: 65535 });
                steps.push(PeerStep::Wu { sid, inc: unit });
            }
            5 => steps.push(PeerStep::Rst { sid: if sid == 0 { 1 } else { sid }, code: pick(&mut rng, &CODES) }),
            _ => steps.push(PeerStep::Wu { sid, inc: 70000 }),
        }
    }
    // finally open everything up so that remaining transfers complete
    steps.push(PeerStep::WaitQ);
    steps.push(PeerStep::Settings { vals: vec![(4, 1 << 20)] });
    steps.push(PeerStep::Auto { ack_settings: None, ack_ping: None, grant: Some("all".into()), respond: None });
    steps.push(PeerStep::Wu { sid: 0, inc: 1 << 20 });
    steps.push(PeerStep::WaitQ);
    s.peer = steps;
    for q in 1..5 {
        s.env.push(EnvStep { at: "q".into(), n: q, op: EnvOp::Census });
    }
    s.drop_sr_when_done = true;
    s
}

// ---------------------------------------------------------------------------
// Mode Bc: competition for the connection window (stream windows are huge). Streams send / reserve
// more than 65 535 bytes in total, so some wait; then one of them goes away (peer RST_STREAM, user reset,
// drop, end of stream, lowered reservation). What it held must reach the others (C16 f, C06).
pub fn cap_race(seed: u64) -> Scenario {
    let mut rng = StdRng::seed_from_u64(seed ^ 0xCA9_0ACE);
    let mut s = Scenario::default();
    s.name = format!("capRace-{}", seed);
    s.mode = "Bc".into();
    s.sched.seed = seed;
    s.peer_cfg.settings = vec![(4, 1 << 24), (5, pick(&mut rng, &[16384u32, 65536]))];
    s.peer_cfg.ack_settings = true;
    s.peer_cfg.ack_ping = true;
    s.peer_cfg.grant = "none".into();
    s.peer_cfg.respond = false;
    let n: u32 = rng.gen_range(2..4);
    // the stream that goes away is the first task: with "appfirst" scheduling its calls come first
    let victim = if rng.gen_bool(0.7) { 0 } else { rng.gen_range(0..n) };
    let how = rng.gen_range(0..5);
    // phase 1: the others use up part of the connection window (written out, nobody waits)
    let mut left: i64 = 65535;
    let q2 = n as usize + 1; // the quiescence at which phase 2 happens
    for i in 0..n {
        let mut r = ReqProg::default();
        r.tag = i + 1;
        r.ready = true;
        r.start_q = if i == 0 { None } else { Some(i as usize) };
        let mut ops = vec![];
        if i != victim && left > 20000 && rng.gen_bool(0.7) {
            let k = pick(&mut rng, &[5000i64, 10000, 20000, 40000]).min(left - 5000);
            ops.push(SendOp::Data { n: k as usize, eos: false });
            left -= k;
        }
        ops.push(SendOp::WaitQ { k: q2 });
        if i == victim {
            // takes everything that is left and wants more: partly satisfied, queued for capacity with data unwritten
            match rng.gen_range(0..3) {
                0 => ops.push(SendOp::Data { n: (left + pick(&mut rng, &[1i64, 4465, 30000])) as usize, eos: false }),
                1 => {
                    ops.push(SendOp::Reserve { n: (left + 10000) as usize });
                    ops.push(SendOp::PollCapOnce);
                }
                _ => {
                    ops.push(SendOp::Data { n: pick(&mut rng, &[1000usize, 10000]), eos: false });
                    ops.push(SendOp::Reserve { n: (left + 10000) as usize });
                }
            }
        } else {
            match rng.gen_range(0..3) {
                0 => ops.push(SendOp::Reserve { n: pick(&mut rng, &[1000usize, 10000, 30000]) }),
                1 => ops.push(SendOp::Data { n: pick(&mut rng, &[1000usize, 10000, 30000]), eos: false }),
                _ => {
                    ops.push(SendOp::Reserve { n: pick(&mut rng, &[1000usize, 10000, 30000]) });
                    ops.push(SendOp::PollCapOnce);
                }
            }
        }
        // phase 3: the victim leaves by itself (variants 1..4); variant 0: the peer resets it
        ops.push(SendOp::WaitQ { k: q2 + 1 });
        if i == victim {
            match how {
                1 => ops.push(SendOp::Reset { code: 8 }),
                2 => ops.push(SendOp::Drop),
                3 => ops.push(SendOp::Reserve { n: 0 }),
                4 => ops.push(SendOp::Data { n: 0, eos: true }),
                _ => {}
            }
        }
        ops.push(SendOp::PollCapOnce);
        ops.push(SendOp::WaitQ { k: q2 + 3 });
        ops.push(SendOp::PollCapOnce);
        ops.push(SendOp::WaitQ { k: q2 + 5 });
        r.ops = ops;
        r.read = ReadPol { idle: true, hold_q: Some(q2 + 5), ..Default::default() };
        s.reqs.push(r);
    }
    let mut steps = vec![];
    // the peer's reset either races with the phase-2 calls (same quiescence: the connection task may read it
    // before it has written what was just queued) or comes one quiescence later
    let racing = how == 0 && rng.gen_bool(0.6);
    let noop = || PeerStep::Auto { ack_settings: None, ack_ping: None, grant: None, respond: None };
    for i in 0..q2 {
        steps.push(PeerStep::WaitQ);
        if racing && i == q2 - 1 {
            steps.push(PeerStep::Rst { sid: 1 + 2 * victim, code: pick(&mut rng, &CODES) });
        } else {
            steps.push(noop());
        }
    }
    steps.push(PeerStep::WaitQ);
    if how == 0 && !racing {
        steps.push(PeerStep::Rst { sid: 1 + 2 * victim, code: pick(&mut rng, &CODES) });
    } else {
        steps.push(noop());
    }
    steps.push(PeerStep::WaitQ);
    steps.push(noop());
    steps.push(PeerStep::WaitQ);
    // a little more connection window at the end: whoever still waits must get it
    steps.push(PeerStep::Wu { sid: 0, inc: pick(&mut rng, &[1000u32, 20000, 65535]) });
    steps.push(PeerStep::WaitQ);
    s.peer = steps;
    s.drop_sr_when_done = true;
    s.sched.then = pick(&mut rng, &["random", "appfirst", "appfirst"]).to_string();
    s
}

// ---------------------------------------------------------------------------
// Mode Bc / Bs: control frames under write back-pressure (C14, C15, C18): the real endpoint is in the
// middle of writing a large DATA frame (or a header block with CONTINUATION) when its transport blocks;
// the scripted peer then sends bursts of SETTINGS / PING (also back to back); later writes are unblocked.
pub fn ctl_b(seed: u64) -> Scenario {
    let mut rng = StdRng::seed_from_u64(seed ^ 0xC71B);
    let mut s = Scenario::default();
    let server = rng.gen_bool(0.4);
    s.name = format!("ctlB-{}", seed);
    s.mode = if server { "Bs".into() } else { "Bc".into() };
    s.sched.seed = seed;
    let real = if server { 1 } else { 0 };
    s.peer_cfg.settings = vec![(4, 1 << 20)];
    s.peer_cfg.ack_settings = true;
    s.peer_cfg.ack_ping = true;
    s.peer_cfg.grant = "all".into();
    s.peer_cfg.respond = true;
    let big = pick(&mut rng, &[20000usize, 40000, 65535]);
    let hid = if rng.gen_bool(0.3) { pick(&mut rng, &[7usize, 9]) } else { 0 };
    let mut steps = vec![];
    if server {
        s.srv.push(SrvProg { ops: vec![SendOp::Response { status: 200, hid, eos: false }, SendOp::Data { n: big, eos: true }], read: ReadPol::default(), note: String::new() });
        steps.push(PeerStep::Wu { sid: 0, inc: 1 << 20 });
        steps.push(PeerStep::Headers { sid: 1, hid: 0, fields: vec![], eos: true, frag: 0, huff: false, status: 0, req: true, method: "GET".into(), tag: 1 });
    } else {
        let mut r = ReqProg::default();
        r.tag = 1;
        r.ready = true;
        r.hid = hid;
        r.ops = vec![SendOp::Data { n: big, eos: true }];
        s.reqs.push(r);
        steps.push(PeerStep::Wu { sid: 0, inc: 1 << 20 });
    }
    // the real endpoint's writes block after k bytes (somewhere inside the DATA frame / header block)
    let k = pick(&mut rng, &[200usize, 1000, 5000, 16000, 16393, 17000, 30000]);
    s.env.push(EnvStep { at: "step".into(), n: rng.gen_range(6..12), op: EnvOp::Budget { ep: real, n: Some(k) } });
    // at the first quiescence (writer blocked): the burst
    steps.push(PeerStep::WaitQ);
    let burst = rng.gen_range(1..6);
    for _ in 0..burst {
        match rng.gen_range(0..6) {
            0 => steps.push(PeerStep::Settings { vals: vec![(3, pick(&mut rng, &[1u32, 10, 100]))] }),
            1 => steps.push(PeerStep::Settings { vals: vec![(4, pick(&mut rng, &[0u32, 65535, 1 << 20, 100000]))] }),
            2 => steps.push(PeerStep::Settings { vals: vec![(5, pick(&mut rng, &[16384u32, 32768, 1 << 20])), (1, pick(&mut rng, &[0u32, 100, 4096]))] }),
            3 => steps.push(PeerStep::Settings { vals: vec![] }),
            _ => steps.push(PeerStep::Ping { ack: false, pl: rng.gen() }),
        }
        if rng.gen_bool(0.2) {
            steps.push(PeerStep::WaitQ);
        }
    }
    steps.push(PeerStep::WaitQ);
    steps.push(PeerStep::Ping { ack: false, pl: rng.gen() });
    steps.push(PeerStep::WaitQ);
    s.peer = steps;
    // unblock after the burst has been delivered (quiescence 3 or later), possibly in two stages
    s.env.push(EnvStep { at: "q".into(), n: 3, op: EnvOp::Budget { ep: real, n: if rng.gen_bool(0.3) { Some(rng.gen_range(1..2000)) } else { None } } });
    s.env.push(EnvStep { at: "q".into(), n: 4, op: EnvOp::Budget { ep: real, n: None } });
    if rng.gen_bool(0.3) {
        s.env.push(EnvStep { at: "q".into(), n: 2, op: EnvOp::Ping { ep: real } });
    }
    if rng.gen_bool(0.2) {
        s.env.push(EnvStep { at: "q".into(), n: 2, op: EnvOp::Conn { ep: real, op: "initial_window".into(), n: pick(&mut rng, &[1000u32, 100000]) } });
    }
    s.drop_sr_when_done = true;
    s
}

// ---------------------------------------------------------------------------
// Mode Bc: the peer's MAX_CONCURRENT_STREAMS changes while streams are open (C05): limits 0, 1, small,
// lowered below the number of open streams, raised again; requests beyond the limit must wait and go out
// as soon as earlier streams close (END_STREAM both ways, reset by either side, dropped handles).
pub fn conc_bc(seed: u64) -> Scenario {
    let mut rng = StdRng::seed_from_u64(seed ^ 0xC0_4C);
    let mut s = Scenario::default();
    s.name = format!("concBc-{}", seed);
    s.mode = "Bc".into();
    s.sched.seed = seed;
    let l0 = pick(&mut rng, &[0u32, 1, 2, 3, 100]);
    s.peer_cfg.settings = if rng.gen_bool(0.7) { vec![(3, l0)] } else { vec![] };
    s.peer_cfg.ack_settings = true;
    s.peer_cfg.ack_ping = true;
    s.peer_cfg.grant = "all".into();
    s.peer_cfg.respond = true; // the scripted server answers 200/END_STREAM once a request has ended
    if rng.gen_bool(0.3) {
        s.ccfg.initial_max_send_streams = Some(pick(&mut rng, &[0usize, 1, 2, 5]));
    }
    let nq = 6usize;
    let nreq = rng.gen_range(3..8);
    for i in 0..nreq {
        let mut r = ReqProg::default();
        r.tag = i + 1;
        r.ready = rng.gen_bool(0.6);
        let start = rng.gen_range(0..4usize);
        r.start_q = if start == 0 { None } else { Some(start) };
        // how long the stream stays open, and how it ends
        let end_q = start + rng.gen_range(1..4);
        let mut ops = vec![];
        if rng.gen_bool(0.3) {
            r.eos = true;
        } else {
            if rng.gen_bool(0.5) {
                ops.push(SendOp::Data { n: pick(&mut rng, &[0usize, 10, 1000]), eos: false });
            }
            ops.push(SendOp::WaitQ { k: end_q.min(nq) });
            ops.push(match rng.gen_range(0..5) {
                0 => SendOp::Reset { code: pick(&mut rng, &CODES) },
                1 => SendOp::Drop,
                _ => SendOp::Data { n: 0, eos: true },
            });
        }
        r.ops = ops;
        if rng.gen_bool(0.15) {
            r.read.drop_head = true;
        }
        s.reqs.push(r);
    }
    let mut steps = vec![];
    for q in 1..=nq {
        steps.push(PeerStep::WaitQ);
        match rng.gen_range(0..6) {
            0 | 1 => steps.push(PeerStep::Settings { vals: vec![(3, pick(&mut rng, &[0u32, 1, 2, 3, 10]))] }),
            2 => {
                steps.push(PeerStep::Settings { vals: vec![(3, pick(&mut rng, &[0u32, 1, 2]))] });
                steps.push(PeerStep::Settings { vals: vec![(3, pick(&mut rng, &[1u32, 3, 100]))] });
            }
            3 if q > 1 => steps.push(PeerStep::Rst { sid: 1 + 2 * rng.gen_range(0..nreq), code: pick(&mut rng, &CODES) }),
            _ => steps.push(PeerStep::Auto { ack_settings: None, ack_ping: None, grant: None, respond: None }),
        }
    }
    // finally lift the limit so that everything queued can go out
    steps.push(PeerStep::WaitQ);
    steps.push(PeerStep::Settings { vals: vec![(3, 100)] });
    steps.push(PeerStep::WaitQ);
    s.peer = steps;
    s.drop_sr_when_done = true;
    s.sched.then = pick(&mut rng, &["random", "appfirst"]).to_string();
    s
}

// ---------------------------------------------------------------------------
// Fault enumeration (C07, C17 surfacing): a base exchange (mixA / mixAd) is first run fault-free to learn how
// many executor steps it takes; then the same exchange is re-run with one ending event injected at a chosen
// step: clean EOF, EOF with bytes lost mid-frame, read error, write error, WriteZero, connection object
// dropped, abrupt / graceful shutdown. Afterwards every task keeps going (further operations on every live handle).
pub const FAULT_KINDS: [&str; 10] = ["eof", "eof_cut", "rerr:reset", "rerr:timeout", "werr:broken", "werr:aborted", "wzero", "drop", "abrupt", "graceful"];

pub fn fault_a(seed: u64) -> Scenario {
    let mut rng = StdRng::seed_from_u64(seed ^ 0xFA_017);
    let base_seed = seed / 16; // 16 fault points / kinds per base exchange
    let mut s = mix_a(base_seed, base_seed % 2 == 1);
    s.env.retain(|e| !matches!(e.op, EnvOp::DropSr));
    let base = crate::run::run(&s, false);
    let steps = base.steps.max(2).min(3000);
    let at = rng.gen_range(1..steps);
    let ep = rng.gen_range(0..2usize);
    let kind = pick(&mut rng, &FAULT_KINDS);
    s.name = format!("faultA-{}-{}@{}e{}", seed, kind.replace(':', "_"), at, ep);
    let op = match kind {
        "drop" => EnvOp::Conn { ep, op: "drop".into(), n: 0 },
        "abrupt" => EnvOp::Conn { ep: 1, op: "abrupt_shutdown".into(), n: pick(&mut rng, &CODES) },
        "graceful" => EnvOp::Conn { ep: 1, op: "graceful_shutdown".into(), n: 0 },
        k => EnvOp::Fault { ep, kind: k.to_string() },
    };
    s.env.push(EnvStep { at: "step".into(), n: at, op });
    // unblock anything that a blocked transport would keep from finishing
    s.env.push(EnvStep { at: "q".into(), n: 1, op: EnvOp::Budget { ep: 0, n: None } });
    s.env.push(EnvStep { at: "q".into(), n: 2, op: EnvOp::Budget { ep: 1, n: None } });
    s.coop = false;
    s
}

// ---------------------------------------------------------------------------
// Mode Bc: GOAWAY from the (scripted) server at every kind of moment (C15): any last-stream-id (below, at,
// above the streams in flight, 0, 2^31-1), any code, debug data, repeated with decreasing / equal / (illegal)
// increasing ids, NO_ERROR drains; requests issued before and after.
pub fn goaway_bc(seed: u64) -> Scenario {
    let mut rng = StdRng::seed_from_u64(seed ^ 0x60A_4A1);
    let mut s = Scenario::default();
    s.name = format!("goawayBc-{}", seed);
    s.mode = "Bc".into();
    s.sched.seed = seed;
    s.peer_cfg.settings = vec![(4, 1 << 20)];
    s.peer_cfg.ack_settings = true;
    s.peer_cfg.ack_ping = true;
    s.peer_cfg.grant = "all".into();
    s.peer_cfg.respond = true;
    let nreq = rng.gen_range(2..6);
    let gq = rng.gen_range(1..4usize); // quiescence at which the GOAWAY is sent
    for i in 0..nreq {
        let mut r = ReqProg::default();
        r.tag = i + 1;
        r.ready = rng.gen_bool(0.7);
        let start = rng.gen_range(0..5usize);
        r.start_q = if start == 0 { None } else { Some(start) };
        if rng.gen_bool(0.4) {
            r.eos = true;
        } else {
            r.ops = vec![SendOp::Data { n: pick(&mut rng, &[10usize, 1000, 20000]), eos: false }, SendOp::WaitQ { k: start + rng.gen_range(1..4) },
                         SendOp::Data { n: pick(&mut rng, &[0usize, 10]), eos: true }];
        }
        s.reqs.push(r);
    }
    let mut steps = vec![];
    // a third of the runs: a user ping is outstanding, its acknowledgement arrives in the same read as the GOAWAY (the
    // connection may end before the application looks at the pong); the application pings again after the end
    let ping_race = seed % 3 == 0;
    let gq = if ping_race { gq + 1 } else { gq };
    if ping_race {
        s.peer_cfg.ack_ping = false;
        s.env.push(EnvStep { at: "q".into(), n: (gq - 1) as u64, op: EnvOp::Ping { ep: 0 } });
        s.env.push(EnvStep { at: "q".into(), n: (gq + 2) as u64, op: EnvOp::Ping { ep: 0 } });
    }
    for q in 1..=5usize {
        steps.push(PeerStep::WaitQ);
        if q == gq {
            if ping_race {
                steps.push(PeerStep::Raw { hex: "0000080601000000003b7cdb7a0b8716b4".into() }); // PING ACK with h2's user-ping payload
            }
            let last = pick(&mut rng, &[0u32, 1, 3, 5, 7, 0x7fff_ffff]);
            let code = if rng.gen_bool(0.5) { 0 } else { pick(&mut rng, &CODES) };
            steps.push(PeerStep::Goaway { last, code, dbg: pick(&mut rng, &[0usize, 5, 100]) });
            if rng.gen_bool(0.4) {
                let last2 = pick(&mut rng, &[0u32, 1, 3, last, last.saturating_add(2).min(0x7fff_ffff)]);
                steps.push(PeerStep::Goaway { last: last2, code: pick(&mut rng, &CODES), dbg: 0 });
            }
        } else {
            steps.push(PeerStep::Auto { ack_settings: None, ack_ping: None, grant: None, respond: None });
        }
    }
    steps.push(PeerStep::WaitQ);
    if rng.gen_bool(0.5) {
        steps.push(PeerStep::Eof);
    }
    if ping_race && rng.gen_bool(0.5) {
        // ... or the transport simply ends right behind the acknowledgement
        let i = steps.iter().position(|p| matches!(p, PeerStep::Raw { .. })).unwrap();
        steps.truncate(i + 1);
        steps.push(PeerStep::Eof);
        steps.push(PeerStep::WaitQ);
        steps.push(PeerStep::WaitQ);
        steps.push(PeerStep::WaitQ);
    }
    s.peer = steps;
    s.drop_sr_when_done = rng.gen_bool(0.5);
    s
}

// Mode A: server-side shutdown (graceful / abrupt) at every kind of moment while streams are in every state.
pub fn shutdown_a(seed: u64) -> Scenario {
    let mut rng = StdRng::seed_from_u64(seed ^ 0x5D0_11);
    let mut s = mix_a(seed, rng.gen_bool(0.3));
    s.name = format!("shutdownA-{}", seed);
    let at = rng.gen_range(5..200);
    let op = if rng.gen_bool(0.7) { EnvOp::Conn { ep: 1, op: "graceful_shutdown".into(), n: 0 } } else { EnvOp::Conn { ep: 1, op: "abrupt_shutdown".into(), n: pick(&mut rng, &CODES) } };
    s.env.push(EnvStep { at: "step".into(), n: at, op });
    s
}

// ---------------------------------------------------------------------------
// Modes Bs / Bc: a legal prefix (streams in assorted states), then one or more frames from a catalogue of
// protocol violations and of legal-but-unusual behaviour (C08, C09), then a probe: a fresh stream must still be
// served unless the violation was a connection error. The TLA+ monitor classifies every received frame itself
// (H2Wire!Classify); the generator only supplies inputs.
fn hx(b: &[u8]) -> String {
    b.iter().map(|x| format!("{:02x}", x)).collect()
}

pub fn abuse_items(rng: &mut StdRng, server: bool, open_sid: u32, closed_sid: u32, idle_sid: u32) -> Vec<PeerStep> {
    let fr = |ty: u8, fl: u8, sid: u32, p: &[u8]| PeerStep::Frame { ty, fl, sid, hex: hx(p) };
    let u32b = |v: u32| v.to_be_bytes().to_vec();
    let n = 64;
    match rng.gen_range(0..n) {
        // ---- framing
        0 => vec![fr(4, 0, 0, &[0, 3, 0, 0, 0])],                       // SETTINGS length 5
        1 => vec![fr(4, 1, 0, &[0, 3, 0, 0, 0, 1])],                    // SETTINGS ACK with payload
        2 => vec![fr(6, 0, 0, &[1, 2, 3, 4, 5, 6, 7])],                 // PING length 7
        3 => vec![fr(6, 0, open_sid, &[0; 8])],                         // PING on a stream
        4 => vec![fr(3, 0, open_sid, &[0, 0, 8])],                      // RST_STREAM length 3
        5 => vec![fr(3, 0, 0, &u32b(8))],                               // RST_STREAM on stream 0
        6 => vec![fr(8, 0, open_sid, &[0, 0, 1])],                      // WINDOW_UPDATE length 3
        7 => vec![fr(8, 0, open_sid, &u32b(0))],                        // WINDOW_UPDATE 0 on a stream
        8 => vec![fr(8, 0, 0, &u32b(0))],                               // WINDOW_UPDATE 0 on the connection
        9 => vec![fr(8, 0, 0, &u32b(0x7fff_ffff))],                     // connection window overflow
        10 => vec![fr(8, 0, open_sid, &u32b(0x7fff_ffff))],             // stream window overflow
        11 => vec![fr(2, 0, open_sid, &[0, 0, 0, 0])],                  // PRIORITY length 4
        12 => vec![fr(2, 0, 0, &[0, 0, 0, 1, 5])],                      // PRIORITY on stream 0
        13 => vec![PeerStep::Priority { sid: open_sid, dep: open_sid, excl: false, weight: 1 }], // self dependency
        14 => vec![fr(7, 0, 0, &[0, 0, 0, 0, 0, 0, 0])],                // GOAWAY length 7
        15 => vec![fr(7, 0, open_sid, &[0, 0, 0, 0, 0, 0, 0, 0])],      // GOAWAY on a stream
        16 => vec![fr(0, 0, 0, b"x")],                                  // DATA on stream 0
        17 => vec![fr(0, 0, idle_sid, b"x")],                           // DATA on an idle stream
        18 => vec![fr(0, 8, open_sid, &[5, 1, 2])],                     // DATA padding >= length
        19 => vec![fr(1, 4, 0, &[0x82])],                               // HEADERS on stream 0
        20 => vec![fr(1, 5, if server { idle_sid + 1 } else { idle_sid }, &[0x82, 0x86, 0x84])], // wrong parity / server HEADERS on idle
        21 => vec![fr(9, 4, open_sid, &[0x82])],                        // CONTINUATION without HEADERS
        22 => vec![fr(1, 0, idle_sid, &[0x82]), fr(0, 0, idle_sid, b"x")], // HEADERS w/o END_HEADERS then DATA
        23 => vec![fr(5, 4, open_sid, &[0, 0, 0, 2, 0x82])],            // PUSH_PROMISE (to a server: error; to a client on open stream: needs push enabled)
        24 => vec![PeerStep::Raw { hex: hx(&{ let mut v = vec![0x01, 0x00, 0x00, 0, 0, 0, 0, 0, open_sid as u8]; v.extend(vec![0u8; 100]); v }) }], // frame of 65536 octets announced (> max frame size)
        25 => vec![fr(1, 5, idle_sid, &[0x80])],                        // HPACK index 0
        26 => vec![fr(1, 5, idle_sid, &[0xff, 0xff, 0xff, 0x7f])],      // HPACK huge index
        27 => vec![PeerStep::Settings { vals: vec![(2, 2)] }],          // ENABLE_PUSH = 2
        28 => vec![PeerStep::Settings { vals: vec![(4, 0x8000_0000)] }],// INITIAL_WINDOW_SIZE 2^31
        29 => vec![PeerStep::Settings { vals: vec![(5, 100)] }],        // MAX_FRAME_SIZE 100
        30 => vec![PeerStep::Data { sid: closed_sid, n: 5, eos: false, pad: None }], // DATA after END_STREAM
        31 => vec![PeerStep::SettingsAck],                              // ACK that answers nothing
        32 => vec![fr(1, 5, closed_sid, &[0x82, 0x86, 0x84])],          // HEADERS on a closed stream
        33 => vec![fr(0, 1, idle_sid.saturating_sub(4).max(1), b"")],   // DATA on a skipped (implicitly closed) id
        34 => vec![PeerStep::Goaway { last: 0x7fff_ffff, code: 0, dbg: 0 }, PeerStep::Goaway { last: 1, code: 0, dbg: 0 }, PeerStep::Goaway { last: 3, code: 0, dbg: 0 }],
        // ---- legal but unusual
        35 => vec![fr(0xee, 0xff, 0, b"unknown")],                      // unknown frame type, stream 0
        36 => vec![fr(0xee, 0, open_sid, b"unknown")],                  // unknown frame type on a stream
        37 => vec![PeerStep::Settings { vals: vec![(0x99, 7)] }],       // unknown setting
        38 => vec![PeerStep::Priority { sid: idle_sid + 20, dep: 0, excl: false, weight: 3 }], // PRIORITY on idle
        39 => vec![PeerStep::Priority { sid: closed_sid, dep: 0, excl: true, weight: 255 }],   // PRIORITY on closed
        40 => vec![PeerStep::Wu { sid: closed_sid, inc: 10 }],          // WINDOW_UPDATE on closed stream
        41 => vec![PeerStep::Rst { sid: closed_sid, code: 8 }],         // RST_STREAM on closed stream
        42 => vec![PeerStep::Data { sid: open_sid, n: 3, eos: false, pad: Some(0) }],
        43 => vec![PeerStep::Data { sid: open_sid, n: 0, eos: false, pad: None }],
        44 => vec![PeerStep::Settings { vals: vec![] }],
        45 => vec![PeerStep::Ping { ack: false, pl: 1 }, PeerStep::Ping { ack: false, pl: 2 }, PeerStep::Ping { ack: false, pl: 3 }],
        46 => vec![PeerStep::Ping { ack: true, pl: 77 }],               // unsolicited PING ACK: ignored
        47 => vec![fr(1, 0x2d, idle_sid, &[2, 0, 0, 0, 0, 7, 0x82, 0x86, 0x84, 0, 0])], // HEADERS padded + priority + END_STREAM (legal for a server peer; a client gets it on idle = error)
        48 => vec![PeerStep::Rst { sid: open_sid, code: pick(rng, &CODES) }],
        49 => vec![PeerStep::Wu { sid: 0, inc: 1 }, PeerStep::Wu { sid: open_sid, inc: 1 }],
        50 => vec![PeerStep::Settings { vals: vec![(1, 0), (4, 0), (5, 16384)] }],
        51 => vec![PeerStep::Settings { vals: vec![(3, 0)] }],
        52 => vec![fr(9, 0, idle_sid + 2, &[])],                        // stray CONTINUATION on idle
        53 => vec![PeerStep::Raw { hex: hx(&(0..40).map(|_| rng.gen::<u8>()).collect::<Vec<u8>>()) }], // noise
        54 => vec![PeerStep::Data { sid: open_sid, n: 70000, eos: false, pad: None }], // larger than any window / frame size
        // ---- a malformed request on the next stream id (stream error), then frames that raced with the endpoint's RST_STREAM (legal) ...
        56..=63 => {
            let bad = match rng.gen_range(0..3) { 0 => ("connection", "close"), 1 => ("te", "gzip"), _ => ("upgrade", "x") };
            let mut v = vec![PeerStep::Headers { sid: idle_sid, hid: 0, fields: vec![(bad.0.into(), bad.1.into())], eos: false, frag: 0, huff: false, status: if server { 0 } else { 200 }, req: server, method: "POST".into(), tag: idle_sid }];
            if rng.gen_bool(0.6) { v.push(PeerStep::WaitQ); }
            match rng.gen_range(0..4) {
                0 => v.push(PeerStep::Data { sid: idle_sid, n: 5, eos: false, pad: None }),
                1 => v.push(PeerStep::Wu { sid: idle_sid, inc: 10 }),
                2 => v.push(PeerStep::Rst { sid: idle_sid, code: 8 }),
                // ... or a second HEADERS that re-uses the identifier (trailers without END_STREAM / a new request: never a new stream)
                _ => v.push(fr(1, 4, idle_sid, &[0x82, 0x86, 0x84])),
            }
            v
        }
        _ => vec![PeerStep::Goaway { last: 0, code: pick(rng, &CODES), dbg: 3 }],
    }
}

pub fn abuse_b(seed: u64) -> Scenario {
    let mut rng = StdRng::seed_from_u64(seed ^ 0xAB_05E);
    let mut s = Scenario::default();
    let server = rng.gen_bool(0.6);
    s.name = format!("abuseB-{}", seed);
    s.mode = if server { "Bs".into() } else { "Bc".into() };
    s.sched.seed = seed;
    s.peer_cfg.settings = vec![];
    s.peer_cfg.ack_settings = true;
    s.peer_cfg.ack_ping = true;
    s.peer_cfg.grant = "all".into();
    s.peer_cfg.respond = true;
    s.io.deliver = pick(&mut rng, &["all", "all", "rand", "byte"]).to_string();
    let mut steps = vec![];
    let hdr = |sid: u32, eos: bool| PeerStep::Headers { sid, hid: 0, fields: vec![], eos, frag: 0, huff: false, status: 0, req: true, method: "POST".into(), tag: sid };
    if rng.gen_bool(0.35) {
        // no (or very short) memory of reset streams: late frames meet a forgotten stream
        let c = if server { &mut s.scfg } else { &mut s.ccfg };
        c.reset_max = Some(pick(&mut rng, &[0usize, 0, 1]));
    }
    if server {
        // prefix: stream 1 open (body continues), stream 3 closed (request complete, answered)
        steps.push(hdr(1, false));
        steps.push(PeerStep::Data { sid: 1, n: 10, eos: false, pad: None });
        steps.push(hdr(3, true));
        steps.push(PeerStep::WaitQ);
        for it in 0..rng.gen_range(1..3) {
            let _ = it;
            steps.append(&mut abuse_items(&mut rng, true, 1, 3, 5));
        }
        steps.push(PeerStep::WaitQ);
        // probe
        steps.push(hdr(21, true));
        steps.push(PeerStep::WaitQ);
        steps.push(PeerStep::Data { sid: 1, n: 0, eos: true, pad: None });
        steps.push(PeerStep::WaitQ);
        s.srv.push(SrvProg { ops: vec![SendOp::Response { status: 200, hid: 0, eos: true }], read: ReadPol::default(), note: String::new() });
    } else {
        // prefix: request 1 open (peer has not answered), request 2 answered and closed
        s.peer_cfg.respond = false;
        for i in 0..2u32 {
            let mut r = ReqProg::default();
            r.tag = i + 1;
            r.ready = true;
            r.eos = true;
            r.read.push = true;
            s.reqs.push(r);
        }
        steps.push(PeerStep::WaitQ);
        steps.push(PeerStep::Headers { sid: 3, hid: 0, fields: vec![], eos: true, frag: 0, huff: false, status: 200, req: false, method: String::new(), tag: 0 });
        steps.push(PeerStep::Headers { sid: 1, hid: 0, fields: vec![], eos: false, frag: 0, huff: false, status: 200, req: false, method: String::new(), tag: 0 });
        steps.push(PeerStep::WaitQ);
        for _ in 0..rng.gen_range(1..3) {
            steps.append(&mut abuse_items(&mut rng, false, 1, 3, 7));
        }
        steps.push(PeerStep::WaitQ);
        // probe: a request issued afterwards is answered
        let mut r = ReqProg::default();
        r.tag = 3;
        r.ready = true;
        r.eos = true;
        r.start_q = Some(3);
        s.reqs.push(r);
        steps.push(PeerStep::Auto { ack_settings: None, ack_ping: None, grant: None, respond: Some(true) });
        steps.push(PeerStep::WaitQ);
        steps.push(PeerStep::Data { sid: 1, n: 0, eos: true, pad: None });
        steps.push(PeerStep::WaitQ);
    }
    s.peer = steps;
    s.drop_sr_when_done = true;
    s
}

// Mode Bs: graceful shutdown of the real server while other PING traffic is in flight (C15): the shutdown PING's
// acknowledgement is delayed, and user pings / stray PING ACKs arrive in between; streams in flight must drain,
// then the connection must close.
pub fn shutdown_bs(seed: u64) -> Scenario {
    let mut rng = StdRng::seed_from_u64(seed ^ 0x5D0_B5);
    let mut s = Scenario::default();
    s.name = format!("shutdownBs-{}", seed);
    s.mode = "Bs".into();
    s.sched.seed = seed;
    s.peer_cfg.ack_settings = true;
    s.peer_cfg.ack_ping = true;
    s.peer_cfg.grant = "all".into();
    let hdr = |sid: u32, eos: bool| PeerStep::Headers { sid, hid: 0, fields: vec![], eos, frag: 0, huff: false, status: 0, req: true, method: "POST".into(), tag: sid };
    let mut steps = vec![];
    let nstreams = rng.gen_range(0..3u32);
    let open_body = rng.gen_bool(0.5);
    for i in 0..nstreams {
        steps.push(hdr(1 + 2 * i, !(open_body && i == 0)));
    }
    let delay = rng.gen_bool(0.7);
    if delay {
        steps.push(PeerStep::Auto { ack_settings: None, ack_ping: Some(false), grant: None, respond: None });
    }
    steps.push(PeerStep::WaitQ); // q1: env graceful_shutdown happens here
    steps.push(PeerStep::WaitQ); // q2
    match rng.gen_range(0..4) {
        0 => steps.push(PeerStep::Ping { ack: true, pl: rng.gen() }),          // stray acknowledgement
        1 => steps.push(PeerStep::Ping { ack: false, pl: rng.gen() }),         // a ping of the peer's own
        2 => {
            steps.push(PeerStep::Ping { ack: true, pl: rng.gen() });
            steps.push(PeerStep::Ping { ack: true, pl: rng.gen() });
        }
        _ => {}
    }
    if rng.gen_bool(0.3) {
        steps.push(hdr(1 + 2 * nstreams, true)); // a new request after the first GOAWAY: still legal until the final one
    }
    steps.push(PeerStep::Auto { ack_settings: None, ack_ping: Some(true), grant: None, respond: None });
    steps.push(PeerStep::WaitQ);
    if open_body && nstreams > 0 {
        steps.push(PeerStep::Data { sid: 1, n: 10, eos: true, pad: None });
    }
    steps.push(PeerStep::WaitQ);
    s.peer = steps;
    s.srv.push(SrvProg { ops: vec![SendOp::Response { status: 200, hid: 0, eos: true }], read: ReadPol::default(), note: String::new() });
    if rng.gen_bool(0.4) {
        s.env.push(EnvStep { at: "step".into(), n: rng.gen_range(4..12), op: EnvOp::Ping { ep: 1 } });
    }
    s.env.push(EnvStep { at: "q".into(), n: 1, op: EnvOp::Conn { ep: 1, op: "graceful_shutdown".into(), n: 0 } });
    s
}

// ---------------------------------------------------------------------------
// C18: floods. A hostile scripted peer repeats an abusive pattern hundreds of times against a real endpoint
// whose limits are configured small, while the application accepts slowly or not at all, reads or does not read,
// and the endpoint's own writes are blocked for part of the run. A quiescence (and with it a statistics snapshot)
// is taken every few items, so that the growth of the stream store and of the buffers is visible.
fn small_limits(rng: &mut StdRng, c: &mut EpCfg, server: bool) {
    if server {
        c.max_conc = Some(pick(rng, &[1u32, 2, 3, 5]));
    }
    c.reset_max = Some(pick(rng, &[0usize, 1, 2, 4]));
    c.pending_accept_reset_max = Some(pick(rng, &[0usize, 1, 2, 4]));
    c.local_error_reset_max = Some(pick(rng, &[0i64, 1, 3, 6]));
    if rng.gen_bool(0.6) {
        c.data_frame_budget = Some(pick(rng, &[0usize, 255, 1024, 2560]));
    }
    if rng.gen_bool(0.6) {
        c.max_hdr_list = Some(pick(rng, &[64u32, 256, 1024, 4096]));
    }
    if rng.gen_bool(0.5) {
        c.iws = Some(pick(rng, &[100u32, 1000, 16384, 65535]));
    }
    if rng.gen_bool(0.3) {
        c.conn_win = Some(pick(rng, &[65535u32, 100000]));
    }
    if rng.gen_bool(0.3) {
        c.reset_dur_ms = Some(pick(rng, &[10u64, 1000]));
    }
}

pub fn flood_bs(seed: u64) -> Scenario {
    let mut rng = StdRng::seed_from_u64(seed ^ 0xF100D5);
    let mut s = Scenario::default();
    s.name = format!("floodBs-{}", seed);
    s.mode = "Bs".into();
    s.sched.seed = seed;
    s.sched.max_steps = 2_000_000;
    s.aims = vec!["C18".into(), "C08".into(), "C19".into()];
    s.dense_stats = true;
    small_limits(&mut rng, &mut s.scfg, true);
    s.peer_cfg.ack_settings = true;
    s.peer_cfg.ack_ping = true;
    s.peer_cfg.grant = pick(&mut rng, &["all", "none", "lazy"]).to_string();
    s.io.deliver = pick(&mut rng, &["all", "all", "rand"]).to_string();
    // the application
    match rng.gen_range(0..5) {
        0 => s.srv_no_accept = true,
        1 => s.srv_accept_budget = Some(rng.gen_range(0..3)),
        _ => {}
    }
    let read = match rng.gen_range(0..3) {
        0 => ReadPol { idle: true, hold_q: Some(1000), ..ReadPol::default() },
        1 => ReadPol { release: "never".into(), ..ReadPol::default() },
        _ => ReadPol::default(),
    };
    let ops = match rng.gen_range(0..3) {
        0 => vec![SendOp::Response { status: 200, hid: 0, eos: true }],
        1 => vec![SendOp::Response { status: 200, hid: 0, eos: false }, SendOp::Data { n: 10, eos: true }],
        _ => vec![SendOp::WaitQ { k: 1000 }], // never answers, holds the handles
    };
    s.srv.push(SrvProg { ops, read, note: String::new() });
    // (the refusal burst is costly to validate: one scenario in 16)
    let kind = if seed % 16 == 5 { 14 } else if seed % 16 == 11 { 15 } else if seed % 16 == 3 { 16 } else { rng.gen_range(0..14) };
    let n = if kind == 14 { 1300 } else if kind == 16 { 1500 } else if kind == 15 { pick(&mut rng, &[30usize, 80]) } else if matches!(kind, 6 | 7) { pick(&mut rng, &[300usize, 2500, 6000]) } else if matches!(kind, 3 | 4) { pick(&mut rng, &[250usize, 1200, 2500]) } else if matches!(kind, 5 | 9) { pick(&mut rng, &[60usize, 250, 600, 1200]) } else { pick(&mut rng, &[40usize, 120, 300]) };
    let every = if kind == 14 { 100_000 } else if kind == 15 { 1 } else { pick(&mut rng, &[7usize, 50, 200]) };
    if kind == 16 {
        // tiny / empty DATA padded up to the size of a "large" frame, against an application that accepts but does not read
        s.srv_no_accept = false;
        s.srv_accept_budget = None;
        s.srv[0].read = ReadPol { idle: true, hold_q: Some(1000), ..ReadPol::default() };
        s.scfg.iws = Some(65535);
        s.scfg.data_frame_budget = Some(pick(&mut rng, &[255usize, 2560]));
    }
    if kind == 15 {
        // answered-then-reset cycles against a blocked socket: the application answers every request with a body that
        // cannot be written, then the peer resets the stream
        s.srv_no_accept = false;
        s.srv_accept_budget = None;
        s.srv[0].ops = vec![SendOp::Response { status: 200, hid: 0, eos: false }, SendOp::Data { n: 20000, eos: true }];
        s.srv[0].read = ReadPol::default();
    }
    if kind == 14 {
        // refusal burst: every slot is taken by a request the application never answers, then more than a write buffer's
        // worth of over-limit requests arrives in one read
        s.srv_no_accept = false;
        s.srv_accept_budget = None;
        s.srv[0].ops = vec![SendOp::WaitQ { k: 1000 }];
        s.io.deliver = "all".into();
    }
    let hdr = |sid: u32, eos: bool| PeerStep::Headers { sid, hid: 0, fields: vec![], eos, frag: 0, huff: false, status: 0, req: true, method: "POST".into(), tag: sid };
    let fr = |ty: u8, fl: u8, sid: u32, p: &[u8]| PeerStep::Frame { ty, fl, sid, hex: hx(p) };
    let mut steps = vec![];
    let mut sid = 1u32;
    let tiny_pad = pick(&mut rng, &[None, None, Some(0u8), Some(254), Some(255)]);
    // a victim stream that stays open
    steps.push(hdr(sid, false));
    let open = sid;
    sid += 2;
    steps.push(PeerStep::WaitQ);
    if kind == 14 {
        for _ in 0..s.scfg.max_conc.unwrap_or(1) {
            steps.push(hdr(sid, false));
            sid += 2;
        }
        steps.push(PeerStep::WaitQ);
    }
    if kind == 14 {
        // one write of the peer carrying all the requests: the endpoint meets them within a single poll
        let mut raw: Vec<u8> = vec![];
        let block: Vec<u8> = [&[0x83u8, 0x86, 0x84, 0x01, 0x08][..], b"sim.test"].concat();
        for _ in 0..n {
            raw.extend_from_slice(&[0, 0, block.len() as u8, 1, if rng.gen_bool(0.5) { 5 } else { 4 }]);
            raw.extend_from_slice(&sid.to_be_bytes());
            raw.extend_from_slice(&block);
            sid += 2;
        }
        steps.push(PeerStep::Raw { hex: hx(&raw) });
    }
    for i in 0..(if kind == 14 { 0 } else { n }) {
        let k = if kind == 13 { rng.gen_range(0..13) } else { kind };
        match k {
            16 => steps.push(PeerStep::Data { sid: open, n: if seed % 32 == 3 { 1 } else { 0 }, eos: false, pad: Some(255) }),
            15 => { steps.push(hdr(sid, true)); steps.push(PeerStep::WaitQ); steps.push(PeerStep::Rst { sid, code: 8 }); sid += 2; }
            0 => { steps.push(hdr(sid, false)); steps.push(PeerStep::Rst { sid, code: 8 }); sid += 2; }          // rapid reset
            1 => { steps.push(hdr(sid, true)); sid += 2; }                                                       // complete requests, never read the answers
            2 => { steps.push(hdr(sid, false)); sid += 2; }                                                      // open without closing: beyond the limit => refused
            3 => steps.push(PeerStep::Data { sid: open, n: 1, eos: false, pad: tiny_pad }),                      // tiny DATA (possibly padded up to a "large" frame)
            4 => steps.push(PeerStep::Data { sid: open, n: 0, eos: false, pad: tiny_pad }),                      // empty DATA
            5 => {                                                                                                // CONTINUATION flood
                if i == 0 || kind == 13 { steps.push(fr(1, 0, sid, &[0x82])); }
                steps.push(fr(9, 0, sid, if rng.gen_bool(0.5) { &[] } else { &[0x00, 0x03, 0x78, 0x2d, 0x61, 0x01, 0x31] }));
                if kind == 13 { steps.push(fr(9, 4, sid, &[0x86, 0x84])); sid += 2; }
            }
            6 => steps.push(PeerStep::Ping { ack: false, pl: i as u64 }),
            7 => steps.push(PeerStep::Settings { vals: vec![(4, 65535 - (i as u32 % 7))] }),
            8 => { steps.push(hdr(sid, true)); steps.push(PeerStep::Data { sid, n: 1, eos: false, pad: None }); sid += 2; } // DATA after END_STREAM: stream error
            9 => { steps.push(PeerStep::Wu { sid: open, inc: 1 }); steps.push(PeerStep::Priority { sid: sid + 100, dep: 0, excl: false, weight: 1 }); }
            10 => {                                                                                               // oversize header lists
                let big = "v".repeat(pick(&mut rng, &[100usize, 500, 3000, 9000]));
                steps.push(PeerStep::Headers { sid, hid: 0, fields: vec![("x-big".into(), big)], eos: true, frag: 0, huff: false, status: 0, req: true, method: "GET".into(), tag: sid });
                sid += 2;
            }
            11 => { steps.push(hdr(sid, true)); steps.push(fr(1, 5, sid, &[0x82, 0x86, 0x84])); sid += 2; }     // HEADERS on a closed stream
            _ => { steps.push(hdr(sid, false)); steps.push(PeerStep::Data { sid, n: 3, eos: false, pad: None }); steps.push(PeerStep::Rst { sid, code: pick(&mut rng, &[0u32, 5, 8, 11]) }); sid += 2; }
        }
        if (i + 1) % every == 0 {
            steps.push(PeerStep::WaitQ);
        }
    }
    steps.push(PeerStep::WaitQ);
    steps.push(PeerStep::WaitQ);
    s.peer = steps;
    // write back-pressure on the endpoint under attack for a part of the run
    match if kind == 14 || kind == 16 { 3 } else if kind == 15 { 0 } else { rng.gen_range(0..4) } {
        0 => s.env.push(EnvStep { at: "q".into(), n: 1, op: EnvOp::Budget { ep: 1, n: Some(0) } }),
        1 => {
            s.env.push(EnvStep { at: "q".into(), n: 1, op: EnvOp::Budget { ep: 1, n: Some(0) } });
            s.env.push(EnvStep { at: "q".into(), n: rng.gen_range(3..8), op: EnvOp::Budget { ep: 1, n: None } });
        }
        _ => {}
    }
    if rng.gen_bool(0.3) {
        s.env.push(EnvStep { at: "q".into(), n: rng.gen_range(2..6), op: EnvOp::Time { ms: 2000 } });
    }
    if rng.gen_bool(0.3) {
        s.env.push(EnvStep { at: "q".into(), n: rng.gen_range(2..6), op: EnvOp::Conn { ep: 1, op: "accept_allow".into(), n: rng.gen_range(1..4) } });
    }
    s
}

pub fn flood_bc(seed: u64) -> Scenario {
    let mut rng = StdRng::seed_from_u64(seed ^ 0xF100DC);
    let mut s = Scenario::default();
    s.name = format!("floodBc-{}", seed);
    s.mode = "Bc".into();
    s.sched.seed = seed;
    s.sched.max_steps = 2_000_000;
    s.aims = vec!["C18".into(), "C08".into(), "C19".into()];
    s.dense_stats = true;
    small_limits(&mut rng, &mut s.ccfg, false);
    if rng.gen_bool(0.7) {
        s.ccfg.max_conc = Some(pick(&mut rng, &[1u32, 2, 5])); // limit on pushed streams
    }
    s.peer_cfg.ack_settings = true;
    s.peer_cfg.ack_ping = true;
    s.peer_cfg.grant = "all".into();
    s.peer_cfg.respond = false;
    s.io.deliver = pick(&mut rng, &["all", "all", "rand"]).to_string();
    let push = rng.gen_bool(0.6);
    s.ccfg.enable_push = Some(push);
    let nreq = rng.gen_range(1..4u32);
    for i in 0..nreq {
        let mut r = ReqProg::default();
        r.tag = i + 1;
        r.ready = true;
        r.eos = rng.gen_bool(0.7);
        r.method = if r.eos { "GET".into() } else { "POST".into() };
        if !r.eos {
            r.ops = vec![SendOp::WaitQ { k: 1000 }];
        }
        r.read = match rng.gen_range(0..4) {
            0 => ReadPol { idle: true, hold_q: Some(1000), ..ReadPol::default() },
            1 => ReadPol { push: true, info: true, ..ReadPol::default() },
            2 => ReadPol { release: "never".into(), ..ReadPol::default() },
            _ => ReadPol::default(),
        };
        s.reqs.push(r);
    }
    let kind = rng.gen_range(0..10);
    let n = if matches!(kind, 4 | 5) { pick(&mut rng, &[300usize, 2500, 6000]) } else if matches!(kind, 1 | 2 | 3 | 6) { pick(&mut rng, &[60usize, 250, 600, 1200]) } else { pick(&mut rng, &[40usize, 120, 300]) };
    let every = pick(&mut rng, &[7usize, 50, 200]);
    let fr = |ty: u8, fl: u8, sid: u32, p: &[u8]| PeerStep::Frame { ty, fl, sid, hex: hx(p) };
    let resp = |sid: u32, status: u16, eos: bool| PeerStep::Headers { sid, hid: 0, fields: vec![], eos, frag: 0, huff: false, status, req: false, method: String::new(), tag: 0 };
    let mut steps = vec![PeerStep::WaitQ];
    let mut prom = 2u32;
    if matches!(kind, 2 | 3 | 8) {
        steps.push(resp(1, 200, false));
    }
    for i in 0..n {
        let k = if kind == 9 { rng.gen_range(0..9) } else { kind };
        match k {
            0 => { steps.push(PeerStep::PushPromise { sid: 1, promised: prom, hid: 0, fields: vec![], frag: 0, tag: 100 + prom }); prom += 2; }   // promises never fulfilled
            1 => steps.push(resp(1, 103, false)),                                                                 // informational flood
            2 => steps.push(PeerStep::Data { sid: 1, n: 1, eos: false, pad: None }),
            3 => steps.push(PeerStep::Data { sid: 1, n: 0, eos: false, pad: None }),
            4 => steps.push(PeerStep::Ping { ack: false, pl: i as u64 }),
            5 => steps.push(PeerStep::Settings { vals: vec![(4, 65535 - (i as u32 % 7))] }),
            6 => {
                if i == 0 || kind == 9 { steps.push(fr(1, 0, 1, &[0x88])); }
                steps.push(fr(9, 0, 1, if rng.gen_bool(0.5) { &[] } else { &[0x00, 0x03, 0x78, 0x2d, 0x61, 0x01, 0x31] }));
                if kind == 9 { steps.push(fr(9, 4, 1, &[])); }
            }
            7 => {                                                                                                // promise + reset / promise + full pushed response
                steps.push(PeerStep::PushPromise { sid: 1, promised: prom, hid: 0, fields: vec![], frag: 0, tag: 100 + prom });
                if rng.gen_bool(0.5) { steps.push(PeerStep::Rst { sid: prom, code: 8 }); } else { steps.push(resp(prom, 200, true)); }
                prom += 2;
            }
            _ => { steps.push(PeerStep::Wu { sid: 0, inc: 1 }); steps.push(PeerStep::Rst { sid: 1001 + 2 * (i as u32 % 3), code: 8 }); }   // RST_STREAM on idle ids: connection error at once
        }
        if (i + 1) % every == 0 {
            steps.push(PeerStep::WaitQ);
        }
    }
    steps.push(PeerStep::WaitQ);
    steps.push(PeerStep::WaitQ);
    s.peer = steps;
    match rng.gen_range(0..4) {
        0 => s.env.push(EnvStep { at: "q".into(), n: 1, op: EnvOp::Budget { ep: 0, n: Some(0) } }),
        1 => {
            s.env.push(EnvStep { at: "q".into(), n: 1, op: EnvOp::Budget { ep: 0, n: Some(0) } });
            s.env.push(EnvStep { at: "q".into(), n: rng.gen_range(3..8), op: EnvOp::Budget { ep: 0, n: None } });
        }
        _ => {}
    }
    s
}

// ---------------------------------------------------------------------------
// C20: handle operations at the lock-release points of the connection task. Mode A; the application tasks park their
// handles, and a script runs send_data / reset / drop / reserve / capacity / poll_data / release / drop / send_request on
// them INSIDE the n-th read / write / flush callback of the same endpoint's transport - where h2 has released its locks
// and another thread could get in. Short writes make every flush a series of callbacks. What has not fired by the 4th
// quiescence is run from the executor, so every stream still ends.
pub fn inline_a(seed: u64) -> Scenario {
    let mut rng = StdRng::seed_from_u64(seed ^ 0x1_4C1_4E);
    let mut s = Scenario::default();
    s.name = format!("inlineA-{}", seed);
    s.mode = "A".into();
    s.sched.seed = seed;
    s.aims = vec!["C20".into()];
    s.coop = false;
    s.ccfg = ep_cfg(&mut rng, false);
    s.scfg = ep_cfg(&mut rng, true);
    s.ccfg.enable_push = Some(false);
    s.scfg.max_conc = None;
    for c in [&mut s.ccfg, &mut s.scfg] {
        // (bodies of tens of kilobytes: windows of a few octets would only make the runs long)
        if c.iws.map(|v| v < 1000).unwrap_or(false) {
            c.iws = Some(1000);
        }
        if c.conn_win.map(|v| v < 30000).unwrap_or(false) {
            c.conn_win = None;
        }
    }
    s.io.wmax = [pick(&mut rng, &[0usize, 300, 1000, 5000, 16393]), pick(&mut rng, &[0usize, 300, 1000, 5000, 16393])];
    s.io.deliver = pick(&mut rng, &["all", "all", "rand"]).to_string();
    let nreq = rng.gen_range(1..4u32);
    let kinds = ["write", "write", "flush", "read", "any"];
    let mut next_nth = |rng: &mut StdRng, last: &mut usize| -> usize {
        *last += rng.gen_range(1..6);
        *last
    };
    for i in 0..nreq {
        let tag = i + 1;
        let mut r = ReqProg::default();
        r.tag = tag;
        r.method = "POST".into();
        r.ready = true;
        r.eos = false;
        r.hid = small_hid(&mut rng);
        // --- client send half
        let park_c = rng.gen_bool(0.8);
        let mut ops = vec![];
        if rng.gen_bool(0.5) {
            ops.push(SendOp::Data { n: pick(&mut rng, &[1usize, 100, 5000, 20000]), eos: false });
        }
        if park_c {
            ops.push(SendOp::Park);
            let mut last = rng.gen_range(0..8);
            let at = pick(&mut rng, &kinds).to_string();
            for _ in 0..rng.gen_range(0..4) {
                let act = match rng.gen_range(0..4) {
                    0 => InlineAct::Capacity { tag },
                    1 => InlineAct::Reserve { tag, n: pick(&mut rng, &[0usize, 1, 1000, 70000]) },
                    _ => InlineAct::Data { tag, n: pick(&mut rng, &[0usize, 1, 300, 16384, 40000]), eos: false },
                };
                s.inline.push(InlineStep { min_q: 0, ep: 0, at: at.clone(), nth: next_nth(&mut rng, &mut last), act });
            }
            let fin = match rng.gen_range(0..5) {
                0 => InlineAct::Reset { tag, code: pick(&mut rng, &[0u32, 8, 2]) },
                1 => InlineAct::DropSend { tag },
                _ => InlineAct::Data { tag, n: pick(&mut rng, &[0usize, 5, 2000]), eos: true },
            };
            s.inline.push(InlineStep { min_q: 0, ep: 0, at: at.clone(), nth: next_nth(&mut rng, &mut last), act: fin.clone() });
            // clean-up at quiescence 4 for whatever did not fire (a no-op if the handle is gone; a second END_STREAM is refused by the library)
            s.inline.push(InlineStep { min_q: 0, ep: 0, at: "q".into(), nth: 4, act: InlineAct::Data { tag, n: 0, eos: true } });
            s.inline.push(InlineStep { min_q: 0, ep: 0, at: "q".into(), nth: 5, act: InlineAct::DropSend { tag } });
        } else {
            ops.push(SendOp::Data { n: pick(&mut rng, &[0usize, 10, 3000]), eos: true });
        }
        r.ops = ops;
        // --- client receive half
        if rng.gen_bool(0.5) {
            r.read.script = vec![RecvOp::Park];
            let mut last = rng.gen_range(0..8);
            let at = pick(&mut rng, &kinds).to_string();
            for _ in 0..rng.gen_range(1..5) {
                let act = if rng.gen_bool(0.7) { InlineAct::PollData { tag } } else { InlineAct::Release { tag, n: pick(&mut rng, &[1usize, 100, 1000]) } };
                s.inline.push(InlineStep { min_q: 0, ep: 0, at: at.clone(), nth: next_nth(&mut rng, &mut last), act });
            }
            s.inline.push(InlineStep { min_q: 0, ep: 0, at: at.clone(), nth: next_nth(&mut rng, &mut last), act: InlineAct::DropRecv { tag } });
            s.inline.push(InlineStep { min_q: 0, ep: 0, at: "q".into(), nth: 5, act: InlineAct::DropRecv { tag } });
        }
        s.reqs.push(r);
        // --- server side of the same stream
        let mut sops = vec![SendOp::Response { status: 200, hid: small_hid(&mut rng), eos: false }];
        let mut read = ReadPol::default();
        if rng.gen_bool(0.6) {
            sops.push(SendOp::Park);
            let mut last = rng.gen_range(0..8);
            let at = pick(&mut rng, &kinds).to_string();
            for _ in 0..rng.gen_range(0..3) {
                s.inline.push(InlineStep { min_q: 0, ep: 1, at: at.clone(), nth: next_nth(&mut rng, &mut last), act: InlineAct::Data { tag, n: pick(&mut rng, &[1usize, 300, 16384, 40000]), eos: false } });
            }
            let fin = match rng.gen_range(0..4) {
                0 => InlineAct::Reset { tag, code: 8 },
                1 => InlineAct::DropSend { tag },
                _ => InlineAct::Data { tag, n: pick(&mut rng, &[0usize, 5, 2000]), eos: true },
            };
            s.inline.push(InlineStep { min_q: 0, ep: 1, at: at.clone(), nth: next_nth(&mut rng, &mut last), act: fin });
            s.inline.push(InlineStep { min_q: 0, ep: 1, at: "q".into(), nth: 4, act: InlineAct::Data { tag, n: 0, eos: true } });
            s.inline.push(InlineStep { min_q: 0, ep: 1, at: "q".into(), nth: 5, act: InlineAct::DropSend { tag } });
        } else {
            sops.push(SendOp::Data { n: pick(&mut rng, &[0usize, 10, 3000, 30000]), eos: true });
        }
        if rng.gen_bool(0.4) {
            read.script = vec![RecvOp::Park];
            let mut last = rng.gen_range(0..8);
            let at = pick(&mut rng, &kinds).to_string();
            for _ in 0..rng.gen_range(1..5) {
                let act = if rng.gen_bool(0.7) { InlineAct::PollData { tag } } else { InlineAct::Release { tag, n: pick(&mut rng, &[1usize, 100, 1000]) } };
                s.inline.push(InlineStep { min_q: 0, ep: 1, at: at.clone(), nth: next_nth(&mut rng, &mut last), act });
            }
            s.inline.push(InlineStep { min_q: 0, ep: 1, at: at.clone(), nth: next_nth(&mut rng, &mut last), act: InlineAct::DropRecv { tag } });
            s.inline.push(InlineStep { min_q: 0, ep: 1, at: "q".into(), nth: 5, act: InlineAct::DropRecv { tag } });
        }
        s.srv.push(SrvProg { ops: sops, read, note: String::new() });
    }
    if rng.gen_bool(0.4) {
        for k in 0..rng.gen_range(1..3u32) {
            s.inline.push(InlineStep { min_q: 0, ep: 0, at: pick(&mut rng, &kinds).to_string(), nth: rng.gen_range(2..30), act: InlineAct::SendRequest { tag: 50 + k } });
        }
    }
    s.drop_sr_when_done = true;
    if seed % 3 == 0 {
        // The last request handle goes away inside a transport callback of a late poll of the client connection: every
        // stream is complete by then and the remaining handles are dropped at quiescence 6 (which wakes the connection);
        // the connection must still notice that it has become idle and close.
        s.inline.retain(|st| !matches!(st.act, InlineAct::SendRequest { .. }));
        for r in s.reqs.iter_mut() {
            if r.read.script.is_empty() {
                r.read.hold_q = Some(6);
            }
        }
        s.inline.push(InlineStep { min_q: 6, ep: 0, at: pick(&mut rng, &["read", "read", "write", "flush"]).to_string(), nth: 0, act: InlineAct::DropSr });
        s.inline.push(InlineStep { min_q: 0, ep: 0, at: "q".into(), nth: 8, act: InlineAct::DropSr });
    }
    s
}

// ---------------------------------------------------------------------------
// C03: many streams owe a WINDOW_UPDATE at the same moment, while the endpoint's transport is blocked and its write
// buffer is nearly full (large response heads staged): the updates that do not fit must still go out later.
// Real server, scripted client. Every stream's (small) window is exhausted exactly, the application reads everything,
// then - writes blocked, buffer filled - releases everything on every stream at one quiescence; then writes resume.
pub fn wu_burst_bs(seed: u64) -> Scenario {
    let mut rng = StdRng::seed_from_u64(seed ^ 0x3B_0257);
    let mut s = Scenario::default();
    s.name = format!("wuBurstBs-{}", seed);
    s.mode = "Bs".into();
    s.sched.seed = seed;
    s.aims = vec!["C03".into()];
    let iws = pick(&mut rng, &[50u32, 100, 200]);
    s.scfg.iws = Some(iws);
    s.peer_cfg.ack_settings = true;
    s.peer_cfg.ack_ping = true;
    s.peer_cfg.grant = "none".into();
    s.peer_cfg.respond = false;
    s.io.deliver = "all".into();
    let n = rng.gen_range(40..130u32);
    let big = rng.gen_range(2..5usize);       // streams answered with a large response head while writes are blocked
    let hid = pick(&mut rng, &[6usize, 6, 12, 16, 5]);
    let hdr = |sid: u32| PeerStep::Headers { sid, hid: 0, fields: vec![], eos: false, frag: 0, huff: false, status: 0, req: true, method: "POST".into(), tag: sid };
    let mut steps = vec![];
    for i in 0..n {
        steps.push(hdr(1 + 2 * i));
    }
    for i in 0..n {
        steps.push(PeerStep::Data { sid: 1 + 2 * i, n: iws as usize, eos: false, pad: None });
    }
    for _ in 0..8 {
        steps.push(PeerStep::WaitQ);
    }
    s.peer = steps;
    for i in 0..n as usize {
        let read = ReadPol { script: vec![RecvOp::WaitQ { k: 1 }, RecvOp::PollData, RecvOp::PollData, RecvOp::WaitQ { k: 3 }, RecvOp::Release { n: iws as usize }, RecvOp::WaitQ { k: 9 }], ..ReadPol::default() };   // (the handle stays: the stream could still be read)
        let ops = if i < big {
            vec![SendOp::WaitQ { k: 2 }, SendOp::Response { status: 200, hid, eos: false }, SendOp::WaitQ { k: 9 }]
        } else {
            vec![SendOp::WaitQ { k: 9 }]
        };
        s.srv.push(SrvProg { ops, read, note: String::new() });
    }
    // q1: everything received and read; writes blocked from then on; q2: large heads staged; q3: all releases; q5: writes resume
    s.env.push(EnvStep { at: "q".into(), n: 1, op: EnvOp::Budget { ep: 1, n: Some(0) } });
    s.env.push(EnvStep { at: "q".into(), n: rng.gen_range(4..6), op: EnvOp::Budget { ep: 1, n: None } });
    s
}

// ---------------------------------------------------------------------------
// C08: mutated frames. A legal (or abusive) exchange of a scripted peer with a real endpoint, both roles, whose byte
// stream is corrupted after the connection preface / first SETTINGS: single octets flipped, replaced, dropped, doubled -
// in frame heads, length fields, HPACK blocks and payloads alike, at any read fragmentation. Whatever arrives, the
// endpoint must not panic, spin or hang the connection task; what it writes itself must stay legal.
pub fn mutate_b(seed: u64) -> Scenario {
    let mut rng = StdRng::seed_from_u64(seed ^ 0x3074_7E);
    let mut s = match rng.gen_range(0..6) {
        0 => flow_bs(seed),
        1 => flow_bc(seed),
        2 => ctl_b(seed),
        3 => conc_bc(seed),
        4 => goaway_bc(seed),
        _ => abuse_b(seed),
    };
    s.name = format!("mutateB-{}", seed);
    s.coop = false;
    s.aims = vec!["C08".into()];
    s.peer_cfg.mutate = Some((seed, rng.gen_range(24..600), pick(&mut rng, &[20u32, 100, 400, 2000])));
    s.io.deliver = pick(&mut rng, &["all", "rand", "byte"]).to_string();
    s
}

// ---------------------------------------------------------------------------
// C17: the peer's error surfaces intact. Real client, scripted server: the response arrives complete (END_STREAM),
// then the peer resets the stream (code X) while the request body is still open; only then the application resets the
// stream itself (code Y) and asks poll_reset / reads the response. X must be what it sees, never Y.
pub fn rst_race_bc(seed: u64) -> Scenario {
    let mut rng = StdRng::seed_from_u64(seed ^ 0x257_ACE);
    let mut s = Scenario::default();
    s.name = format!("rstRaceBc-{}", seed);
    s.mode = "Bc".into();
    s.sched.seed = seed;
    s.aims = vec!["C17".into()];
    s.peer_cfg.settings = vec![(4, 1 << 20)];
    s.peer_cfg.ack_settings = true;
    s.peer_cfg.ack_ping = true;
    s.peer_cfg.grant = "all".into();
    s.peer_cfg.respond = false;
    let nreq = rng.gen_range(1..4u32);
    let mut steps = vec![PeerStep::WaitQ];
    for i in 0..nreq {
        let sid = 1 + 2 * i;
        let x = pick(&mut rng, &[0u32, 2, 5, 7, 8, 11, 0xdead_beef]);
        let y = pick(&mut rng, &[8u32, 2, 0x7fff_ffff]);
        let mut r = ReqProg::default();
        r.tag = i + 1;
        r.method = "POST".into();
        r.ready = true;
        r.eos = false;
        r.ops = vec![SendOp::Data { n: pick(&mut rng, &[0usize, 10, 3000]), eos: false }, SendOp::WaitQ { k: 3 }, SendOp::Reset { code: y }, SendOp::PollReset, SendOp::WaitQ { k: 5 }];
        r.read = if rng.gen_bool(0.5) { ReadPol { start_q: Some(4), ..ReadPol::default() } } else { ReadPol::default() };
        s.reqs.push(r);
        // the complete response first, then the reset
        let es_on_headers = rng.gen_bool(0.3);
        steps.push(PeerStep::Headers { sid, hid: 0, fields: vec![], eos: es_on_headers, frag: 0, huff: false, status: 200, req: false, method: String::new(), tag: 0 });
        if !es_on_headers {
            steps.push(PeerStep::Data { sid, n: pick(&mut rng, &[0usize, 5, 2000]), eos: true, pad: None });
        }
        if rng.gen_bool(0.85) {
            steps.push(PeerStep::Rst { sid, code: x });
        }
    }
    for _ in 0..6 {
        steps.push(PeerStep::WaitQ);
    }
    s.peer = steps;
    s.drop_sr_when_done = true;
    s
}

// ---------------------------------------------------------------------------
// Mode Bs, server pushes against a scripted client that refuses / credits the promised streams (RST_STREAM, WINDOW_UPDATE
// on a reserved stream: both legal, RFC 9113 5.1) exactly while the application starts to answer them - optionally with a
// small SETTINGS_MAX_CONCURRENT_STREAMS of the client, so that answered pushes wait in the open queue for a long time.
// Aims: C09 (legal frames on a reserved stream are not penalised), C04/C05 (pushes respect the peer's limit), C19.
pub fn push_race_bs(seed: u64) -> Scenario {
    let mut rng = StdRng::seed_from_u64(seed ^ 0x9054_ACE);
    let mut s = Scenario::default();
    s.name = format!("pushRaceBs-{}", seed);
    s.mode = "Bs".into();
    s.sched.seed = seed;
    s.aims = vec!["C09".into()];
    s.peer_cfg.ack_settings = true;
    s.peer_cfg.ack_ping = true;
    s.peer_cfg.grant = "all".into();
    s.peer_cfg.settings = match rng.gen_range(0..4) {
        0 => vec![(3, 0)],
        1 => vec![(3, 1)],
        _ => vec![],
    };
    let npush = rng.gen_range(1..4u32);
    let mut ops = vec![];
    for i in 0..npush {
        let kq = rng.gen_range(2..7);
        let eos = rng.gen_bool(0.3);
        let mut pops = vec![SendOp::WaitQ { k: kq }, SendOp::Response { status: 200, hid: small_hid(&mut rng), eos }];
        if !eos {
            pops.push(SendOp::Data { n: pick(&mut rng, &[0usize, 5, 3000]), eos: true });
        }
        ops.push(SendOp::Push { tag: 100 + i, hid: small_hid(&mut rng), ops: pops });
    }
    ops.push(SendOp::WaitQ { k: rng.gen_range(2..8) });
    ops.push(SendOp::Response { status: 200, hid: 0, eos: true });
    s.srv.push(SrvProg { ops, read: ReadPol::default(), note: String::new() });
    let mut steps = vec![PeerStep::WaitQ];
    steps.push(PeerStep::Headers { sid: 1, hid: 0, fields: vec![], eos: true, frag: 0, huff: false, status: 0, req: true, method: "GET".into(), tag: 1 });
    // what the client does to each promised stream, and after how many quiescences
    let mut acts: Vec<(usize, PeerStep)> = vec![];
    for i in 0..npush {
        let sid = 2 + 2 * i;
        let at = rng.gen_range(2..8);
        match rng.gen_range(0..5) {
            0 | 1 => acts.push((at, PeerStep::Rst { sid, code: pick(&mut rng, &[8u32, 7, 0]) })),
            2 => acts.push((at, PeerStep::Wu { sid, inc: pick(&mut rng, &[1u32, 1000, 65535]) })),
            3 => {
                acts.push((at, PeerStep::Wu { sid, inc: 10 }));
                acts.push((at + rng.gen_range(0..2), PeerStep::Rst { sid, code: 8 }));
            }
            _ => {}
        }
    }
    for q in 2..10 {
        steps.push(PeerStep::WaitQ);
        for (at, st) in acts.iter() {
            if *at == q {
                steps.push(st.clone());
            }
        }
        if q == 6 && rng.gen_bool(0.5) {
            // the client raises its limit late: everything still queued may go out
            steps.push(PeerStep::Settings { vals: vec![(3, 100)] });
        }
    }
    for _ in 0..4 {
        steps.push(PeerStep::WaitQ);
    }
    s.peer = steps;
    s
}

// ---------------------------------------------------------------------------
// Mode Bc, the mirror image: a scripted server pushes on requests that the real client is cancelling at that very moment
// (ResponseFuture dropped => RST_STREAM(CANCEL) scheduled, perhaps not even written yet), with a small memory of reset
// streams (max_concurrent_reset_streams 0 / 1 / default), so that the parent is sometimes already forgotten when the
// PUSH_PROMISE arrives. RFC 9113 6.6: an endpoint that reset the associated stream MUST handle such PUSH_PROMISE frames;
// the promised stream is refused with RST_STREAM, the connection lives on and the other requests complete.
pub fn push_race_bc(seed: u64) -> Scenario {
    let mut rng = StdRng::seed_from_u64(seed ^ 0x9054_BCE);
    let mut s = Scenario::default();
    s.name = format!("pushRaceBc-{}", seed);
    s.mode = "Bc".into();
    s.sched.seed = seed;
    s.aims = vec!["C09".into()];
    s.peer_cfg.ack_settings = true;
    s.peer_cfg.ack_ping = true;
    s.peer_cfg.grant = "all".into();
    s.peer_cfg.respond = false;
    s.ccfg.enable_push = Some(true);
    match rng.gen_range(0..3) {
        0 => s.ccfg.reset_max = Some(0),
        1 => s.ccfg.reset_max = Some(1),
        _ => {}
    }
    let nreq = rng.gen_range(1..4u32);
    let resp = |sid: u32, status: u16, eos: bool| PeerStep::Headers { sid, hid: 0, fields: vec![], eos, frag: 0, huff: false, status, req: false, method: String::new(), tag: 0 };
    let mut acts: Vec<(usize, PeerStep)> = vec![];
    let mut prom = 2u32;
    for i in 0..nreq {
        let sid = 1 + 2 * i;
        let mut r = ReqProg::default();
        r.tag = i + 1;
        r.ready = true;
        r.eos = true;
        r.method = "GET".into();
        let cancel = rng.gen_bool(0.7);
        let kdrop = rng.gen_range(2..6);
        r.read = if cancel { ReadPol { drop_head: true, start_q: Some(kdrop), ..ReadPol::default() } } else { ReadPol { push: true, ..ReadPol::default() } };
        s.reqs.push(r);
        // the server promises on this request around the moment it is cancelled, then fulfils / resets the promise and answers
        let kp = if cancel { (kdrop as i64 + rng.gen_range(-1..3)).max(2) as usize } else { rng.gen_range(2..6) };
        let np = rng.gen_range(1..3);
        for _ in 0..np {
            acts.push((kp, PeerStep::PushPromise { sid, promised: prom, hid: 0, fields: vec![], frag: 0, tag: 100 + prom }));
            match rng.gen_range(0..3) {
                0 => acts.push((kp + rng.gen_range(0..2), resp(prom, 200, true))),
                1 => {
                    acts.push((kp + rng.gen_range(0..2), resp(prom, 200, false)));
                    acts.push((kp + 1, PeerStep::Data { sid: prom, n: pick(&mut rng, &[0usize, 7, 2000]), eos: true, pad: None }));
                }
                _ => {}
            }
            prom += 2;
        }
        acts.push((kp + rng.gen_range(0..3), resp(sid, 200, true)));
    }
    let mut steps = vec![PeerStep::WaitQ];
    for q in 2..10 {
        steps.push(PeerStep::WaitQ);
        for (at, st) in acts.iter() {
            if *at == q {
                steps.push(st.clone());
            }
        }
    }
    for _ in 0..4 {
        steps.push(PeerStep::WaitQ);
    }
    s.peer = steps;
    s.drop_sr_when_done = true;
    s
}

// ---------------------------------------------------------------------------
// Mode A, cooperative: streams are abandoned with WORK STILL QUEUED - DATA buffered (capacity assigned, not yet written),
// capacity reserved, a response half sent - by dropping the LAST handle (implicit RST_STREAM(CANCEL)) or by an explicit
// reset, the other handle going just before / together with / just after it, on the client (request bodies) or on the
// server (response bodies). Afterwards a witness exchange moves more than a whole connection window in both directions
// and must complete (C06), and when everything is gone the flow-control bookkeeping and the store are back to their
// idle values (C19.flow_idle, C19.slab_idle, C16.pool, C03 leak rules).
pub fn cancel_a(seed: u64) -> Scenario {
    let mut rng = StdRng::seed_from_u64(seed ^ 0xCA9CE1);
    let mut s = Scenario::default();
    s.name = format!("cancelA-{}", seed);
    s.mode = "A".into();
    s.sched.seed = seed;
    s.aims = vec!["C19".into(), "C16".into(), "C06".into()];
    if rng.gen_bool(0.3) {
        s.ccfg.iws = Some(pick(&mut rng, &[1000u32, 16384, 100000]));
        s.scfg.iws = Some(pick(&mut rng, &[1000u32, 16384, 100000]));
    }
    if rng.gen_bool(0.3) {
        s.ccfg.reset_max = Some(pick(&mut rng, &[0usize, 1]));
        s.scfg.reset_max = Some(pick(&mut rng, &[0usize, 1]));
    }
    if rng.gen_bool(0.3) {
        let ep = rng.gen_range(0..2);
        s.io.wmax[ep] = pick(&mut rng, &[100usize, 1000, 16384]);
    }
    let nv = rng.gen_range(1..4usize);
    let on_server = rng.gen_bool(0.4);
    let amounts = [1usize, 1000, 16384, 20000, 40000, 70000];
    for i in 0..nv {
        let mut r = ReqProg::default();
        r.tag = i as u32 + 1;
        r.ready = true;
        r.start_q = if i == 0 { None } else { Some(i) };
        let q0 = i + 1; // by then the HEADERS are written and the stream is open
        if on_server {
            r.method = "GET".into();
            r.eos = true;
            r.read = ReadPol::default();
            // the server answers, queues DATA and lets go of everything; the request body handle goes first / last
            let mut ops = vec![SendOp::Response { status: 200, hid: 0, eos: false }];
            if rng.gen_bool(0.4) {
                ops.push(SendOp::WaitQ { k: q0 + 1 });
            }
            match rng.gen_range(0..4) {
                0 => ops.push(SendOp::Data { n: pick(&mut rng, &amounts), eos: false }),
                1 => ops.push(SendOp::Reserve { n: pick(&mut rng, &amounts) }),
                2 => {
                    ops.push(SendOp::DataCap { n: pick(&mut rng, &amounts), eos: false });
                    ops.push(SendOp::Data { n: pick(&mut rng, &amounts), eos: false });
                }
                _ => {
                    ops.push(SendOp::Data { n: pick(&mut rng, &amounts), eos: false });
                    ops.push(SendOp::Reset { code: pick(&mut rng, &[8u32, 2, 0]) });
                }
            }
            ops.push(SendOp::Drop);
            let read = if rng.gen_bool(0.6) { ReadPol { max_chunks: Some(0), ..ReadPol::default() } } else { ReadPol { hold_q: Some(q0 + rng.gen_range(1..3)), ..ReadPol::default() } };
            s.srv.push(SrvProg { ops, read, note: String::new() });
        } else {
            r.method = "POST".into();
            let kd = q0 + rng.gen_range(0..3); // the ResponseFuture goes at this quiescence
            r.read = ReadPol { drop_head: true, start_q: Some(kd), ..ReadPol::default() };
            let kw = (kd as i64 + rng.gen_range(-1..2)).max(q0 as i64) as usize; // the writer leaves around it
            let mut ops = vec![SendOp::WaitQ { k: q0 }];
            if rng.gen_bool(0.4) {
                ops.push(SendOp::Data { n: pick(&mut rng, &[1usize, 1000, 20000]), eos: false });
            }
            ops.push(SendOp::WaitQ { k: kw });
            match rng.gen_range(0..4) {
                0 => ops.push(SendOp::Data { n: pick(&mut rng, &amounts), eos: false }),
                1 => ops.push(SendOp::Reserve { n: pick(&mut rng, &amounts) }),
                2 => {
                    ops.push(SendOp::DataCap { n: pick(&mut rng, &amounts), eos: false });
                    ops.push(SendOp::Data { n: pick(&mut rng, &amounts), eos: false });
                }
                _ => {
                    ops.push(SendOp::Data { n: pick(&mut rng, &amounts), eos: false });
                    ops.push(SendOp::Reset { code: pick(&mut rng, &[8u32, 2, 0]) });
                }
            }
            ops.push(SendOp::Drop);
            r.ops = ops;
            // the server reads what arrives and answers when (if) the request ends
            s.srv.push(SrvProg { ops: vec![SendOp::WaitQ { k: q0 + 1 }, SendOp::Response { status: 200, hid: 0, eos: true }], read: ReadPol::default(), note: String::new() });
        }
        s.reqs.push(r);
    }
    // the witness: more than a connection window in each direction, after the victims are gone
    let mut w = ReqProg::default();
    w.tag = nv as u32 + 1;
    w.ready = true;
    w.method = "POST".into();
    w.start_q = Some(nv + 5);
    w.ops = vec![SendOp::DataCap { n: pick(&mut rng, &[66000usize, 70000, 140000]), eos: true }];
    w.read = ReadPol::default();
    s.reqs.push(w);
    s.srv.push(SrvProg { ops: vec![SendOp::Response { status: 200, hid: 0, eos: false }, SendOp::DataCap { n: pick(&mut rng, &[66000usize, 70000, 140000]), eos: true }], read: ReadPol::default(), note: String::new() });
    s.env.push(EnvStep { at: "q".into(), n: (nv + 4) as u64, op: EnvOp::Census });
    s.drop_sr_when_done = true;
    s.sched.then = pick(&mut rng, &["random", "random", "fifo", "lifo"]).to_string();
    s.coop = true;
    s
}

// ---------------------------------------------------------------------------
// Mode Bc, cooperative in the end: the ways a writer comes to wait in poll_capacity with the "capacity changed" flag
// still set from an earlier grant that it consumed WITHOUT polling (hyper's pattern: reserve, read capacity(), send_data,
// reserve again, poll_capacity with the window used up), or that a SETTINGS frame took away again before the woken task
// ran, or that reserve(0) gave back. The grant that follows must wake it (C06 / C16.wait_woken); finally the peer opens
// every window and everything must complete.
pub fn cap_wait_bc(seed: u64) -> Scenario {
    let mut rng = StdRng::seed_from_u64(seed ^ 0xCA9_3A17);
    let mut s = Scenario::default();
    s.name = format!("capWaitBc-{}", seed);
    s.mode = "Bc".into();
    s.sched.seed = seed;
    s.aims = vec!["C06".into(), "C16".into()];
    let w0 = pick(&mut rng, &[10u32, 100, 5000, 16384, 65535]);
    s.peer_cfg.settings = vec![(4, w0)];
    s.peer_cfg.ack_settings = true;
    s.peer_cfg.ack_ping = true;
    s.peer_cfg.grant = "none".into();
    s.peer_cfg.respond = true;
    let variant = rng.gen_range(0..4);
    let nreq = if variant == 2 { 2 } else { rng.gen_range(1..3) };
    let more = pick(&mut rng, &[1usize, 7, 3000]);
    for i in 0..nreq {
        let mut r = ReqProg::default();
        r.tag = i as u32 + 1;
        r.ready = true;
        r.method = "POST".into();
        r.start_q = if i == 0 { None } else { Some(1) };
        let mut ops = vec![SendOp::WaitQ { k: 1 }];
        match variant {
            0 => {
                // granted at once, consumed without polling, then waits with the stream window used up
                ops.push(SendOp::Reserve { n: w0 as usize });
                ops.push(SendOp::Cap);
                ops.push(SendOp::Data { n: w0 as usize, eos: false });
                ops.push(SendOp::Reserve { n: more });
                ops.push(SendOp::PollCap);
                ops.push(SendOp::SendCap { eos: true });
            }
            1 => {
                // waits properly with nothing available; the peer grants and takes back in one batch, then grants again
                ops.push(SendOp::Data { n: w0 as usize, eos: false });
                ops.push(SendOp::Reserve { n: more });
                ops.push(SendOp::PollCap);
                ops.push(SendOp::SendCap { eos: true });
            }
            2 => {
                // the other stream holds the whole connection window; reserve / un-reserve / reserve, then wait
                if i == 0 {
                    ops.push(SendOp::Reserve { n: 65535 });
                    ops.push(SendOp::WaitQ { k: 4 });
                    ops.push(SendOp::Reserve { n: 0 });
                    ops.push(SendOp::Data { n: 0, eos: true });
                } else {
                    ops.push(SendOp::WaitQ { k: 2 });
                    ops.push(SendOp::Reserve { n: more });
                    ops.push(SendOp::Reserve { n: 0 });
                    ops.push(SendOp::Reserve { n: more });
                    ops.push(SendOp::PollCap);
                    ops.push(SendOp::SendCap { eos: true });
                }
            }
            _ => {
                // two rounds of the first pattern
                for _ in 0..2 {
                    ops.push(SendOp::Reserve { n: more });
                    ops.push(SendOp::PollCap);
                    ops.push(SendOp::Cap);
                    ops.push(SendOp::SendCap { eos: false });
                }
                ops.push(SendOp::Data { n: 0, eos: true });
            }
        }
        r.ops = ops;
        s.reqs.push(r);
    }
    let mut steps = vec![PeerStep::WaitQ, PeerStep::WaitQ, PeerStep::WaitQ];
    match variant {
        0 | 3 => {
            for i in 0..nreq {
                steps.push(PeerStep::Wu { sid: 1 + 2 * i as u32, inc: pick(&mut rng, &[1u32, 100, 70000]) });
            }
            steps.push(PeerStep::Wu { sid: 0, inc: 70000 });
        }
        1 => {
            for i in 0..nreq {
                steps.push(PeerStep::Wu { sid: 1 + 2 * i as u32, inc: 5 });
            }
            steps.push(PeerStep::Wu { sid: 0, inc: 70000 });
            steps.push(PeerStep::Settings { vals: vec![(4, w0 - 5)] });
            steps.push(PeerStep::WaitQ);
            steps.push(PeerStep::WaitQ);
            for i in 0..nreq {
                steps.push(PeerStep::Wu { sid: 1 + 2 * i as u32, inc: pick(&mut rng, &[6u32, 100, 70000]) });
            }
        }
        _ => {
            steps.push(PeerStep::WaitQ);
            steps.push(PeerStep::WaitQ);
        }
    }
    for _ in 0..3 {
        steps.push(PeerStep::WaitQ);
    }
    steps.push(PeerStep::Settings { vals: vec![(4, 1 << 20)] });
    steps.push(PeerStep::Auto { ack_settings: None, ack_ping: None, grant: Some("all".into()), respond: None });
    steps.push(PeerStep::Wu { sid: 0, inc: 1 << 20 });
    for _ in 0..3 {
        steps.push(PeerStep::WaitQ);
    }
    s.peer = steps;
    for q in 2..7 {
        s.env.push(EnvStep { at: "q".into(), n: q, op: EnvOp::Census });
    }
    s.drop_sr_when_done = true;
    s.coop = true;
    s
}

// ---------------------------------------------------------------------------
// Mode A, cooperative: user PINGs one after the other through the same PingPong handle, from either endpoint, at quiet
// moments (nothing else wakes the connection task) and beside traffic. Every accepted send_ping must reach the wire and
// its pong must come back (C14 user ping, C06: the ping handle wakes the connection task every time, not only the first).
pub fn pings_a(seed: u64) -> Scenario {
    let mut rng = StdRng::seed_from_u64(seed ^ 0x9196_5A);
    let mut s = Scenario::default();
    s.name = format!("pingsA-{}", seed);
    s.mode = "A".into();
    s.sched.seed = seed;
    s.aims = vec!["C06".into(), "C14".into()];
    let nreq = rng.gen_range(0..3u32);
    for i in 0..nreq {
        let mut r = ReqProg::default();
        r.tag = i + 1;
        r.ready = true;
        r.method = "POST".into();
        r.start_q = Some(rng.gen_range(0..6));
        r.ops = vec![SendOp::Data { n: pick(&mut rng, &[1usize, 1000, 20000]), eos: true }];
        r.read = ReadPol::default();
        s.reqs.push(r);
    }
    s.srv.push(SrvProg { ops: vec![SendOp::Response { status: 200, hid: 0, eos: false }, SendOp::Data { n: pick(&mut rng, &[0usize, 500]), eos: true }], read: ReadPol::default(), note: String::new() });
    let both = rng.gen_bool(0.3);
    let ep0 = rng.gen_range(0..2usize);
    let mut q = 1u64;
    for _ in 0..rng.gen_range(2..5) {
        s.env.push(EnvStep { at: "q".into(), n: q, op: EnvOp::Ping { ep: ep0 } });
        if both {
            s.env.push(EnvStep { at: "q".into(), n: q, op: EnvOp::Ping { ep: 1 - ep0 } });
        }
        q += rng.gen_range(1..4);
    }
    // keep the SendRequest handle until all pings are through, then let the connection close itself
    s.drop_sr_when_done = false;
    s.env.push(EnvStep { at: "q".into(), n: q + 3, op: EnvOp::DropSr });
    s.coop = true;
    s
}
