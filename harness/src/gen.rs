//! Seeded random scenario generators.
use crate::scenario::*;
use rand::rngs::StdRng;
use rand::{Rng, SeedableRng};

pub fn basic(seed: u64) -> Scenario {
    let mut s = Scenario::default();
    s.name = format!("basic-{}", seed);
    s.mode = "A".into();
    s.sched.seed = seed;
    let mut rng = StdRng::seed_from_u64(seed);
    let n = rng.gen_range(1..4);
    for i in 0..n {
        let mut r = ReqProg::default();
        r.tag = i + 1;
        r.ready = true;
        r.hid = rng.gen_range(0..24);
        r.ops = vec![SendOp::Data { n: rng.gen_range(0..100000), eos: true }];
        s.reqs.push(r);
    }
    s.srv.push(SrvProg { ops: vec![SendOp::Response { status: 200, hid: 1, eos: false }, SendOp::Data { n: 70000, eos: true }], read: ReadPol::default(), note: String::new() });
    s.drop_sr_when_done = true;
    s
}
