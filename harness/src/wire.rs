//! Independent HTTP/2 frame parser / serializer and RFC 7541 reference codec.
//! Written from RFC 9113 / RFC 7541, shares no code with h2.

use crate::huff_table::HUFF;
use serde_json::{json, Value};

pub const DATA: u8 = 0;
pub const HEADERS: u8 = 1;
pub const PRIORITY: u8 = 2;
pub const RST_STREAM: u8 = 3;
pub const SETTINGS: u8 = 4;
pub const PUSH_PROMISE: u8 = 5;
pub const PING: u8 = 6;
pub const GOAWAY: u8 = 7;
pub const WINDOW_UPDATE: u8 = 8;
pub const CONTINUATION: u8 = 9;

pub const F_END_STREAM: u8 = 0x1;
pub const F_ACK: u8 = 0x1;
pub const F_END_HEADERS: u8 = 0x4;
pub const F_PADDED: u8 = 0x8;
pub const F_PRIORITY: u8 = 0x20;

pub const PREFACE: &[u8] = b"PRI * HTTP/2.0\r\n\r\nSM\r\n\r\n";

#[derive(Clone, Debug, PartialEq)]
pub struct Frame {
    pub ty: u8,
    pub flags: u8,
    pub sid: u32,
    pub rbit: bool,
    pub payload: Vec<u8>,
    /// announced length when the frame is larger than the reader's limit (payload not collected)
    pub oversize: usize,
}

impl Frame {
    pub fn new(ty: u8, flags: u8, sid: u32, payload: Vec<u8>) -> Frame {
        Frame { ty, flags, sid, rbit: false, payload, oversize: 0 }
    }
    pub fn ser(&self) -> Vec<u8> {
        let mut v = Vec::with_capacity(9 + self.payload.len());
        let l = self.payload.len();
        v.push((l >> 16) as u8);
        v.push((l >> 8) as u8);
        v.push(l as u8);
        v.push(self.ty);
        v.push(self.flags);
        let sid = self.sid | if self.rbit { 0x8000_0000 } else { 0 };
        v.extend_from_slice(&sid.to_be_bytes());
        v.extend_from_slice(&self.payload);
        v
    }
    /// Serialize with an explicit (possibly lying) length field.
    pub fn ser_with_len(&self, l: usize) -> Vec<u8> {
        let mut v = self.ser();
        v[0] = (l >> 16) as u8;
        v[1] = (l >> 8) as u8;
        v[2] = l as u8;
        v
    }
    pub fn tyname(&self) -> &'static str {
        tyname(self.ty)
    }
}

pub fn tyname(t: u8) -> &'static str {
    match t {
        0 => "DATA",
        1 => "HEADERS",
        2 => "PRIORITY",
        3 => "RST_STREAM",
        4 => "SETTINGS",
        5 => "PUSH_PROMISE",
        6 => "PING",
        7 => "GOAWAY",
        8 => "WINDOW_UPDATE",
        9 => "CONTINUATION",
        _ => "UNKNOWN",
    }
}

// ---- frame builders (for the scripted peer) ---------------------------------

pub fn f_settings(vals: &[(u16, u32)]) -> Frame {
    let mut p = vec![];
    for (k, v) in vals {
        p.extend_from_slice(&k.to_be_bytes());
        p.extend_from_slice(&v.to_be_bytes());
    }
    Frame::new(SETTINGS, 0, 0, p)
}
pub fn f_settings_ack() -> Frame {
    Frame::new(SETTINGS, F_ACK, 0, vec![])
}
pub fn f_ping(ack: bool, pl: [u8; 8]) -> Frame {
    Frame::new(PING, if ack { F_ACK } else { 0 }, 0, pl.to_vec())
}
pub fn f_window_update(sid: u32, inc: u32) -> Frame {
    Frame::new(WINDOW_UPDATE, 0, sid, inc.to_be_bytes().to_vec())
}
pub fn f_rst(sid: u32, code: u32) -> Frame {
    Frame::new(RST_STREAM, 0, sid, code.to_be_bytes().to_vec())
}
pub fn f_goaway(last: u32, code: u32, dbg: &[u8]) -> Frame {
    let mut p = last.to_be_bytes().to_vec();
    p.extend_from_slice(&code.to_be_bytes());
    p.extend_from_slice(dbg);
    Frame::new(GOAWAY, 0, 0, p)
}
pub fn f_data(sid: u32, data: &[u8], eos: bool, pad: Option<u8>) -> Frame {
    let mut fl = if eos { F_END_STREAM } else { 0 };
    let mut p = vec![];
    if let Some(n) = pad {
        fl |= F_PADDED;
        p.push(n);
        p.extend_from_slice(data);
        p.extend(std::iter::repeat(0).take(n as usize));
    } else {
        p.extend_from_slice(data);
    }
    Frame::new(DATA, fl, sid, p)
}
pub fn f_priority(sid: u32, dep: u32, excl: bool, weight: u8) -> Frame {
    let d = dep | if excl { 0x8000_0000 } else { 0 };
    let mut p = d.to_be_bytes().to_vec();
    p.push(weight);
    Frame::new(PRIORITY, 0, sid, p)
}
/// Header block split into HEADERS (+CONTINUATIONs) with fragments of at most `max` bytes.
pub fn f_headers(sid: u32, block: &[u8], eos: bool, max: usize, prio: Option<(u32, bool, u8)>) -> Vec<Frame> {
    let mut out = vec![];
    let mut first = vec![];
    let mut fl = if eos { F_END_STREAM } else { 0 };
    if let Some((dep, ex, w)) = prio {
        fl |= F_PRIORITY;
        let d = dep | if ex { 0x8000_0000 } else { 0 };
        first.extend_from_slice(&d.to_be_bytes());
        first.push(w);
    }
    let max = max.max(1);
    let n0 = block.len().min(max);
    first.extend_from_slice(&block[..n0]);
    let mut rest = &block[n0..];
    out.push(Frame::new(HEADERS, fl, sid, first));
    while !rest.is_empty() {
        let n = rest.len().min(max);
        out.push(Frame::new(CONTINUATION, 0, sid, rest[..n].to_vec()));
        rest = &rest[n..];
    }
    out.last_mut().unwrap().flags |= F_END_HEADERS;
    out
}
pub fn f_push_promise(sid: u32, promised: u32, block: &[u8], max: usize) -> Vec<Frame> {
    let mut out = vec![];
    let mut first = promised.to_be_bytes().to_vec();
    let max = max.max(1);
    let n0 = block.len().min(max);
    first.extend_from_slice(&block[..n0]);
    let mut rest = &block[n0..];
    out.push(Frame::new(PUSH_PROMISE, 0, sid, first));
    while !rest.is_empty() {
        let n = rest.len().min(max);
        out.push(Frame::new(CONTINUATION, 0, sid, rest[..n].to_vec()));
        rest = &rest[n..];
    }
    out.last_mut().unwrap().flags |= F_END_HEADERS;
    out
}

// ---- incremental frame splitter --------------------------------------------

/// Accumulates a byte stream and yields complete frames.
pub struct Splitter {
    buf: Vec<u8>,
    skip_preface: usize,
    pub bad_preface: bool,
    /// frames announcing a longer payload are reported at once (header only) and their payload skipped
    pub max_len: usize,
    skip: usize,
}

impl Splitter {
    pub fn new(expect_preface: bool) -> Splitter {
        Splitter { buf: vec![], skip_preface: if expect_preface { PREFACE.len() } else { 0 }, bad_preface: false, max_len: usize::MAX, skip: 0 }
    }
    pub fn push(&mut self, bytes: &[u8]) -> Vec<Frame> {
        self.buf.extend_from_slice(bytes);
        let mut out = vec![];
        loop {
            if self.skip_preface > 0 {
                if self.buf.len() < self.skip_preface {
                    break;
                }
                if &self.buf[..PREFACE.len()] != PREFACE {
                    self.bad_preface = true;
                }
                self.buf.drain(..self.skip_preface);
                self.skip_preface = 0;
            }
            if self.skip > 0 {
                let k = self.skip.min(self.buf.len());
                self.buf.drain(..k);
                self.skip -= k;
                if self.skip > 0 {
                    break;
                }
            }
            if self.buf.len() >= 3 {
                // a reader may give up as soon as it has seen the length field: report an oversize frame right there
                let l = ((self.buf[0] as usize) << 16) | ((self.buf[1] as usize) << 8) | self.buf[2] as usize;
                if l > self.max_len {
                    out.push(Frame { ty: 0xff, flags: 0, sid: 0, rbit: false, payload: vec![], oversize: l });
                    self.buf.drain(..3);
                    self.skip = l + 6;
                    continue;
                }
            }
            if self.buf.len() < 9 {
                break;
            }
            let l = ((self.buf[0] as usize) << 16) | ((self.buf[1] as usize) << 8) | self.buf[2] as usize;
            if self.buf.len() < 9 + l {
                break;
            }
            let sidraw = u32::from_be_bytes([self.buf[5], self.buf[6], self.buf[7], self.buf[8]]);
            let f = Frame {
                ty: self.buf[3],
                flags: self.buf[4],
                sid: sidraw & 0x7fff_ffff,
                rbit: sidraw & 0x8000_0000 != 0,
                payload: self.buf[9..9 + l].to_vec(),
                oversize: 0,
            };
            self.buf.drain(..9 + l);
            out.push(f);
        }
        out
    }
    pub fn pending(&self) -> usize {
        self.buf.len()
    }
}

// ---- HPACK reference --------------------------------------------------------

pub const STATIC_TABLE: [(&str, &str); 61] = [
    (":authority", ""),
    (":method", "GET"),
    (":method", "POST"),
    (":path", "/"),
    (":path", "/index.html"),
    (":scheme", "http"),
    (":scheme", "https"),
    (":status", "200"),
    (":status", "204"),
    (":status", "206"),
    (":status", "304"),
    (":status", "400"),
    (":status", "404"),
    (":status", "500"),
    ("accept-charset", ""),
    ("accept-encoding", "gzip, deflate"),
    ("accept-language", ""),
    ("accept-ranges", ""),
    ("accept", ""),
    ("access-control-allow-origin", ""),
    ("age", ""),
    ("allow", ""),
    ("authorization", ""),
    ("cache-control", ""),
    ("content-disposition", ""),
    ("content-encoding", ""),
    ("content-language", ""),
    ("content-length", ""),
    ("content-location", ""),
    ("content-range", ""),
    ("content-type", ""),
    ("cookie", ""),
    ("date", ""),
    ("etag", ""),
    ("expect", ""),
    ("expires", ""),
    ("from", ""),
    ("host", ""),
    ("if-match", ""),
    ("if-modified-since", ""),
    ("if-none-match", ""),
    ("if-range", ""),
    ("if-unmodified-since", ""),
    ("last-modified", ""),
    ("link", ""),
    ("location", ""),
    ("max-forwards", ""),
    ("proxy-authenticate", ""),
    ("proxy-authorization", ""),
    ("range", ""),
    ("referer", ""),
    ("refresh", ""),
    ("retry-after", ""),
    ("server", ""),
    ("set-cookie", ""),
    ("strict-transport-security", ""),
    ("transfer-encoding", ""),
    ("user-agent", ""),
    ("vary", ""),
    ("via", ""),
    ("www-authenticate", ""),
];

#[derive(Clone, Debug, PartialEq, Eq)]
pub enum HpackErr {
    Truncated,
    IntOverflow,
    BadIndex,
    BadHuffman,
    SizeUpdateMisplaced,
    SizeUpdateTooLarge,
}

#[derive(Clone, Debug, PartialEq, Eq)]
pub enum Instr {
    Indexed(usize),
    LitIncr { name_idx: usize, name: Vec<u8>, value: Vec<u8> },
    LitNoIdx { name_idx: usize, name: Vec<u8>, value: Vec<u8> },
    LitNever { name_idx: usize, name: Vec<u8>, value: Vec<u8> },
    SizeUpdate(usize),
}

/// RFC 7541 5.1 prefix integer. Returns (value, bytes consumed).
/// Values are limited to < 2^32 here (anything longer is reported as overflow);
pub fn dec_int(buf: &[u8], prefix: u8) -> Result<(u64, usize), HpackErr> {
    if buf.is_empty() {
        return Err(HpackErr::Truncated);
    }
    let mask = ((1u16 << prefix) - 1) as u8;
    let mut i = (buf[0] & mask) as u64;
    if i < mask as u64 {
        return Ok((i, 1));
    }
    let mut m = 0u32;
    let mut pos = 1;
    loop {
        if pos >= buf.len() {
            return Err(HpackErr::Truncated);
        }
        let b = buf[pos];
        pos += 1;
        if m > 56 {
            return Err(HpackErr::IntOverflow);
        }
        i += ((b & 0x7f) as u64) << m;
        if i > u32::MAX as u64 {
            return Err(HpackErr::IntOverflow);
        }
        m += 7;
        if b & 0x80 == 0 {
            return Ok((i, pos));
        }
    }
}

pub fn enc_int(out: &mut Vec<u8>, first: u8, prefix: u8, mut v: u64) {
    let mask = ((1u16 << prefix) - 1) as u64;
    if v < mask {
        out.push(first | v as u8);
        return;
    }
    out.push(first | mask as u8);
    v -= mask;
    while v >= 128 {
        out.push((v % 128) as u8 | 0x80);
        v /= 128;
    }
    out.push(v as u8);
}

/// Canonical Huffman decoding by bit-walk over the code table (no trie tables).
pub fn huff_decode(src: &[u8]) -> Result<Vec<u8>, HpackErr> {
    let mut out = vec![];
    let mut cur: u32 = 0;
    let mut n: u8 = 0;
    for &byte in src {
        for k in (0..8).rev() {
            let bit = (byte >> k) & 1;
            cur = (cur << 1) | bit as u32;
            n += 1;
            if n > 30 {
                return Err(HpackErr::BadHuffman);
            }
            if let Some(sym) = lookup(cur, n) {
                if sym == 256 {
                    return Err(HpackErr::BadHuffman);
                }
                out.push(sym as u8);
                cur = 0;
                n = 0;
            }
        }
    }
    // padding: strictly fewer than 8 bits, all ones (a prefix of EOS)
    if n > 7 {
        return Err(HpackErr::BadHuffman);
    }
    if n > 0 && cur != (1u32 << n) - 1 {
        return Err(HpackErr::BadHuffman);
    }
    Ok(out)
}

fn lookup(code: u32, len: u8) -> Option<usize> {
    // linear scan keyed by length; fine for a reference
    HUFF_BY_LEN.with(|t| t[len as usize].iter().find(|(c, _)| *c == code).map(|(_, s)| *s))
}

thread_local! {
    static HUFF_BY_LEN: Vec<Vec<(u32, usize)>> = {
        let mut v = vec![vec![]; 31];
        for (s, (c, l)) in HUFF.iter().enumerate() {
            v[*l as usize].push((*c, s));
        }
        v
    };
}

pub fn huff_encode(src: &[u8]) -> Vec<u8> {
    let mut out = vec![];
    let mut acc: u64 = 0;
    let mut n = 0u32;
    for &b in src {
        let (c, l) = HUFF[b as usize];
        acc = (acc << l) | c as u64;
        n += l as u32;
        while n >= 8 {
            out.push((acc >> (n - 8)) as u8);
            n -= 8;
        }
        acc &= (1u64 << n) - 1;
    }
    if n > 0 {
        let pad = 8 - n;
        out.push(((acc << pad) | ((1u64 << pad) - 1)) as u8);
    }
    out
}

fn dec_string(buf: &[u8]) -> Result<(Vec<u8>, usize), HpackErr> {
    if buf.is_empty() {
        return Err(HpackErr::Truncated);
    }
    let huff = buf[0] & 0x80 != 0;
    let (len, n) = dec_int(buf, 7)?;
    let len = len as usize;
    if buf.len() - n < len {
        return Err(HpackErr::Truncated);
    }
    let raw = &buf[n..n + len];
    let s = if huff { huff_decode(raw)? } else { raw.to_vec() };
    Ok((s, n + len))
}

pub fn enc_string(out: &mut Vec<u8>, s: &[u8], huff: bool) {
    if huff {
        let h = huff_encode(s);
        enc_int(out, 0x80, 7, h.len() as u64);
        out.extend_from_slice(&h);
    } else {
        enc_int(out, 0, 7, s.len() as u64);
        out.extend_from_slice(s);
    }
}

/// Parse a complete header block into instructions (no table needed).
/// one instruction at the head of `buf`: (instruction, octets consumed)
pub fn parse_one(buf0: &[u8]) -> Result<(Instr, usize), HpackErr> {
    let mut buf = buf0;
    let b = buf[0];
    if b & 0x80 != 0 {
        let (i, n) = dec_int(buf, 7)?;
        Ok((Instr::Indexed(i as usize), n))
    } else if b & 0xe0 == 0x20 {
        let (i, n) = dec_int(buf, 5)?;
        Ok((Instr::SizeUpdate(i as usize), n))
    } else {
        let (prefix, kind) = if b & 0xc0 == 0x40 {
            (6, 0)
        } else if b & 0xf0 == 0x10 {
            (4, 2)
        } else {
            (4, 1)
        };
        let (i, n) = dec_int(buf, prefix)?;
        buf = &buf[n..];
        let mut name = vec![];
        if i == 0 {
            let (s, n) = dec_string(buf)?;
            name = s;
            buf = &buf[n..];
        }
        let (value, n) = dec_string(buf)?;
        buf = &buf[n..];
        let name_idx = i as usize;
        Ok((
            match kind {
                0 => Instr::LitIncr { name_idx, name, value },
                1 => Instr::LitNoIdx { name_idx, name, value },
                _ => Instr::LitNever { name_idx, name, value },
            },
            buf0.len() - buf.len(),
        ))
    }
}

pub fn parse_block(mut buf: &[u8]) -> Result<Vec<Instr>, HpackErr> {
    let mut out = vec![];
    while !buf.is_empty() {
        let (ins, n) = parse_one(buf)?;
        out.push(ins);
        buf = &buf[n..];
    }
    Ok(out)
}

/// the complete instructions at the start of a (possibly truncated) block
pub fn parse_block_prefix(mut buf: &[u8]) -> Vec<Instr> {
    let mut out = vec![];
    while !buf.is_empty() {
        match parse_one(buf) {
            Ok((ins, n)) => {
                out.push(ins);
                buf = &buf[n..];
            }
            Err(_) => break,
        }
    }
    out
}

#[derive(Clone, Debug)]
pub struct RefTable {
    pub entries: std::collections::VecDeque<(Vec<u8>, Vec<u8>)>,
    pub size: usize,
    pub max: usize,
    /// upper limit allowed by the (acknowledged) SETTINGS_HEADER_TABLE_SIZE
    pub allowed: usize,
}

impl RefTable {
    pub fn new(max: usize) -> RefTable {
        RefTable { entries: Default::default(), size: 0, max, allowed: max }
    }
    fn get(&self, idx: usize) -> Result<(Vec<u8>, Vec<u8>), HpackErr> {
        if idx == 0 {
            return Err(HpackErr::BadIndex);
        }
        if idx <= 61 {
            let (n, v) = STATIC_TABLE[idx - 1];
            return Ok((n.as_bytes().to_vec(), v.as_bytes().to_vec()));
        }
        self.entries.get(idx - 62).cloned().ok_or(HpackErr::BadIndex)
    }
    fn evict(&mut self) {
        while self.size > self.max {
            let (n, v) = self.entries.pop_back().unwrap();
            self.size -= 32 + n.len() + v.len();
        }
    }
    fn insert(&mut self, n: Vec<u8>, v: Vec<u8>) {
        let sz = 32 + n.len() + v.len();
        if sz > self.max {
            self.entries.clear();
            self.size = 0;
            return;
        }
        while self.size + sz > self.max {
            let (n, v) = self.entries.pop_back().unwrap();
            self.size -= 32 + n.len() + v.len();
        }
        self.entries.push_front((n, v));
        self.size += sz;
    }
    /// Execute a block of instructions per RFC 7541; returns the field list.
    pub fn exec(&mut self, ins: &[Instr]) -> Result<Vec<(Vec<u8>, Vec<u8>)>, HpackErr> {
        let mut out = vec![];
        let mut seen_field = false;
        for i in ins {
            match i {
                Instr::SizeUpdate(n) => {
                    if seen_field {
                        return Err(HpackErr::SizeUpdateMisplaced);
                    }
                    if *n > self.allowed {
                        return Err(HpackErr::SizeUpdateTooLarge);
                    }
                    self.max = *n;
                    self.evict();
                }
                Instr::Indexed(ix) => {
                    seen_field = true;
                    out.push(self.get(*ix)?);
                }
                Instr::LitIncr { name_idx, name, value } => {
                    seen_field = true;
                    let n = if *name_idx == 0 { name.clone() } else { self.get(*name_idx)?.0 };
                    out.push((n.clone(), value.clone()));
                    self.insert(n, value.clone());
                }
                Instr::LitNoIdx { name_idx, name, value } | Instr::LitNever { name_idx, name, value } => {
                    seen_field = true;
                    let n = if *name_idx == 0 { name.clone() } else { self.get(*name_idx)?.0 };
                    out.push((n, value.clone()));
                }
            }
        }
        Ok(out)
    }
    pub fn decode(&mut self, block: &[u8]) -> Result<Vec<(Vec<u8>, Vec<u8>)>, HpackErr> {
        let ins = parse_block(block)?;
        self.exec(&ins)
    }
}

/// Minimal literal encoder used by the scripted peer: never uses the dynamic
/// table (literal without indexing, new name), optionally Huffman.
pub fn enc_literal_block(fields: &[(Vec<u8>, Vec<u8>)], huff: bool) -> Vec<u8> {
    let mut out = vec![];
    for (n, v) in fields {
        out.push(0x00);
        enc_string(&mut out, n, huff);
        enc_string(&mut out, v, huff);
    }
    out
}

pub fn enc_instrs(ins: &[Instr], huff: bool) -> Vec<u8> {
    let mut out = vec![];
    for i in ins {
        match i {
            Instr::Indexed(ix) => enc_int(&mut out, 0x80, 7, *ix as u64),
            Instr::SizeUpdate(n) => enc_int(&mut out, 0x20, 5, *n as u64),
            Instr::LitIncr { name_idx, name, value } => {
                enc_int(&mut out, 0x40, 6, *name_idx as u64);
                if *name_idx == 0 {
                    enc_string(&mut out, name, huff);
                }
                enc_string(&mut out, value, huff);
            }
            Instr::LitNoIdx { name_idx, name, value } => {
                enc_int(&mut out, 0x00, 4, *name_idx as u64);
                if *name_idx == 0 {
                    enc_string(&mut out, name, huff);
                }
                enc_string(&mut out, value, huff);
            }
            Instr::LitNever { name_idx, name, value } => {
                enc_int(&mut out, 0x10, 4, *name_idx as u64);
                if *name_idx == 0 {
                    enc_string(&mut out, name, huff);
                }
                enc_string(&mut out, value, huff);
            }
        }
    }
    out
}

// ---- header list abstraction ------------------------------------------------

pub fn lossy(b: &[u8]) -> String {
    b.iter()
        .map(|&c| if (0x20..0x7f).contains(&c) && c != b'\\' && c != b'"' { (c as char).to_string() } else { format!("%{:02x}", c) })
        .collect()
}

/// Canonical form used for fidelity comparison: fields grouped by name
/// (stable sort), order within a name preserved.
pub fn canon(fields: &[(Vec<u8>, Vec<u8>)]) -> String {
    let mut v: Vec<(String, usize, String)> =
        fields.iter().enumerate().map(|(i, (n, v))| (lossy(n).to_ascii_lowercase(), i, lossy(v))).collect();
    v.sort();
    v.iter().map(|(n, _, v)| format!("{}={}", n, v)).collect::<Vec<_>>().join("|")
}

/// Field class alphabet of HttpSemantics.tla.
pub fn classify(fields: &[(Vec<u8>, Vec<u8>)]) -> (Vec<String>, i64, i64) {
    let mut cls = vec![];
    let mut status: i64 = 0;
    let mut cl: i64 = -1; // -1 absent, -2 garbage, -3 conflicting
    for (n, v) in fields {
        let ns = String::from_utf8_lossy(n).to_string();
        let vs = String::from_utf8_lossy(v).to_string();
        let c = if ns.starts_with(':') {
            match ns.as_str() {
                ":method" => format!(":method={}", match vs.as_str() { "GET" | "HEAD" | "CONNECT" | "POST" | "OPTIONS" => vs.as_str(), _ => "OTHER" }),
                ":scheme" => ":scheme".into(),
                ":path" => if vs.is_empty() { ":path=empty".into() } else { ":path".into() },
                ":authority" => ":authority".into(),
                ":protocol" => ":protocol".into(),
                ":status" => {
                    let s: i64 = vs.parse().unwrap_or(-1);
                    if status == 0 {
                        status = s;
                    }
                    if vs.len() != 3 || s < 100 || s > 999 { ":status=bad".into() } else if s < 200 { ":status=1xx".into() } else { format!(":status={}", match s { 204 => "204", 304 => "304", _ => "2xx" }) }
                }
                _ => ":unknown".into(),
            }
        } else if n.iter().any(|c| c.is_ascii_uppercase()) {
            "upper".into()
        } else if n.is_empty() || n.iter().any(|&c| c <= 0x20 || c >= 0x7f || c == b':') {
            "badname".into()
        } else {
            match ns.as_str() {
                "connection" | "keep-alive" | "proxy-connection" | "transfer-encoding" | "upgrade" => "connspec".into(),
                "te" => if vs == "trailers" { "te=trailers".into() } else { "te=other".into() },
                "content-length" => {
                    match vs.parse::<u64>() {
                        Ok(x) if x < (1 << 30) && !vs.starts_with('+') => {
                            if cl == -1 { cl = x as i64; } else if cl != x as i64 { cl = -3; }
                            "cl".into()
                        }
                        _ => { cl = -2; "cl=bad".into() }
                    }
                }
                _ => if v.iter().any(|&c| c == 0 || c == b'\r' || c == b'\n') { "badvalue".into() } else { "plain".into() },
            }
        };
        cls.push(c);
    }
    (cls, status, cl)
}

/// JSON view of a header list for trace events.
pub fn hdr_json(res: &Result<Vec<(Vec<u8>, Vec<u8>)>, HpackErr>) -> Value {
    match res {
        Ok(f) => {
            let (cls, status, cl) = classify(f);
            let size: usize = f.iter().map(|(n, v)| 32 + n.len() + v.len()).sum();
            json!({"ok": true, "canon": canon(f), "cls": cls, "status": status, "cl": cl, "n": f.len(), "size": size})
        }
        Err(e) => json!({"ok": false, "canon": format!("ERR:{:?}", e), "cls": [], "status": 0, "cl": -1, "n": 0, "size": 0}),
    }
}

// ---- per-direction wire decoder producing trace JSON -----------------------

pub struct WireDecoder {
    pub split: Splitter,
    pub table: RefTable,
    block: Vec<u8>,
    block_sid: u32,
    block_open: bool,
    block_first: Option<(u8, u8, u32)>, // ty, flags, promised
    pub frames_seen: usize,
}

pub fn clamp31(v: u32) -> i64 {
    if v > 0x7fff_ffff { 0x7fff_ffff } else { v as i64 }
}

impl WireDecoder {
    pub fn new(expect_preface: bool) -> WireDecoder {
        WireDecoder {
            split: Splitter::new(expect_preface),
            table: RefTable::new(4096),
            block: vec![],
            block_sid: 0,
            block_open: false,
            block_first: None,
            frames_seen: 0,
        }
    }

    /// Feed bytes; returns (frame, json view) for each completed frame.
    pub fn feed(&mut self, bytes: &[u8]) -> Vec<(Frame, Value)> {
        let frames = self.split.push(bytes);
        frames.into_iter().map(|f| { let j = self.view(&f); (f, j) }).collect()
    }

    pub fn view(&mut self, f: &Frame) -> Value {
        self.frames_seen += 1;
        let mut j = json!({
            "ty": f.tyname(), "tyn": f.ty, "fl": f.flags, "sid": f.sid as i64, "len": f.payload.len(),
            "es": false, "eh": false, "ack": false, "bad": "",
            "inc": 0, "ch": 0, "cl": 0, "last": 0, "dbg": 0, "dbgs": "", "dlen": 0, "pl": "",
            "prom": 0, "hb": false, "bes": false, "blen": 0, "bt": "", "pcls": [],
        });
        let p = &f.payload;
        let o = j.as_object_mut().unwrap();
        let mut bad = String::new();
        if f.oversize > 0 {
            o.insert("len".into(), json!(f.oversize));
            o.insert("bad".into(), json!("oversize"));
            return j;
        }
        match f.ty {
            DATA => {
                o.insert("es".into(), json!(f.flags & F_END_STREAM != 0));
                let mut dlen = p.len() as i64;
                if f.flags & F_PADDED != 0 {
                    if p.is_empty() || (p[0] as usize) >= p.len() {
                        bad = "pad".into();
                        dlen = 0;
                    } else {
                        dlen = (p.len() - 1 - p[0] as usize) as i64;
                    }
                }
                o.insert("dlen".into(), json!(dlen));
            }
            HEADERS | PUSH_PROMISE | CONTINUATION => {
                let mut frag: &[u8] = p;
                if f.ty == HEADERS {
                    o.insert("es".into(), json!(f.flags & F_END_STREAM != 0));
                }
                let mut padlen = 0usize;
                if f.ty != CONTINUATION && f.flags & F_PADDED != 0 {
                    if frag.is_empty() {
                        bad = "pad".into();
                    } else {
                        padlen = frag[0] as usize;
                        frag = &frag[1..];
                    }
                }
                if f.ty == HEADERS && f.flags & F_PRIORITY != 0 {
                    if frag.len() < 5 {
                        bad = "prio".into();
                        frag = &[];
                    } else {
                        let dep = u32::from_be_bytes([frag[0], frag[1], frag[2], frag[3]]) & 0x7fff_ffff;
                        if dep == f.sid {
                            bad = "selfdep".into();
                        }
                        frag = &frag[5..];
                    }
                }
                let mut promised = 0u32;
                if f.ty == PUSH_PROMISE {
                    if frag.len() < 4 {
                        bad = "short".into();
                        frag = &[];
                    } else {
                        promised = u32::from_be_bytes([frag[0], frag[1], frag[2], frag[3]]) & 0x7fff_ffff;
                        frag = &frag[4..];
                    }
                    o.insert("prom".into(), json!(promised as i64));
                }
                if padlen > frag.len() {
                    bad = "pad".into();
                    frag = &[];
                } else {
                    frag = &frag[..frag.len() - padlen];
                }
                let eh = f.flags & F_END_HEADERS != 0;
                o.insert("eh".into(), json!(eh));
                if f.ty != CONTINUATION {
                    self.block.clear();
                    self.block_sid = f.sid;
                    self.block_open = true;
                    self.block_first = Some((f.ty, f.flags, promised));
                    self.block.extend_from_slice(frag);
                } else if self.block_open && self.block_sid == f.sid {
                    self.block.extend_from_slice(frag);
                } else {
                    bad = "cont".into();
                }
                if !eh && self.block_open && bad != "cont" {
                    // header list decoded so far (on a copy of the table): lets the contract see a block that is already malformed
                    let mut t = self.table.clone();
                    if let Ok(fl) = t.exec(&parse_block_prefix(&self.block)) {
                        let (cls, _, _) = classify(&fl);
                        o.insert("pcls".into(), json!(cls));
                    }
                }
                if eh && self.block_open && bad != "cont" {
                    self.block_open = false;
                    let r = self.table.decode(&self.block);
                    o.insert("hdr".into(), hdr_json(&r));
                    o.insert("hb".into(), json!(true));
                    o.insert("bt".into(), json!(tyname(self.block_first.map(|x| x.0).unwrap_or(HEADERS))));
                    if let Some((_, fl, _)) = self.block_first {
                        // END_STREAM of the block is carried by the HEADERS frame
                        o.insert("bes".into(), json!(fl & F_END_STREAM != 0 && self.block_first.map(|x| x.0) == Some(HEADERS)));
                    }
                    o.insert("blen".into(), json!(self.block.len()));
                }
            }
            PRIORITY => {
                if p.len() != 5 {
                    bad = "len".into();
                } else {
                    let dep = u32::from_be_bytes([p[0], p[1], p[2], p[3]]) & 0x7fff_ffff;
                    if dep == f.sid {
                        bad = "selfdep".into();
                    }
                }
            }
            RST_STREAM => {
                if p.len() != 4 {
                    bad = "len".into();
                } else {
                    o.insert("ch".into(), json!(((p[0] as i64) << 8) | p[1] as i64));
                    o.insert("cl".into(), json!(((p[2] as i64) << 8) | p[3] as i64));
                }
            }
            SETTINGS => {
                let ack = f.flags & F_ACK != 0;
                o.insert("ack".into(), json!(ack));
                if (ack && !p.is_empty()) || p.len() % 6 != 0 {
                    bad = "len".into();
                } else {
                    let mut s = json!({"htz": -1, "push": -1, "maxc": -1, "iws": -1, "mfs": -1, "mhl": -1, "ecp": -1, "unk": 0});
                    let so = s.as_object_mut().unwrap();
                    for c in p.chunks(6) {
                        let k = u16::from_be_bytes([c[0], c[1]]);
                        let v = u32::from_be_bytes([c[2], c[3], c[4], c[5]]);
                        match k {
                            1 => { so.insert("htz".into(), json!(clamp31(v))); }
                            2 => { so.insert("push".into(), json!(clamp31(v))); if v > 1 { bad = "val".into(); } }
                            3 => { so.insert("maxc".into(), json!(clamp31(v))); }
                            4 => { so.insert("iws".into(), json!(clamp31(v))); if v > 0x7fff_ffff { bad = "valfc".into(); } }
                            5 => { so.insert("mfs".into(), json!(clamp31(v))); if !(16384..=16777215).contains(&v) { bad = "val".into(); } }
                            6 => { so.insert("mhl".into(), json!(clamp31(v))); }
                            8 => { so.insert("ecp".into(), json!(clamp31(v))); if v > 1 { bad = "val".into(); } }
                            _ => { let u = so["unk"].as_i64().unwrap(); so.insert("unk".into(), json!(u + 1)); }
                        }
                    }
                    o.insert("set".into(), s);
                }
            }
            PING => {
                o.insert("ack".into(), json!(f.flags & F_ACK != 0));
                if p.len() != 8 {
                    bad = "len".into();
                } else {
                    o.insert("pl".into(), json!(p.iter().map(|b| format!("{:02x}", b)).collect::<String>()));
                }
            }
            GOAWAY => {
                if p.len() < 8 {
                    bad = "len".into();
                } else {
                    o.insert("last".into(), json!((u32::from_be_bytes([p[0], p[1], p[2], p[3]]) & 0x7fff_ffff) as i64));
                    o.insert("ch".into(), json!(((p[4] as i64) << 8) | p[5] as i64));
                    o.insert("cl".into(), json!(((p[6] as i64) << 8) | p[7] as i64));
                    o.insert("dbg".into(), json!(p.len() - 8));
                    // short printable debug data as text (h2 names the policy that made it give up)
                    let d = &p[8..];
                    if !d.is_empty() && d.len() <= 48 && d.iter().all(|b| b.is_ascii_graphic()) {
                        o.insert("dbgs".into(), json!(String::from_utf8_lossy(d)));
                    }
                }
            }
            WINDOW_UPDATE => {
                if p.len() != 4 {
                    bad = "len".into();
                } else {
                    o.insert("inc".into(), json!((u32::from_be_bytes([p[0], p[1], p[2], p[3]]) & 0x7fff_ffff) as i64));
                }
            }
            _ => {}
        }
        o.insert("bad".into(), json!(bad));
        j
    }
}
