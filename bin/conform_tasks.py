#!/usr/bin/env python3
"""Spec -> implementation conformance for the wake-up model (H2Tasks.tla).
TLC (simulation, seeded) generates behaviours of MC_Tasks under schedules the simulator reproduces (a new handle call / one
peer frame per quiescence; then the connection task and the woken tasks run until nothing is woken); each becomes a scenario
for the simulator (mode Bc: REAL h2 client, scripted raw-frame server; the simulator's executor polls a task ONLY if its waker
fired).  At every quiescence the SET OF PARKED TASKS (`out` of the `q` event: task, call, stream), the results of the calls made
in between (`api` events: task, call, stream, result, value - including the repeated `pending` of a task that was woken for
nothing) and the frames written (HEADERS / DATA / RST_STREAM / WINDOW_UPDATE) are compared with the model.  Mismatch = DRIFT.
A task the model says was woken but that stays in `out` is a wake-up lost by the code; a task the model leaves parked in a call
whose readiness condition holds is reported by TLC itself (invariants InvC06 / InvC07 / InvC08 of MC_Tasks).
Units: 1 model unit = 21845 octets (65535 = 3 units); the scripted server announces SETTINGS_MAX_FRAME_SIZE 65536 so that no
DATA frame is split.  Model stream ids are the real ids; request tag = (id + 1) / 2; promised streams carry tag 100 + id.
usage: conform_tasks.py <num behaviours> <seed> <outdir> [--cfg a.cfg,b.cfg] [--corrupt] [--spec <dir>]
   -> <outdir>/conform_tasks.json   (--corrupt: binding experiment, one expected wake-up is removed per behaviour;
                                     --spec: a (mutated) copy of /verif/spec; env H2SIM: the simulator binary)"""
import sys, os, json, subprocess, re, shutil

VERIF = os.path.dirname(os.path.dirname(os.path.abspath(__file__)))
TLCW = os.path.join(VERIF, "bin", "tlcw")
SPEC = os.path.join(VERIF, "spec")
SIM = os.environ.get("H2SIM") or os.path.join(VERIF, "harness", "target", "debug", "sim")
U = 21845
NPAR = 8
OFF = 1                     # env step i (1-based) happens at quiescence i + OFF (quiescence 1 = after the handshake)
SYS = ("repoll", "conn_recv", "conn_pop")
DEFAULT_CFGS = ["MC_Tasks_export.cfg", "MC_Tasks_export_open.cfg", "MC_Tasks_export_recv.cfg", "MC_Tasks_export_end.cfg", "MC_Tasks_export_push.cfg",
                "MC_Tasks_export_server.cfg"]
PARKING = ("poll_capacity", "poll_reset", "poll_ready", "poll_response", "poll_data", "poll_trailers", "poll_push")


def tlc_behaviours(num, seed, outdir, cfg):
    md = os.path.join(outdir, "tlcmeta"); os.makedirs(md, exist_ok=True)
    env = dict(os.environ, JAVA_TOOL_OPTIONS="-Xss1g -Xmx4g -DTLA-Library=%s" % SPEC)
    cmd = ["timeout", "900", TLCW, "-workers", "1", "-metadir", md, "-cleanup", "-noGenerateSpecTE", "-config", cfg,
           "MC_Tasks.tla", "-simulate", "num=%d" % num, "-depth", "200", "-seed", str(seed)]
    r = subprocess.run(cmd, cwd=os.path.join(SPEC, "mc"), env=env, stdout=subprocess.PIPE, stderr=subprocess.STDOUT, text=True)
    shutil.rmtree(md, ignore_errors=True)
    out, seen = [], set()
    for line in r.stdout.splitlines():
        if line.startswith('<<"REPLAY"'):
            js = json.loads('"' + re.match(r'<<"REPLAY", "(.*)">>$', line).group(1) + '"')
            b = json.loads(js)
            b["hist"] = admissible_prefix(b["hist"])
            key = json.dumps(b["hist"])
            if b["hist"] and key not in seen:
                seen.add(key); out.append(b)
    if not out:
        print(r.stdout[-3000:]); raise SystemExit(2)
    m = re.search(r"(\d+) states checked", r.stdout)
    mv = re.search(r"Invariant (\w+) is violated", r.stdout)
    return out, int(m.group(1)) if m else 0, (mv.group(1) if mv else ("error" if "Error:" in r.stdout else False))


def tag_of(x):
    return (x + 1) // 2 if x % 2 == 1 else 100 + x


def sid_of_tag(tag):
    return tag - 100 if tag >= 100 else 2 * tag - 1


def norm_ev(e):
    """a model event -> comparable tuple"""
    if e["t"] == "out":
        ty = e["call"]
        if ty == "DATA": return ("out", "DATA", e["sid"], e["v"] * U, e["res"] == "es")
        if ty == "HEADERS": return ("out", "HEADERS", e["sid"], 0, e["res"] == "es")
        if ty == "RST_STREAM": return ("out", "RST_STREAM", e["sid"], e["v"], False)
        if ty == "WINDOW_UPDATE": return ("out", "WINDOW_UPDATE", e["sid"], e["v"] * U, False)
        return ("out", ty, e["sid"], e["v"], False)
    kind, call, res, v, sid = e["task"][0], e["call"], e["res"], e["v"], e["sid"]
    x = e["task"][1] if kind != "SR" else sid
    if call == "send_request": return ("api", "W", sid, call, res, 0)
    if call in ("reserve", "send_data", "release"): return ("api", kind, x, call, res, v * U)
    if call == "poll_capacity": return ("api", kind, x, call, res, v * U)
    if call == "poll_data": return ("api", kind, x, call, res, v * U)
    if call == "poll_reset": return ("api", kind, x, call, res, v if res == "ok" else 0)
    if call == "send_reset": return ("api", kind, x, call, res, v)
    if call == "poll_push": return ("api", kind, x, call, res, v if res == "some" else 0)
    if call == "poll_ready": return ("api", "SR", 0 if res != "pending" else sid, call, res, 0)
    return ("api", kind, x, call, res, 0)


KIND = {"cw": "W", "cr": "R", "cb": "R", "cp": "P", "cy": "SR", "sw": "W", "sb": "R"}


def task_of(name):
    """simulator task name -> (kind, model stream id)"""
    m = re.match(r"(cw|cr|cb|cp|cy|sw|sb)(\d+)$", name)
    if not m: return None
    n = int(m.group(2))
    return KIND[m.group(1)], (n if m.group(1) in ("sw", "sb") else sid_of_tag(n))


def norm_sim(e, ep="c"):
    """a simulator event -> comparable tuple (None: not compared)"""
    if e["t"] == "out":
        if e["ep"] != ep: return None
        f = e["f"]
        if f["ty"] == "DATA": return ("out", "DATA", f["sid"], f["dlen"], f["es"])
        if f["ty"] == "HEADERS": return ("out", "HEADERS", f["sid"], 0, f["es"])
        if f["ty"] == "RST_STREAM": return ("out", "RST_STREAM", f["sid"], f["cl"], False)
        if f["ty"] == "WINDOW_UPDATE": return ("out", "WINDOW_UPDATE", f["sid"], f["inc"], False)
        return None                                       # SETTINGS / ACK / GOAWAY at the very end
    if e["t"] != "api" or e.get("census") or e["ep"] != ep: return None
    if e["task"] == "conn_s" and e["call"] == "accept": return ("api", "W", e["sid"], "accept", "some", 0)
    tk = task_of(e["task"])
    if tk is None: return None
    (kind, x), call, res = tk, e["call"], e["res"]
    if call == "send_request": return ("api", "W", x, call, res, 0)
    if call == "reserve": return ("api", kind, x, call, res, e["n"])
    if call == "send_data": return ("api", kind, x, call, res, e["n"])
    if call == "release": return ("api", kind, x, call, res, e["n"])
    if call == "poll_capacity": return ("api", kind, x, call, res, e["v"])
    if call == "poll_data": return ("api", kind, x, call, res, e["n"])
    if call == "poll_reset": return ("api", kind, x, call, res, e["cl"] if res == "ok" else 0)
    if call == "send_reset": return ("api", kind, x, call, res, e["cl"])
    if call == "poll_push": return ("api", kind, x, call, res, e["psid"] if res == "some" else 0)
    if call == "poll_ready": return ("api", "SR", 0 if res != "pending" else x, call, res, 0)
    if call == "drop_resp": return ("api", "R", x, "drop_recv", "ok", 0)
    if call in ("poll_response", "poll_trailers", "drop_send", "drop_recv", "drop_push", "send_response"): return ("api", kind, x, call, res, 0)
    return None                                           # hold_push, capacity, ...


def admissible_prefix(hist):
    """TLC's simulator also evaluates the printing invariant on successor states it does not follow, whose LAST step need not satisfy
    the action constraints of the export configuration: keep the longest prefix that does (checked here from the recorded flags)"""
    for i, h in enumerate(hist):
        a, prev = h["a"], hist[i - 1] if i else None
        if prev is None or h["forced"]: continue
        if prev["act"]:
            ok = a[0] in ("conn_recv", "conn_pop")
        elif not prev["q"]:
            ok = a[0] in SYS
        else:
            ok = True
        if not ok:
            hist = hist[:i]
            break
    while hist and (hist[-1]["todo"] or not hist[-1]["q"]):
        hist = hist[:-1]
    return hist


def to_scenario(b, name):
    hist = b["hist"]
    env_idx = [i for i, h in enumerate(hist) if h["a"][0] not in SYS]
    # groups: an env step + the system steps that follow it; a drop right after a failed poll_response belongs to that group
    groups = []
    for i, h in enumerate(hist):
        a = h["a"]
        if a[0] in SYS or h["forced"]:
            if groups:
                groups[-1]["steps"].append(h)
            continue                                    # (system steps before the first env step: nothing happens)
        groups.append({"a": a, "steps": [h]})
    for k, g in enumerate(groups):
        g["q"] = k + 1 + OFF
    last = len(groups) + OFF + 3
    hold = {"op": "wait_q", "k": last}
    server = b.get("server", False)
    order = []                                   # server: accept order
    reqs, peer, env = {}, [{"k": "wait_q"}, {"k": "auto"}], []
    rscript, rstart, rdrop_head, rpush = {}, {}, {}, {}
    for k, g in enumerate(groups):
        a, q = g["a"], g["q"]
        ps = {"k": "auto"}
        if a[0] == "accept":
            reqs[a[1]] = {"ops": [], "read": {}}; order.append(a[1])
            env.append({"at": "q", "n": q, "op": {"k": "conn", "ep": 1, "op": "accept_allow", "n": 1}})
        elif a[0] == "send_response": reqs[a[1]]["ops"] += [{"op": "wait_q", "k": q}, {"op": "response", "status": 200, "hid": 0, "eos": a[2]}]
        elif a[0] == "request":
            x, eos, keep = a[1], a[2], a[3]
            rp = {"tag": tag_of(x), "method": "POST", "hid": 0, "eos": eos, "ready": False, "start_q": q, "ops": [], "read": {}}
            if keep:
                nxt = [gg["q"] for gg in groups[k + 1:] if gg["a"][0] == "call" and gg["a"][2] == "poll_ready"]
                rp["ready_after"] = nxt[0] if nxt else last
            reqs[x] = rp
        elif a[0] == "call":
            t, c, x = a[1], a[2], a[3]
            if t[0] == "W": reqs[x]["ops"] += [{"op": "wait_q", "k": q}, {"op": {"poll_capacity": "poll_cap", "poll_reset": "poll_reset"}[c]}]
            elif t[0] == "R":
                if c == "poll_response": rstart.setdefault(x, q)
                else: rscript.setdefault(x, []).extend([{"op": "wait_q", "k": q}, {"op": {"poll_data": "poll_data_wait", "poll_trailers": "poll_trailers"}[c]}])
            elif t[0] == "P": pass                    # the push poller starts with hold_push
            elif t[0] == "SR": pass                   # placed by ready_after
        elif a[0] == "reserve": reqs[a[1]]["ops"] += [{"op": "wait_q", "k": q}, {"op": "reserve", "n": a[2] * U}]
        elif a[0] == "send_data": reqs[a[1]]["ops"] += [{"op": "wait_q", "k": q}, {"op": "data", "n": a[2] * U, "eos": a[3]}]
        elif a[0] == "send_reset": reqs[a[1]]["ops"] += [{"op": "wait_q", "k": q}, {"op": "reset", "code": 8}]
        elif a[0] == "release": rscript.setdefault(a[1], []).extend([{"op": "wait_q", "k": q}, {"op": "release", "n": a[2] * U}])
        elif a[0] == "drop":
            x, h = a[1], a[2]
            if h == "send": reqs[x]["ops"] += [{"op": "wait_q", "k": q}, {"op": "drop"}]
            elif h == "recv":
                if x in rstart or x % 2 == 0 or server: rscript.setdefault(x, []).extend([{"op": "wait_q", "k": q}, {"op": "drop"}])
                else: rstart[x] = q; rdrop_head[x] = True
            elif h == "push": pass
        elif a[0] == "hold_push": rstart.setdefault(a[1], q); rpush[a[1]] = True
        elif a[0] == "drop_sr": env.append({"at": "q", "n": q, "op": {"k": "drop_sr"}})
        elif a[0] == "peer":
            f = a[1]; ty, x, n = f["ty"], f["sid"], f["n"]
            hdr = lambda sid, eos, status, fields: {"k": "headers", "sid": sid, "hid": 0, "fields": fields, "eos": eos, "frag": 0, "huff": False,
                                                    "status": status, "req": False, "method": "", "tag": 0}
            if ty == "WU": ps = {"k": "wu", "sid": x, "inc": n * U}
            elif ty == "SET_IWS": ps = {"k": "settings", "vals": [[4, n * U]]}
            elif ty == "SET_MAXC": ps = {"k": "settings", "vals": [[3, n]]}
            elif ty in ("HEADERS", "PHEADERS"): ps = hdr(x, f["eos"], 200, [])
            elif ty == "TRAILERS": ps = hdr(x, True, 0, [["x-trailer", "t"]])
            elif ty == "DATA": ps = {"k": "data", "sid": x, "n": n * U, "eos": f["eos"], "pad": None}
            elif ty == "RST": ps = {"k": "rst", "sid": x, "code": f["code"]}
            elif ty == "PP": ps = {"k": "push_promise", "sid": x, "promised": n, "hid": 0, "fields": [], "frag": 0, "tag": tag_of(n)}
            elif ty == "GOAWAY": ps = {"k": "goaway", "last": n, "code": f["code"], "dbg": 0}
            elif ty == "REQ": ps = {"k": "headers", "sid": x, "hid": 0, "fields": [], "eos": f["eos"], "frag": 0, "huff": False, "status": 0, "req": True,
                                    "method": "POST", "tag": x}
            elif ty == "EOF": env.append({"at": "q", "n": q, "op": {"k": "fault", "ep": 1 if server else 0, "kind": "eof"}})
            else: raise SystemExit("unknown frame %r" % (f,))
        else:
            raise SystemExit("unknown action %r" % (a,))
        peer += [{"k": "wait_q"}, ps]
    for _ in range(4):
        peer += [{"k": "wait_q"}, {"k": "auto"}]
    rl = []
    for x in ([] if server else sorted(reqs)):
        rp = reqs[x]
        rp["ops"].append(hold)
        rd = {"start_q": rstart.get(x, last), "script": rscript.get(x, []) + [hold]}
        if rdrop_head.get(x): rd["drop_head"] = True
        if rpush.get(x): rd["push"] = True
        rp["read"] = rd
        rl.append(rp)
    if server:
        srv = [{"ops": reqs[x]["ops"] + [hold], "read": {"script": rscript.get(x, []) + [hold]}} for x in order]
        scn = {"name": name, "mode": "Bs",
               "scfg": {"max_frame": 65536, "iws": b["recvwin"] * U, "conn_win": b["recvwin"] * U, "max_conc": 10},
               "srv_accept_budget": 0,
               "peer_cfg": {"settings": [[4, b["initwin"] * U], [5, 65536]], "ack_settings": True, "ack_ping": True, "grant": "none", "respond": False},
               "srv": srv, "peer": peer, "env": env, "sched": {"seed": 1, "then": "fifo"}, "coop": False}
    else:
      scn = {"name": name, "mode": "Bc",
           "ccfg": {"max_frame": 65536, "iws": b["recvwin"] * U, "conn_win": b["recvwin"] * U, "enable_push": True},
           "peer_cfg": {"settings": [[3, b["maxsend"]], [4, b["initwin"] * U], [5, 65536]], "ack_settings": True, "ack_ping": True,
                        "grant": "none", "respond": False},
           "reqs": rl, "peer": peer, "env": env, "sched": {"seed": 1, "then": "fifo"}, "coop": False}
    exp = []
    for g in groups:
        evs = [norm_ev(e) for h in g["steps"] for e in h["ev"]]
        lastp = g["steps"][-1]
        parked = sorted(((p["task"][0], p["sid"] if p["task"][0] == "SR" else p["task"][1], p["call"]) for p in lastp["parked"]))
        exp.append({"q": g["q"], "a": g["a"], "ev": sorted(evs, key=repr), "parked": parked, "done": lastp["done"],
                    "quiescent": lastp["q"], "nsteps": len(g["steps"])})
    return scn, exp


def compare(exp, events, ep="c"):
    drift, per_q, cur, panics = [], {}, [], []
    for e in events:
        t = e["t"]
        if t == "q":
            per_q[e["n"]] = {"ev": cur, "out": e["out"], "conn": e["conn"][ep]}
            cur = []
        elif t in ("panic", "drop_panic"):
            # (h2's Store::drop debug assertion at teardown = known finding F9 / F19 of known_findings.json: no waker involved)
            if not (t == "drop_panic" and "self.slab.is_empty()" in e.get("msg", "")):
                panics.append(e.get("msg", "")[:200])
            else:
                # the assertion fired inside the drop of the store's last handle, before the task could log its drop event
                tk = task_of(e.get("at", ""))
                if tk: cur.append(("api", tk[0], tk[1], {"W": "drop_send", "R": "drop_recv", "P": "drop_push"}.get(tk[0], "drop"), "ok", 0))
        else:
            n = norm_sim(e, ep)
            # (server: the response writer logs drop_send for the SendStream and again for the SendResponse: one drop in the model)
            if n is not None and not (n[3:4] == ("drop_send",) and ep == "s" and n in cur): cur.append(n)
    for x in exp:
        step = {"q": x["q"], "a": x["a"]}
        got = per_q.get(x["q"] + 1)            # the effects of what happened at quiescence q are complete at quiescence q + 1
        if got is None:
            drift.append(dict(step, what="no quiescence %d reached" % (x["q"] + 1))); break
        gev = sorted(got["ev"], key=repr)
        want = [tuple(v) for v in x["ev"]]
        if gev != want:
            only_code = [v for v in gev if v not in want]; only_model = [v for v in want if v not in gev]
            drift.append(dict(step, what="calls / frames: only code %s only model %s" % (only_code, only_model)))
        gp = []
        for o in got["out"]:
            tk = task_of(o["task"])
            if tk and o["op"] in PARKING:
                gp.append((tk[0], tk[1], o["op"]))
            elif o["ep"] == ep:
                gp.append(("?", o["task"], o["op"]))
        gp = sorted(gp)
        wp = [tuple(v) for v in x["parked"]]
        if gp != wp:
            lost = [v for v in gp if v not in wp]; extra = [v for v in wp if v not in gp]
            drift.append(dict(step, what="parked tasks: code %s model %s%s" % (gp, wp, (" - STILL PARKED IN THE CODE, woken in the model: %s" % lost) if lost else "")))
        if (got["conn"] == "done") != x["done"]:
            drift.append(dict(step, what="connection task: code %s model done=%s" % (got["conn"], x["done"])))
        if len(drift) >= 4: break
    for m in panics:
        drift.append({"q": 0, "a": ["*"], "what": "panic in the replay: " + m})
    return drift


def features(exps):
    ft = {}
    def hit(k, n=1): ft[k] = ft.get(k, 0) + n
    for exp in exps.values():
        for x in exp:
            hit("parked_tasks_compared", len(x["parked"]))
            for p in x["parked"]: hit("parked_" + p[2])
            for e in x["ev"]:
                if e[0] == "api":
                    hit("api_%s_%s" % (e[3], e[4]))
                else:
                    hit("frame_" + e[1])
            if x["nsteps"] > 1: hit("groups_with_system_steps")
            if x["done"]: hit("steps_after_connection_end")
    return ft


def main():
    num, seed, outdir = int(sys.argv[1]), int(sys.argv[2]), sys.argv[3]
    cfgs = sys.argv[sys.argv.index("--cfg") + 1].split(",") if "--cfg" in sys.argv else DEFAULT_CFGS
    corrupt = "--corrupt" in sys.argv
    global SPEC
    if "--spec" in sys.argv:
        SPEC = os.path.abspath(sys.argv[sys.argv.index("--spec") + 1])
    cfgs = [c for c in cfgs if os.path.exists(os.path.join(SPEC, "mc", c))]
    os.makedirs(outdir, exist_ok=True)
    behs, states, mv = [], 0, False
    for i, c in enumerate(cfgs):
        b1, s1, m1 = tlc_behaviours(max(1, num // len(cfgs)), seed + i, outdir, c)
        for b in b1: b["cfg"] = c
        behs += b1; states += s1; mv = mv or m1
    scn_path = os.path.join(outdir, "conform_tasks.scn"); exps, scns, servers = {}, [], set()
    for i, b in enumerate(behs):
        name = "conformTasks-%d-%d" % (seed, i)
        scn, exp = to_scenario(b, name); exps[name] = exp; scns.append(scn)
        if b.get("server"): servers.add(name)
        if corrupt:      # binding experiment: the model "wakes" one task that really stays parked (its last parked entry is removed)
            for x in reversed(exp):
                if x["parked"]:
                    x["parked"] = x["parked"][1:]; break
    with open(scn_path, "w") as f:
        for scn in scns: f.write(json.dumps(scn) + "\n")
    parts, procs = [], []
    for j in range(NPAR):
        mine = scns[j::NPAR]
        if not mine: continue
        pj = os.path.join(outdir, "conform_tasks.part%d.scn" % j); tj = os.path.join(outdir, "conform_tasks.part%d.ndjson" % j)
        with open(pj, "w") as f:
            for scn in mine: f.write(json.dumps(scn) + "\n")
        procs.append((subprocess.Popen([SIM, "--scenario", pj, "--out", tj, "--quiet"], stdout=subprocess.PIPE, stderr=subprocess.STDOUT, text=True), pj, tj))
    tr = os.path.join(outdir, "conform_tasks.ndjson")
    runs, name = {}, None
    with open(tr, "w") as allf:
        for pr, pj, tj in procs:
            so, _ = pr.communicate()
            if pr.returncode != 0:
                print(so[-2000:]); raise SystemExit(2)
            for line in open(tj):
                allf.write(line)
                e = json.loads(line)
                if e["t"] == "cfg":
                    name = e["name"]; runs[name] = []
                else:
                    runs[name].append(e)
            os.remove(pj); os.remove(tj)
    drifts, conformant, steps = [], 0, 0
    for name, exp in exps.items():
        d = compare(exp, runs.get(name, []), "s" if name in servers else "c"); steps += len(exp)
        if d: drifts.append({"run": name, "drift": d[:6]})
        else: conformant += 1
    nact = {}
    for b in behs:
        for h in b["hist"]:
            k = h["a"][0] + (":" + h["a"][2] if h["a"][0] in ("call", "repoll") else (":" + h["a"][1]["ty"] if h["a"][0] == "peer" else ""))
            nact[k] = nact.get(k, 0) + 1
    res = {"behaviours": len(behs), "conformant": conformant, "steps_compared": steps, "tlc_states": states, "model_violation": mv,
           "drift": drifts[:20], "trace": tr, "scenarios": scn_path, "sample": behs[0]["hist"][:3] if behs else None,
           "actions": nact, "features": features(exps), "cfg": ",".join(cfgs), "corrupt": corrupt, "sim": SIM}
    json.dump(res, open(os.path.join(outdir, "conform_tasks.json"), "w"), indent=1)
    print("conform_tasks: %d behaviours, %d conformant, %d steps compared, %d with drift%s" %
          (len(behs), conformant, steps, len(drifts), (", MODEL VIOLATION %s" % mv) if mv else ""))
    for d in drifts[:5]:
        print("DRIFT:", json.dumps(d)[:1200])


if __name__ == "__main__":
    main()
