#!/usr/bin/env python3
"""Spec -> implementation conformance for the receive-side implementation model (H2Recv.tla).
TLC (simulation, seeded) generates behaviours of MC_Recv under drained schedules with a LEGAL peer; each becomes a
scenario for the simulator (real h2 server, scripted client peer, one model step per quiescence; the model runs on real octet
counts: stream window 1530, connection window 65 535, padding of 1 or 255 octets). After every step
the guarded statistics snapshot and the WINDOW_UPDATE frames written are compared with the model.  Mismatch = DRIFT.
usage: conform_recv.py <num> <seed> <outdir>  -> <outdir>/conform_recv.json"""
import sys, os, json, subprocess, re, shutil
TLCW = os.path.join(os.path.dirname(os.path.dirname(os.path.abspath(__file__))), "bin", "tlcw")  # tlc with a large main-thread stack
VERIF = os.path.dirname(os.path.dirname(os.path.abspath(__file__)))
SPEC = os.path.join(VERIF, "spec")
SIM = os.path.join(VERIF, "harness", "target", "debug", "sim")
U = 1   # the model runs on real octet counts (integer halving in the threshold does not commute with scaling)


def tlc_behaviours(num, seed, outdir):
    md = os.path.join(outdir, "tlcmeta"); os.makedirs(md, exist_ok=True)
    env = dict(os.environ, JAVA_TOOL_OPTIONS="-Xss1g -Xmx4g -DTLA-Library=%s" % SPEC)
    cmd = ["timeout", "600", TLCW, "-workers", "1", "-metadir", md, "-cleanup", "-noGenerateSpecTE", "-config", "MC_Recv_export.cfg",
           "MC_Recv.tla", "-simulate", "num=%d" % num, "-depth", "70", "-seed", str(seed)]
    r = subprocess.run(cmd, cwd=os.path.join(SPEC, "mc"), env=env, stdout=subprocess.PIPE, stderr=subprocess.STDOUT, text=True)
    shutil.rmtree(md, ignore_errors=True)
    out, seen = [], set()
    for line in r.stdout.splitlines():
        if line.startswith('<<"REPLAY"'):
            js = json.loads('"' + re.match(r'<<"REPLAY", "(.*)">>$', line).group(1) + '"')
            if js not in seen:
                seen.add(js); out.append(json.loads(js))
    if not out:
        print(r.stdout[-3000:]); raise SystemExit(2)
    m = re.search(r"(\d+) states checked", r.stdout)
    return out, int(m.group(1)) if m else 0, "is violated" in r.stdout


def to_scenario(b, name):
    rd = {1: [], 3: []}; wr = {1: [], 3: []}
    peer = [{"k": "settings_ack"},
            {"k": "headers", "sid": 1, "hid": 0, "fields": [], "eos": False, "frag": 0, "huff": False, "status": 0, "req": True, "method": "POST", "tag": 1},
            {"k": "headers", "sid": 3, "hid": 0, "fields": [], "eos": False, "frag": 0, "huff": False, "status": 0, "req": True, "method": "POST", "tag": 3}]
    env, exp, k, cur = [], [], 0, None
    for h in b["hist"]:
        a = h["a"]
        if a[0] in ("conn_wu", "stream_wu"):
            if cur is not None:
                cur["p"] = h["p"]; cur["wu"] += [(e["f"]["sid"], e["f"]["inc"] * U) for e in h["ev"] if e.get("t") == "out" and e["f"]["ty"] == "WINDOW_UPDATE"]
            continue
        k += 1
        cur = {"k": k, "a": a, "p": h["p"], "wu": []}; exp.append(cur)
        ps = {"k": "auto"}
        if a[0] == "data":
            pad = None if a[3] == 0 else a[3] - 1
            ps = {"k": "data", "sid": a[1], "n": a[2] * U, "eos": a[4], "pad": pad}
        elif a[0] == "poll_data":
            rd[a[1]] += [{"op": "wait_q", "k": k}, {"op": "poll_data"}]
        elif a[0] == "release":
            rd[a[1]] += [{"op": "wait_q", "k": k}, {"op": "release", "n": a[2] * U}]
        elif a[0] == "drop_recv":
            rd[a[1]] += [{"op": "wait_q", "k": k}, {"op": "drop"}]
        elif a[0] == "send_reset":
            wr[a[1]] += [{"op": "wait_q", "k": k}, {"op": "reset", "code": 8}]
        elif a[0] == "recv_rst":
            ps = {"k": "rst", "sid": a[1], "code": 8}
        elif a[0] == "target":
            env.append({"at": "q", "n": k, "op": {"k": "conn", "ep": 1, "op": "target_window", "n": a[1] * U}})
        elif a[0] == "set_initial_window":
            env.append({"at": "q", "n": k, "op": {"k": "conn", "ep": 1, "op": "initial_window", "n": a[1] * U}})
        elif a[0] == "settings_ack":
            ps = {"k": "settings_ack"}
        peer += [{"k": "wait_q"}, ps]
    last = k + 2
    peer += [{"k": "wait_q"}, {"k": "auto"}, {"k": "wait_q"}, {"k": "auto"}]
    srv = []
    for s in (1, 3):
        srv.append({"ops": wr[s] + [{"op": "wait_q", "k": last}], "read": {"script": rd[s] + [{"op": "wait_q", "k": last}]}})
    scn = {"name": name, "mode": "Bs", "scfg": {"iws": b["iw"] * U, "reset_max": 10, "reset_dur_ms": 600000},
           "peer_cfg": {"settings": [], "ack_settings": False, "ack_ping": True, "grant": "none", "respond": False},
           "srv": srv, "peer": peer, "env": env, "sched": {"seed": 1, "then": "fifo"}, "coop": False}
    return scn, exp


def compare(exp, events):
    drift, nq, wus, per_q = [], 0, [], {}
    for e in events:
        t = e["t"]
        if t == "out" and e["f"]["ty"] == "WINDOW_UPDATE":
            wus.append((e["f"]["sid"], e["f"]["inc"]))
        elif t == "stats" and e["ep"] == "s" and "at" not in e:
            per_q[nq + 1] = {"stats": e["s"], "wu": wus}
        elif t == "q":
            nq = e["n"]; wus = []
    for x in exp:
        got = per_q.get(x["k"] + 1)
        if got is None:
            drift.append({"step": x["k"], "a": x["a"], "what": "no quiescence reached"}); continue
        st = {s["id"]: s for s in got["stats"]["streams"]}
        p = x["p"]
        for sid in ("1", "3"):
            s = st.get(int(sid))
            if s is None:
                continue
            for key, want in (("recv_window", p["rwin"][sid] * U), ("recv_available", p["ravail"][sid] * U), ("in_flight_recv", p["infl"][sid] * U)):
                if s[key] != want:
                    drift.append({"step": x["k"], "a": x["a"], "what": "stream %s %s: code %s model %s" % (sid, key, s[key], want)})
        for key, want in (("recv_window", p["cwin"] * U), ("recv_available", p["cavail"] * U), ("in_flight_data", p["cinfl"] * U)):
            if got["stats"][key] != want:
                drift.append({"step": x["k"], "a": x["a"], "what": "connection %s: code %s model %s" % (key, got["stats"][key], want)})
        if sorted(x["wu"]) != sorted(got["wu"]):
            drift.append({"step": x["k"], "a": x["a"], "what": "window updates: code %s model %s" % (sorted(got["wu"]), sorted(x["wu"]))})
    return drift


def main():
    num, seed, outdir = int(sys.argv[1]), int(sys.argv[2]), sys.argv[3]
    os.makedirs(outdir, exist_ok=True)
    behs, states, mv = tlc_behaviours(num, seed, outdir)
    scn_path = os.path.join(outdir, "conform_recv.scn"); exps = {}
    with open(scn_path, "w") as f:
        for i, b in enumerate(behs):
            name = "conformRecv-%d-%d" % (seed, i)
            scn, exp = to_scenario(b, name); exps[name] = exp
            f.write(json.dumps(scn) + "\n")
    tr = os.path.join(outdir, "conform_recv.ndjson")
    r = subprocess.run([SIM, "--scenario", scn_path, "--out", tr, "--quiet"], stdout=subprocess.PIPE, stderr=subprocess.STDOUT, text=True)
    if r.returncode != 0:
        print(r.stdout[-2000:]); raise SystemExit(2)
    runs, name = {}, None
    for line in open(tr):
        e = json.loads(line)
        if e["t"] == "cfg":
            name = e["name"]; runs[name] = []
        else:
            runs[name].append(e)
    drifts, conformant, steps = [], 0, 0
    for name, exp in exps.items():
        d = compare(exp, runs.get(name, [])); steps += len(exp)
        if d: drifts.append({"run": name, "drift": d[:6]})
        else: conformant += 1
    res = {"behaviours": len(behs), "conformant": conformant, "steps_compared": steps, "tlc_states": states, "model_violation": mv,
           "drift": drifts[:20], "trace": tr, "scenarios": scn_path, "sample": behs[0]["hist"][:3] if behs else None}
    json.dump(res, open(os.path.join(outdir, "conform_recv.json"), "w"), indent=1)
    print("conform_recv: %d behaviours, %d conformant, %d steps compared, %d with drift" % (len(behs), conformant, steps, len(drifts)))
    for d in drifts[:5]:
        print("DRIFT:", json.dumps(d)[:700])


if __name__ == "__main__":
    main()
