#!/usr/bin/env python3
"""Spec -> implementation conformance for the connection-control implementation model (H2Conn.tla).
TLC (simulation, seeded) generates behaviours of MC_Conn under the schedule of the simulator (one environment step - a peer
frame, an application call, the socket blocking / unblocking - per quiescence, then the connection task and the user-ping task
run until nothing is runnable); each becomes a scenario for the simulator: mode Bs = REAL h2 server + scripted raw-frame client
(role "server"), mode Bc = REAL h2 client + scripted server (role "client").  Per quiescence the driver compares, in order, the
frames the real endpoint wrote (SETTINGS / SETTINGS ACK / PING + PING ACK payloads / GOAWAY last id + code / HEADERS, DATA of
the model's streams; anything else is unexpected), the API results (conn_poll ok / err + code + remote, poll_pong, send_ping,
set_initial_window ok / err), whether the transport was shut down, whether the connection future completed, and the statistics
snapshot (num streams, last_processed_id, Recv.max_stream_id, Send.max_stream_id, the two initial window sizes the SETTINGS
drive, conn_error).  Mismatch = DRIFT (diagnostic).
usage: conform_conn.py <num behaviours> <seed> <outdir> [--cfg MC_Conn_export.cfg[,..]] [--corrupt] [--spec <dir>] [--keep]
   -> <outdir>/conform_conn.json   (--corrupt: binding experiment, falsifies one expected value per behaviour;
                                    --spec: use a (mutated) copy of /verif/spec)
env H2SIM: path of the simulator (default /verif/harness/target/debug/sim)."""
import sys, os, json, subprocess, re, shutil

VERIF = os.path.dirname(os.path.dirname(os.path.abspath(__file__)))
TLCW = os.path.join(VERIF, "bin", "tlcw")
SPEC = os.path.join(VERIF, "spec")
SIM = os.environ.get("H2SIM") or os.path.join(VERIF, "harness", "target", "debug", "sim")
NPAR = 8
FILL_BYTES = 5000          # >= CHAIN_THRESHOLD_WITHOUT_VECTORED_IO: FramedWrite keeps the frame as `next`, has_capacity() is false
MAXI = 2147483647
SHUT, USER, STRAY = 0x0b7ba2f08b9bfe54, 0x3b7cdb7a0b8716b4, 0x1122334455667788
PL = {100: SHUT, 101: USER, 102: STRAY}                 # model payload -> wire payload (others: the number itself)
PLR = {"%016x" % v: k for k, v in PL.items()}
IWS = lambda v: 100000 * v                               # model initial-window value -> octets (large: never limits the fill)
CONN = ("poll", "poll_atomic", "poll_go_away", "send_pending_pong", "send_pending_ping", "settings_poll_send", "recv_frame",
        "poll_complete", "handle_poll2_result", "codec_shutdown", "take_error", "poll_pong", "drop_ref")


def tlc_behaviours(num, seed, outdir, cfg):
    md = os.path.join(outdir, "tlcmeta"); os.makedirs(md, exist_ok=True)
    env = dict(os.environ, JAVA_TOOL_OPTIONS="-Xss1g -Xmx4g -DTLA-Library=%s" % SPEC)
    cmd = ["timeout", "900", TLCW, "-workers", "1", "-metadir", md, "-cleanup", "-noGenerateSpecTE", "-config", cfg,
           "MC_Conn.tla", "-simulate", "num=%d" % num, "-depth", "600", "-seed", str(seed)]
    r = subprocess.run(cmd, cwd=os.path.join(SPEC, "mc"), env=env, stdout=subprocess.PIPE, stderr=subprocess.STDOUT, text=True)
    shutil.rmtree(md, ignore_errors=True)
    out, seen = [], set()
    for line in r.stdout.splitlines():
        if line.startswith('<<"REPLAY"'):
            js = json.loads('"' + re.match(r'<<"REPLAY", "(.*)">>$', line).group(1) + '"')
            if js not in seen:
                seen.add(js); out.append(json.loads(js))
    if not out:
        print(r.stdout[-3000:]); raise SystemExit(2)
    m = re.search(r"(\d+) states checked", r.stdout)
    mv = re.search(r"Invariant (\w+) is violated", r.stdout)
    return out, int(m.group(1)) if m else 0, (mv.group(1) if mv else ("error" if "Error:" in r.stdout else False))


def ser(ty, fl, sid, payload):
    return (len(payload).to_bytes(3, "big") + bytes([ty, fl]) + sid.to_bytes(4, "big") + payload).hex()


def lit(fields):
    """HPACK literal header fields without indexing, new names, no Huffman"""
    b = b""
    for n, v in fields:
        b += bytes([0, len(n)]) + n.encode() + bytes([len(v)]) + v.encode()
    return b


def raw_of(ps):
    """the bytes of one scripted peer step (for two frames delivered in one read)"""
    k = ps["k"]
    if k == "settings": return ser(4, 0, 0, b"".join(i.to_bytes(2, "big") + v.to_bytes(4, "big") for i, v in ps["vals"]))
    if k == "settings_ack": return ser(4, 1, 0, b"")
    if k == "ping": return ser(6, 1 if ps["ack"] else 0, 0, ps["pl"].to_bytes(8, "big"))
    if k == "goaway": return ser(7, 0, 0, ps["last"].to_bytes(4, "big") + ps["code"].to_bytes(4, "big"))
    if k == "rst": return ser(3, 0, ps["sid"], ps["code"].to_bytes(4, "big"))
    if k == "headers":
        if ps["req"]:
            block = lit([(":method", "POST"), (":scheme", "https"), (":authority", "sim.test"), (":path", "/r/%d" % ps["tag"]), ("x-tag", str(ps["tag"]))])
        else:
            block = lit([(":status", str(ps["status"]))])
        return ser(1, 4 | (1 if ps["eos"] else 0), ps["sid"], block)
    if k == "raw": return ps["hex"]
    raise SystemExit("cannot serialise %r" % (ps,))


FRAME_STEPS = ("settings", "settings_ack", "ping", "ping_ack", "goaway", "headers", "rst", "response")


def frame_of(f):
    """model frame -> comparable tuple"""
    ty, a, b = f["ty"], f["a"], f["b"]
    if ty == "SETTINGS": return ("SETTINGS", IWS(a) if a else -1, 0)
    if ty == "SETTINGS_ACK": return ("SETTINGS_ACK", 0, 0)
    if ty in ("PING", "PING_ACK"): return (ty, a, 0)
    if ty == "GOAWAY": return ("GOAWAY", a, b)
    return (ty, a, b)            # HEADERS / DATA: stream id, END_STREAM


def to_scenario(b, name, role):
    """one environment step of the model per quiescence: step g happens at quiescence g, its effects are visible at quiescence g + 1"""
    hdr = lambda sid: {"k": "headers", "sid": sid, "hid": 0, "fields": [], "eos": True, "frag": 0, "huff": False, "status": 0,
                       "req": True, "method": "POST", "tag": sid}
    peer, env, exp, reqs = [], [], [], []
    E = 1 if role == "server" else 0                      # index of the real endpoint
    cur = {"k": 0, "a": ["start"], "fr": [], "api": [], "p": None, "shut": False}; exp.append(cur)
    g, shut = 0, False
    prog, opened, answered = {}, [], set()
    lp = 0
    prev_conn = True
    for h in b["hist"]:
        a = h["a"]
        burst = a[0] in FRAME_STEPS and not prev_conn and exp[-1]["a"][0] in FRAME_STEPS     # a second frame right behind the first one
        prev_conn = a[0] in CONN
        if h["p"]["last_processed_id"] > lp:                 # a stream was opened (recv_headers): it will be accepted in this order
            lp = h["p"]["last_processed_id"]; opened.append(lp); prog.setdefault(lp, [])
        if a[0] not in CONN:
            if not burst:
                g += 1
                cur = {"k": g, "a": a, "fr": [], "api": [], "p": None, "shut": False}; exp.append(cur)
            else:
                cur["a"] = cur["a"] + ["+"] + a
            ps = {"k": "auto"}
            if a[0] == "settings": ps = {"k": "settings", "vals": [[4, IWS(a[1])]] if a[1] else [[3, 100]]}
            elif a[0] == "settings_ack": ps = {"k": "settings_ack"}
            elif a[0] == "ping": ps = {"k": "ping", "ack": False, "pl": a[1]}
            elif a[0] == "ping_ack": ps = {"k": "ping", "ack": True, "pl": PL[a[1]]}
            elif a[0] == "goaway": ps = {"k": "goaway", "last": a[1], "code": a[2], "dbg": 0}
            elif a[0] == "headers": ps = hdr(a[1])
            elif a[0] == "rst": ps = {"k": "rst", "sid": a[1], "code": 8}
            elif a[0] == "eof": env.append({"at": "q", "n": g, "op": {"k": "fault", "ep": E, "kind": "eof"}})
            elif a[0] == "block": env.append({"at": "q", "n": g, "op": {"k": "budget", "ep": E, "n": 0}})
            elif a[0] == "unblock": env.append({"at": "q", "n": g, "op": {"k": "budget", "ep": E, "n": None}})
            elif a[0] == "graceful_shutdown": env.append({"at": "q", "n": g, "op": {"k": "conn", "ep": E, "op": "graceful_shutdown", "n": 0}})
            elif a[0] == "abrupt_shutdown": env.append({"at": "q", "n": g, "op": {"k": "conn", "ep": E, "op": "abrupt_shutdown", "n": a[1]}})
            elif a[0] == "set_initial_window": env.append({"at": "q", "n": g, "op": {"k": "conn", "ep": E, "op": "initial_window", "n": IWS(a[1])}})
            elif a[0] == "user_ping": env.append({"at": "q", "n": g, "op": {"k": "ping", "ep": E}})
            elif a[0] == "request_big":
                reqs.append({"tag": a[1], "method": "POST", "hid": 0, "eos": False, "ready": True, "ops": [{"op": "data", "n": FILL_BYTES, "eos": True}], "start_q": g})
            elif a[0] == "request":
                reqs.append({"tag": a[1], "method": "POST", "hid": 0, "eos": True, "ready": True, "ops": [], "start_q": g})
            elif a[0] == "response":
                ps = {"k": "headers", "sid": a[1], "hid": 0, "fields": [], "eos": True, "frag": 0, "huff": False, "status": 200, "req": False, "method": "", "tag": a[1]}
            elif a[0] == "drop_sr": env.append({"at": "q", "n": g, "op": {"k": "drop_sr"}})
            elif a[0] == "fill":
                prog.setdefault(a[1], []).extend([{"op": "wait_q", "k": g}, {"op": "response", "status": 200, "hid": 0, "eos": False},
                                                  {"op": "data", "n": FILL_BYTES, "eos": False}])
                answered.add(a[1])
            elif a[0] == "end":
                prog.setdefault(a[1], []).append({"op": "wait_q", "k": g})
                prog[a[1]].append({"op": "data", "n": 0, "eos": True} if a[1] in answered else {"op": "response", "status": 200, "hid": 0, "eos": True})
            else: raise SystemExit("unknown action %r" % (a,))
            if burst:
                peer[-1] = {"k": "raw", "hex": raw_of(peer[-1]) + raw_of(ps)}
            else:
                peer += [{"k": "wait_q"}, ps]
        cur["fr"] += [frame_of(f) for f in h["out"]]
        cur["api"] += [(x["call"], x["res"], x["code"], x["remote"]) for x in h["api"]]
        cur["p"] = h["p"]
        if h["p"]["shut"] and not shut:
            shut = True; cur["shut"] = True
    last = g + 3
    peer += [{"k": "wait_q"}, {"k": "auto"}, {"k": "wait_q"}, {"k": "auto"}]
    hold = [{"op": "wait_q", "k": last}]
    srv = [{"ops": prog[s] + hold, "read": {"script": hold}} for s in opened] or [{"ops": hold, "read": {"script": hold}}]
    scn = {"name": name, "mode": "Bs" if role == "server" else "Bc", "scfg": {}, "ccfg": {}, "reqs": reqs,
           "peer_cfg": {"settings": [], "ack_settings": False, "ack_ping": False, "grant": "none", "respond": False},
           "srv": srv, "peer": peer, "env": env, "sched": {"seed": 1, "then": "fifo"}, "coop": False}
    return scn, exp


def real_frame(f):
    ty = f["ty"]
    if ty == "SETTINGS":
        if f.get("ack"): return ("SETTINGS_ACK", 0, 0)
        return ("SETTINGS", f["set"]["iws"], 0)
    if ty == "PING":
        pl = f.get("pl", "")
        v = PLR.get(pl)
        if v is None:
            v = int(pl, 16) if pl else -1
        return ("PING_ACK" if f.get("ack") else "PING", v, 0)
    if ty == "GOAWAY": return ("GOAWAY", f["last"], f["cl"] + (f.get("ch", 0) << 16))
    if ty in ("HEADERS", "DATA"): return (ty, f["sid"], 1 if f["es"] else 0)
    return (ty, f.get("sid", 0), f.get("cl", 0))


def compare(exp, events, ep="s"):
    drift, nq, per_q, panics = [], 0, {}, []
    cur = {"fr": [], "api": [], "sd": False, "stats": None, "done": False}
    first_settings = True
    for e in events:
        t = e["t"]
        if t == "out" and e["ep"] == ep:
            fr = real_frame(e["f"])
            if fr[0] == "SETTINGS" and first_settings:        # the SETTINGS frame of the handshake (Settings::new assumes it was flushed)
                first_settings = False; continue
            cur["fr"].append(fr)
        elif t == "api" and e["ep"] == ep:
            c = e["call"]
            if c == "conn_poll":
                ee = e["e"]
                cur["api"].append(("conn_poll", "ok" if e["res"] == "ok" else ee["kind"], ee["rl"] + (ee["rh"] << 16) if e["res"] != "ok" else 0,
                                   bool(ee["remote"]) if e["res"] != "ok" else False))
            elif c == "poll_pong" and e["res"] != "pending": cur["api"].append(("poll_pong", e["res"], 0, False))
            elif c == "send_ping": cur["api"].append(("send_ping", e["res"], 0, False))
            elif c == "set_initial_window": cur["api"].append(("set_initial_window", e["res"], 0, False))
        elif t == "sd" and e["ep"] == ep: cur["sd"] = True
        elif t == "stats" and e["ep"] == ep and "at" not in e and not e.get("dense"): cur["stats"] = e["s"]
        elif t == "q":
            cur["done"] = e["conn"][ep] == "done"
            per_q[e["n"]] = cur
            cur = {"fr": [], "api": [], "sd": False, "stats": None, "done": False}
        elif t in ("panic", "drop_panic"):
            panics.append(e.get("msg", "")[:200])
    for x in exp:
        step = {"step": x["k"], "a": x["a"]}
        got = per_q.get(x["k"] + 1)
        if got is None:
            drift.append(dict(step, what="no quiescence reached")); continue
        if x["fr"] != got["fr"]:
            drift.append(dict(step, what="frames written: code %s model %s" % (got["fr"], x["fr"])))
        if sorted(x["api"]) != sorted(got["api"]):
            drift.append(dict(step, what="api results: code %s model %s" % (sorted(got["api"]), sorted(x["api"]))))
        if x["shut"] != got["sd"]:
            drift.append(dict(step, what="transport shutdown: code %s model %s" % (got["sd"], x["shut"])))
        p = x["p"]
        if p is None: continue
        if p["ended"] != got["done"]:
            drift.append(dict(step, what="connection future completed: code %s model %s" % (got["done"], p["ended"])))
        if p["ended"] or got["done"]:
            if p["ended"] and got["done"]: continue
            break
        st = got["stats"]
        if st is None:
            drift.append(dict(step, what="no statistics snapshot")); continue
        if ep == "c" and (st["refs"] > 1) != p["refs"]:
            drift.append(dict(step, what="handles alive (refs > 1): code %s model %s" % (st["refs"], p["refs"])))
        for key, want in (("num_recv_streams" if ep == "s" else "num_send_streams", p["num_streams"]), ("last_processed_id", p["last_processed_id"]), ("recv_max_stream_id", p["recv_max"]),
                          ("send_max_stream_id", p["send_max"]), ("send_init_window", IWS(p["send_iws"]) if p["send_iws"] else 65535),
                          ("recv_init_window", IWS(p["recv_iws"]) if p["recv_iws"] else 65535), ("conn_error", p["conn_error"])):
            if st[key] != want:
                drift.append(dict(step, what="%s: code %s model %s" % (key, st[key], want)))
    for m in panics:
        drift.append({"step": 0, "a": ["*"], "what": "panic in the replay: " + m})
    return drift


def features(exps, behs):
    ft = {}
    def hit(k, n=1): ft[k] = ft.get(k, 0) + n
    for exp in exps.values():
        for x in exp:
            p = x["p"]
            if p is None: continue
            if p["blocked"]: hit("steps_while_socket_blocked")
            if p["full"]: hit("steps_while_codec_full")
            if p["full"] and (p["pong"] or p["remote"] >= 0 or p["pending"]): hit("steps_reply_owed_codec_full")
            if p["inq"] > 0 and p["parked"]: hit("steps_unread_input_while_parked")
            for f in x["fr"]: hit("frame_%s%s" % (f[0], ("_%d_%d" % (min(f[1], 9), f[2])) if f[0] == "GOAWAY" else ""))
            for c in x["api"]: hit("api_%s_%s%s" % (c[0], c[1], ("_%d%s" % (c[2], "_remote" if c[3] else "")) if c[0] == "conn_poll" else ""))
    return ft


def main():
    num, seed, outdir = int(sys.argv[1]), int(sys.argv[2]), sys.argv[3]
    cfgs = sys.argv[sys.argv.index("--cfg") + 1].split(",") if "--cfg" in sys.argv else ["MC_Conn_export.cfg", "MC_Conn_export_client.cfg"]
    corrupt = "--corrupt" in sys.argv
    if "--spec" in sys.argv:
        global SPEC
        SPEC = os.path.abspath(sys.argv[sys.argv.index("--spec") + 1])
    os.makedirs(outdir, exist_ok=True)
    behs, states, mv = [], 0, False
    for i, c in enumerate(cfgs):
        b1, s1, m1 = tlc_behaviours(max(1, num // len(cfgs)), seed + i, outdir, c)
        role = "client" if "client" in c else "server"
        behs += [(b, role) for b in b1]; states += s1; mv = mv or m1
    scn_path = os.path.join(outdir, "conform_conn.scn"); exps, scns, roles = {}, [], {}
    for i, (b, role) in enumerate(behs):
        name = "conformConn-%s-%d-%d" % (role, seed, i)
        scn, exp = to_scenario(b, name, role); exps[name] = exp; scns.append(scn); roles[name] = role
        if corrupt:   # binding experiment: the model "forgets" the payload of the first PING it answers
            done = False
            for x in exp[1:] + exp[:1]:
                for j, f in enumerate(x["fr"]):
                    if f[0] in ("PING_ACK", "GOAWAY", "SETTINGS_ACK") and not done:
                        x["fr"][j] = (f[0], f[1] + 1, f[2]) if f[0] != "SETTINGS_ACK" else ("SETTINGS", -1, 0); done = True
    with open(scn_path, "w") as f:
        for scn in scns: f.write(json.dumps(scn) + "\n")
    procs = []
    for j in range(NPAR):
        mine = scns[j::NPAR]
        if not mine: continue
        pj = os.path.join(outdir, "conform_conn.part%d.scn" % j); tj = os.path.join(outdir, "conform_conn.part%d.ndjson" % j)
        with open(pj, "w") as f:
            for scn in mine: f.write(json.dumps(scn) + "\n")
        procs.append((subprocess.Popen([SIM, "--scenario", pj, "--out", tj, "--quiet"], stdout=subprocess.PIPE, stderr=subprocess.STDOUT, text=True), pj, tj))
    tr = os.path.join(outdir, "conform_conn.ndjson")
    runs, name = {}, None
    with open(tr, "w") as allf:
        for pr, pj, tj in procs:
            so, _ = pr.communicate()
            if pr.returncode != 0:
                print(so[-2000:]); raise SystemExit(2)
            for line in open(tj):
                allf.write(line)
                e = json.loads(line)
                if e["t"] == "cfg":
                    name = e["name"]; runs[name] = []
                else:
                    runs[name].append(e)
            os.remove(pj); os.remove(tj)
    drifts, conformant, steps = [], 0, 0
    for name, exp in exps.items():
        d = compare(exp, runs.get(name, []), "s" if roles[name] == "server" else "c"); steps += len(exp)
        if d: drifts.append({"run": name, "drift": d[:6]})
        else: conformant += 1
    nact = {}
    for b, _ in behs:
        for h in b["hist"]: nact[h["a"][0]] = nact.get(h["a"][0], 0) + 1
    res = {"behaviours": len(behs), "conformant": conformant, "steps_compared": steps, "tlc_states": states, "model_violation": mv,
           "drift": drifts[:20], "trace": tr, "scenarios": scn_path, "sample": [h["a"] for h in behs[0][0]["hist"] if h["a"][0] not in CONN][:12] if behs else None,
           "actions": nact, "features": features(exps, behs), "cfg": ",".join(cfgs), "corrupt": corrupt}
    json.dump(res, open(os.path.join(outdir, "conform_conn.json"), "w"), indent=1)
    print("conform_conn: %d behaviours, %d conformant, %d steps compared, %d with drift%s" %
          (len(behs), conformant, steps, len(drifts), (", MODEL VIOLATION %s" % mv) if mv else ""))
    for d in drifts[:5]:
        print("DRIFT:", json.dumps(d)[:900])


if __name__ == "__main__":
    main()
