#!/usr/bin/env python3
"""Spec -> implementation conformance for the send-side implementation model (H2Send.tla).

TLC (simulation mode, seeded) generates behaviours of MC_Send under "drained" schedules and prints,
per behaviour, the inputs and the model's projected state after every step. Each behaviour becomes a
scenario for the simulator (real h2 client against the scripted peer; one model step per quiescence;
model unit = 21845 bytes so that the connection window is exactly 3 units). After each step the guarded
statistics snapshot of the real library (hook H2), the DATA frames it wrote and the results of its
capacity calls are compared with the model's values.  A mismatch is DRIFT (the model no longer describes
the code) - a diagnostic, never a VIOLATION by itself (DESIGN.md 2.1).

usage: conform_send.py <num behaviours> <seed> <outdir>   -> writes <outdir>/conform_send.json"""
import sys, os, json, subprocess, re, shutil
TLCW = os.path.join(os.path.dirname(os.path.dirname(os.path.abspath(__file__))), "bin", "tlcw")  # tlc with a large main-thread stack

VERIF = os.path.dirname(os.path.dirname(os.path.abspath(__file__)))
SPEC = os.path.join(VERIF, "spec")
SIM = os.path.join(VERIF, "harness", "target", "debug", "sim")
U = 21845


def tlc_behaviours(num, seed, outdir):
    md = os.path.join(outdir, "tlcmeta")
    os.makedirs(md, exist_ok=True)
    env = dict(os.environ, JAVA_TOOL_OPTIONS="-Xss1g -Xmx4g -DTLA-Library=%s" % SPEC)
    cmd = ["timeout", "600", TLCW, "-workers", "1", "-metadir", md, "-cleanup", "-noGenerateSpecTE", "-config", "MC_Send_export.cfg",
           "MC_Send.tla", "-simulate", "num=%d" % num, "-depth", "60", "-seed", str(seed)]
    r = subprocess.run(cmd, cwd=os.path.join(SPEC, "mc"), env=env, stdout=subprocess.PIPE, stderr=subprocess.STDOUT, text=True)
    shutil.rmtree(md, ignore_errors=True)
    if "Error:" in r.stdout and "REPLAY" not in r.stdout:
        print(r.stdout[-3000:])
        raise SystemExit(2)
    out, seen = [], set()
    for line in r.stdout.splitlines():
        if line.startswith('<<"REPLAY"'):
            m = re.match(r'<<"REPLAY", "(.*)">>$', line)
            js = json.loads('"' + m.group(1) + '"')
            if js in seen:
                continue
            seen.add(js)
            out.append(json.loads(js))
    m = re.search(r"(\d+) states checked", r.stdout)
    model_violation = "is violated" in r.stdout
    return out, int(m.group(1)) if m else 0, model_violation, r.stdout


def to_scenario(b, name):
    """behaviour -> (scenario, expectations per env step)"""
    streams = [1, 3]
    ops = {1: [], 3: []}
    peer = []
    exp = []
    BASE = 2  # quiescences before the first model step (q1: stream 1 open, q2: stream 3 open)
    k = 0
    cur = None
    for h in b["hist"]:
        a = h["a"]
        if a[0] in ("pop", "reclaim"):
            if cur is not None:
                cur["p"] = h["p"]
                cur["frames"] += [e["f"] for e in h["ev"] if e.get("t") == "out"]
            continue
        k += 1
        q = BASE + k
        cur = {"k": k, "a": a, "p": h["p"], "frames": [e["f"] for e in h["ev"] if e.get("t") == "out" and e["f"]["ty"] in ("DATA", "RST_STREAM")],
               "api": [e for e in h["ev"] if e.get("t") == "api"]}
        exp.append(cur)
        step_peer = {"k": "auto"}
        if a[0] == "send_data":
            ops[a[1]] += [{"op": "wait_q", "k": q - 1}, {"op": "data", "n": a[2] * U, "eos": a[3]}]
        elif a[0] == "reserve":
            ops[a[1]] += [{"op": "wait_q", "k": q - 1}, {"op": "reserve", "n": a[2] * U}]
        elif a[0] == "poll_capacity":
            ops[a[1]] += [{"op": "wait_q", "k": q - 1}, {"op": "poll_cap_once"}]
        elif a[0] == "send_reset":
            ops[a[1]] += [{"op": "wait_q", "k": q - 1}, {"op": "reset", "code": 8}]
        elif a[0] == "recv_rst":
            step_peer = {"k": "rst", "sid": a[1], "code": 8}
        elif a[0] == "wu":
            step_peer = {"k": "wu", "sid": a[1], "inc": a[2] * U}
        elif a[0] == "settings":
            step_peer = {"k": "settings", "vals": [[4, a[1] * U]]}
        peer.append(step_peer)
    # peer script: one step per quiescence; the first BASE-1 quiescences are idle
    steps = []
    for i in range(BASE - 1):
        steps += [{"k": "wait_q"}, {"k": "auto"}]
    for p in peer:
        steps += [{"k": "wait_q"}, p]
    steps += [{"k": "wait_q"}, {"k": "auto"}]
    last_q = BASE + k + 1
    reqs = []
    for i, s in enumerate(streams):
        # keep the handle alive until the end so that the stream is not cancelled by a drop
        o = ops[s] + [{"op": "wait_q", "k": last_q}]
        reqs.append({"tag": i + 1, "method": "POST", "hid": 0, "eos": False, "ready": True, "ops": o,
                     "read": {"idle": True, "hold_q": last_q}, "start_q": None if i == 0 else 1})
    scn = {"name": name, "mode": "Bc",
           "ccfg": {"max_send_buf": b["maxbuf"] * U},
           "peer_cfg": {"settings": [[4, b["iw"] * U], [5, max(16384, b["mf"] * U)]], "ack_settings": True, "ack_ping": True, "grant": "none", "respond": False},
           "reqs": reqs, "peer": steps, "env": [], "sched": {"seed": 1, "then": "fifo"}, "drop_sr_when_done": False, "coop": False}
    return scn, exp, BASE


def compare(b, scn_name, exp, base, events):
    """returns list of drift descriptions"""
    drift = []
    # split events of this run by quiescence
    nq = 0
    frames = []      # DATA / RST frames written since the last quiescence
    apis = []
    per_q = {}
    for e in events:
        t = e["t"]
        if t == "out" and e["f"]["ty"] in ("DATA", "RST_STREAM"):
            frames.append(e["f"])
        elif t == "api" and e["call"] in ("poll_capacity",):
            apis.append(e)
        elif t == "stats" and e["ep"] == "c" and "at" not in e:
            stats = e["s"]
            per_q[nq + 1] = {"stats": stats, "frames": frames, "apis": apis}
        elif t == "q":
            nq = e["n"]
            frames, apis = [], []
    for x in exp:
        # model step k is executed right after quiescence base+k-1; its effects are visible in the snapshot of quiescence base+k
        got = per_q.get(base + x["k"])
        if got is None:
            drift.append({"step": x["k"], "a": x["a"], "what": "no quiescence reached"})
            continue
        st = {s["id"]: s for s in got["stats"]["streams"]}
        p = x["p"]
        for sid in ("1", "3"):
            s = st.get(int(sid))
            if s is None:
                # stream record released by the library (closed and handles gone) - nothing to compare
                continue
            if "Closed" in s["state"] and ("Reset" in s["state"] or "Error" in s["state"]):
                # after a reset the code stops maintaining window/requested of the dead stream; only `available` matters (returned)
                pairs = [("send_available", p["avail"][sid] * U)]
            else:
                pairs = [("send_window", p["win"][sid] * U), ("send_available", p["avail"][sid] * U),
                         ("requested", p["req"][sid] * U), ("buffered", p["buf"][sid] * U)]
            for key, want in pairs:
                if s[key] != want:
                    drift.append({"step": x["k"], "a": x["a"], "what": "stream %s %s: code %s model %s" % (sid, key, s[key], want)})
        for key, want in (("send_window", p["cwin"] * U), ("send_available", p["cavail"] * U)):
            if got["stats"][key] != want:
                drift.append({"step": x["k"], "a": x["a"], "what": "connection %s: code %s model %s" % (key, got["stats"][key], want)})
        wf = [(f["ty"], f["sid"], f["len"] * (U if f["ty"] == "DATA" else 1), f["es"]) for f in x["frames"]]
        gf = [(f["ty"], f["sid"], f["len"], f["es"]) for f in got["frames"]]
        # the real codec splits a model frame further at 16 KiB boundaries only if max frame < model frame: we set MAX_FRAME_SIZE = mf*U
        if wf != gf:
            drift.append({"step": x["k"], "a": x["a"], "what": "frames: code %s model %s" % (gf, wf)})
        if x["a"][0] == "poll_capacity":
            want = x["api"][0]
            gota = got["apis"]
            if not gota:
                drift.append({"step": x["k"], "a": x["a"], "what": "poll_capacity not executed"})
            else:
                g = gota[0]
                if g["res"] != want["res"] or (want["res"] == "ok" and g["v"] != want["v"] * U):
                    drift.append({"step": x["k"], "a": x["a"], "what": "poll_capacity: code %s/%s model %s/%s" % (g["res"], g["v"], want["res"], want["v"] * U)})
    return drift


def main():
    num, seed, outdir = int(sys.argv[1]), int(sys.argv[2]), sys.argv[3]
    os.makedirs(outdir, exist_ok=True)
    behs, states, model_violation, raw = tlc_behaviours(num, seed, outdir)
    scn_path = os.path.join(outdir, "conform_send.scn")
    exps = {}
    with open(scn_path, "w") as f:
        for i, b in enumerate(behs):
            name = "conformSend-%d-%d" % (seed, i)
            scn, exp, base = to_scenario(b, name)
            exps[name] = (b, exp, base)
            f.write(json.dumps(scn) + "\n")
    tr = os.path.join(outdir, "conform_send.ndjson")
    r = subprocess.run([SIM, "--scenario", scn_path, "--out", tr, "--quiet"], stdout=subprocess.PIPE, stderr=subprocess.STDOUT, text=True)
    if r.returncode != 0:
        print(r.stdout[-2000:])
        raise SystemExit(2)
    runs, cur, name = {}, None, None
    for line in open(tr):
        e = json.loads(line)
        if e["t"] == "cfg":
            name = e["name"]
            runs[name] = []
        else:
            runs[name].append(e)
    drifts, conformant, steps = [], 0, 0
    for name, (b, exp, base) in exps.items():
        d = compare(b, name, exp, base, runs.get(name, []))
        steps += len(exp)
        if d:
            drifts.append({"run": name, "drift": d[:6]})
        else:
            conformant += 1
    res = {"behaviours": len(behs), "conformant": conformant, "steps_compared": steps, "tlc_states": states,
           "model_violation": model_violation, "drift": drifts[:20], "trace": tr, "scenarios": scn_path,
           "sample": behs[0]["hist"][:3] if behs else None}
    json.dump(res, open(os.path.join(outdir, "conform_send.json"), "w"), indent=1)
    print("conform_send: %d behaviours, %d conformant, %d steps compared, %d with drift" % (len(behs), conformant, steps, len(drifts)))
    for d in drifts[:5]:
        print("DRIFT:", json.dumps(d)[:600])


if __name__ == "__main__":
    main()
