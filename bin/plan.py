"""Per-property verification plan: which contract rules decide the property, which corpora of
real executions feed them, which TLA+ model-checking slices explore the design."""

# scenario families (harness/src/gen.rs) and how many scenarios per tier
FAMILIES = {
    "mixA":  {"quick": 250, "thorough": 4000},   # real client <-> real server, cooperative programs
    "mixAd": {"quick": 250, "thorough": 4000},   # ... with resets, drops, early handle drops
    "bpReset": {"quick": 150, "thorough": 3000}, # back-pressure: a frame partly written, then one stream reset/dropped/ended
    "flowBs": {"quick": 200, "thorough": 4000},  # scripted client exhausts the real server's receive windows exactly
    "flowBc": {"quick": 200, "thorough": 4000},  # scripted server drives the real client's send windows (0, negative, up)
    "capRace": {"quick": 200, "thorough": 4000},   # competition for the connection window, then one competitor goes away
    "ctlB": {"quick": 200, "thorough": 4000},      # SETTINGS / PING bursts while the endpoint is blocked mid-frame
    "concBc": {"quick": 200, "thorough": 4000},    # peer changes MAX_CONCURRENT_STREAMS while streams are open
    "faultA": {"quick": 320, "thorough": 8000},     # fault enumeration: base exchange x step x ending kind
    "goawayBc": {"quick": 200, "thorough": 4000},   # scripted server sends GOAWAY (any id / code / repeated) at any moment
    "shutdownA": {"quick": 150, "thorough": 3000},  # graceful / abrupt shutdown of the real server at any moment
    "shutdownBs": {"quick": 200, "thorough": 4000}, # graceful shutdown with delayed shutdown-PING ack, user pings, stray PING ACKs
    "abuseB": {"quick": 400, "thorough": 8000},     # legal prefix + protocol violations / legal-but-unusual frames + probe, both roles
    "floodBs": {"quick": 50, "thorough": 500},     # hostile scripted client floods a real server with small limits (rapid reset, refused streams, tiny/empty DATA, CONTINUATION, PING/SETTINGS, stream errors, oversize lists), slow / non-accepting application, blocked writes; dense statistics
    "floodBc": {"quick": 50, "thorough": 500},     # hostile scripted server floods a real client (PUSH_PROMISE, 1xx, tiny/empty DATA, PING/SETTINGS, CONTINUATION, promise+reset)
    "mutateB": {"quick": 600, "thorough": 20000},   # C08 only: the scripted peer's byte stream corrupted (bit flips, replaced / dropped / doubled octets) after the preface, both roles, any fragmentation
    "rstRaceBc": {"quick": 150, "thorough": 3000},   # complete response, then the peer's RST_STREAM(X), then the application's own send_reset(Y): X surfaces, never Y
    "pushRaceBs": {"quick": 150, "thorough": 3000},  # server pushes vs a scripted client that refuses (RST_STREAM) / credits (WINDOW_UPDATE) the promised streams while they are reserved, answered-but-queued, or waiting for a concurrency slot (client MAX_CONCURRENT_STREAMS 0 / 1 / raised late)
    "pushRaceBc": {"quick": 150, "thorough": 3000},  # scripted server pushes on requests the real client is cancelling (ResponseFuture dropped, RST_STREAM perhaps not yet written) with max_concurrent_reset_streams 0 / 1 / default: the parent may already be forgotten when the PUSH_PROMISE arrives
    "cancelA": {"quick": 150, "thorough": 3000},   # cooperative real pair: streams abandoned with work still queued (DATA buffered / capacity reserved / response half sent) by dropping the last handle or resetting, on either side; then a witness exchange of more than a connection window each way must complete and all bookkeeping must be back to idle
    "capWaitBc": {"quick": 100, "thorough": 2000},   # the ways a writer comes to wait in poll_capacity with the "capacity changed" flag still set (grant consumed without polling, grant taken back by SETTINGS before the woken task ran, reserve(0) in between): the next grant must wake it; cooperative in the end
    "pingsA": {"quick": 150, "thorough": 3000},   # user PINGs one after the other through the same handle, from either endpoint, at quiet moments and beside traffic: every accepted send_ping reaches the wire and is answered
    "wuBurstBs": {"quick": 40, "thorough": 300},   # 40-130 streams owe a WINDOW_UPDATE at once while the endpoint's writes are blocked and its write buffer is nearly full
    "inlineA": {"quick": 600, "thorough": 12000},   # C20: handle operations executed INSIDE the read / write / flush callbacks of the connection task (parked handles), real client <-> real server
    "threadsA": {"quick": 1500, "thorough": 40000},   # C20: REAL parallel executions: connections and every request half on their own OS threads; handle call + log entry atomic under the transport's mutex, so the trace is a valid linearization
    "conformSend": {"quick": 40, "thorough": 1500},
    "conformStreams": {"quick": 150, "thorough": 3000},  # TLC simulation runs of MC_Streams (stream store / counters, server role) replayed on the real server
    "conformTasks": {"quick": 150, "thorough": 3000},   # TLC simulation runs of MC_Tasks (wake-up protocol, both roles) replayed under the strict executor: the set of parked tasks compared at every quiescence
    "conformPush": {"quick": 300, "thorough": 3000},   # TLC simulation runs of MC_Push (server-push machinery, both roles) replayed on the real library: frames in order, API results, counters and EVERY slab record compared at every quiescence
    "conformConn": {"quick": 400, "thorough": 6000},   # TLC simulation runs of MC_Conn (SETTINGS / PING / GOAWAY / shutdown machinery, both roles) replayed on the real library
    "conformRecv": {"quick": 80, "thorough": 3000},  # TLC simulation runs of MC_Recv replayed on the real server (byte-exact)  # TLC simulation runs of MC_Send (x ~3 behaviours each) replayed on the real client
}

# Families whose recorded traces are NOT judged by the wire / API contract monitors. conformPush drives a hostile peer against ids that
# push_request() has consumed but that never reached the wire (queued or dropped PUSH_PROMISE): the wire contract has no notion of such
# ids (it would have to mirror h2's private id allocation), so its verdicts there are not sound. What decides those behaviours is the
# implementation model: its invariants under TLC (MC_Push) and the comparison of every frame, call result and record with the code.
CONFORM_ONLY = {"conformPush"}

SEND_SLICE = {"module": "MC_Send", "cfg_quick": "MC_Send_quick.cfg", "cfg_thorough": "MC_Send_thorough.cfg",
              "constants": "2 streams, IW=2 CW=3 MF=2 units, sends {3}, WU {2}, SETTINGS {0,3}, reserve {2}, 1 reset; every interleaving with a frame parked in the codec",
              "timeout_thorough": 2400, "coverage": False}

WIRE_AB = ["mixA", "mixAd", "bpReset", "flowBs", "flowBc", "capRace", "ctlB", "concBc", "faultA", "goawayBc", "shutdownA", "abuseB", "shutdownBs", "floodBs", "floodBc", "wuBurstBs", "rstRaceBc", "pushRaceBs", "pushRaceBc", "cancelA", "capWaitBc", "pingsA"]

RECV_SLICE = {"module": "MC_Recv", "cfg_quick": "MC_Recv_quick.cfg", "cfg_thorough": "MC_Recv_thorough.cfg",
              "constants": "2 streams, IW=6 CW=8, DATA {0,1,6} x padding {0,1} x END_STREAM, release {1,2}, 1 handle drop, 1 reset either side, target {6,10}, SETTINGS {1,8} applied at the peer's ACK; legal peer; leak rules at every quiescent state",
              "timeout_thorough": 3000, "coverage": False, "workers": 8}

STREAMS_SLICE = {"module": "MC_Streams", "cfg_quick": "MC_Streams_quick.cfg", "cfg_thorough": "MC_Streams_thorough.cfg",
                 "constants": "2 remote streams, MaxConc=ResetMax=PendingAcceptResetMax=ErrorResetMax=1, 2 extra peer frames (HEADERS/malformed HEADERS/DATA/RST_STREAM), every order of accept / send_response / send_data / send_reset / handle drops / pop_frame (writes may be delayed arbitrarily) / reset expiry / EOF / connection drop",
                 "timeout_quick": 900, "timeout_thorough": 3000, "coverage": False, "workers": 6}

CONN_SLICES = [
    {"module": "MC_Conn", "cfg_quick": "MC_Conn_quick.cfg", "cfg_thorough": "MC_Conn_thorough.cfg", "workers": 6, "heap": "10g",
     "constants": "server role: one whole Connection::poll per step, environment between polls; budgets peer 3 / app 2 / block 1 (thorough: peer 4): SETTINGS / ACK / PING / PING ACK (user, shutdown, stray) / GOAWAY / new stream / stream end / EOF, set_initial_window_size, user ping, graceful and abrupt shutdown, codec full, socket blocked",
     "timeout_quick": 1200, "timeout_thorough": 3000, "coverage": False},
    {"module": "MC_Conn", "cfg_quick": "MC_Conn_client_quick.cfg", "cfg_thorough": "MC_Conn_client_thorough.cfg", "workers": 6, "heap": "10g",
     "constants": "client role, same budgets; idle close when the last handle and stream are gone",
     "timeout_quick": 1200, "timeout_thorough": 3000, "coverage": False},
]

PUSH_SLICES = [
    {"module": "MC_Push", "cfg_quick": "MC_Push_quick.cfg", "cfg_thorough": "MC_Push_thorough.cfg", "workers": 6, "heap": "8g",
     "constants": "server role: 2 parents, 1 push (thorough: 2), peer limit 1 (may change), reset memory 1; push_request / send_response / send_data / send_reset / handle drops in any order, one frame popped per step (writes delayed arbitrarily), every peer frame kind on parent and promised ids (legal or not by the WIRE), SETTINGS(max concurrent / ENABLE_PUSH=0), GOAWAY, EOF",
     "timeout_quick": 900, "timeout_thorough": 3000, "coverage": False},
    {"module": "MC_Push", "cfg_quick": "MC_Push_client_quick.cfg", "cfg_thorough": "MC_Push_client_thorough.cfg", "workers": 6, "heap": "8g",
     "constants": "client role: PUSH_PROMISE (legal / illegal: ids, parent state, ENABLE_PUSH, method), pushed HEADERS / DATA / RST_STREAM, PushPromises handle polled / dropped, requests cancelled and forgotten, local limit on pushed streams, reset expiry",
     "timeout_quick": 900, "timeout_thorough": 3000, "coverage": False},
]

def _tasks_slice(q, t, what, workers=6):
    return {"module": "MC_Tasks", "cfg_quick": q, "cfg_thorough": t, "workers": workers, "heap": "10g", "constants": what,
            "timeout_quick": 1200, "timeout_thorough": 3000, "coverage": False}

TASKS_SLICES = [
    _tasks_slice("MC_Tasks_quick.cfg", "MC_Tasks_thorough.cfg", "client: 2 streams, send side (reserve / poll_capacity / send_data / poll_reset / send_reset / WINDOW_UPDATE / SETTINGS), every interleaving with the connection task's pop / reclaim / park"),
    _tasks_slice("MC_Tasks_quick_open.cfg", "MC_Tasks_thorough_open.cfg", "client: SendRequest::poll_ready / pending open / MAX_CONCURRENT_STREAMS changes"),
    _tasks_slice("MC_Tasks_quick_close.cfg", "MC_Tasks_quick_close.cfg", "client: handle drops, drop of the last SendRequest, GOAWAY, EOF (C07: nothing parked after the end)"),
    _tasks_slice("MC_Tasks_quick_recv.cfg", "MC_Tasks_thorough_recv.cfg", "client: poll_response / poll_data / poll_trailers / release_capacity"),
    _tasks_slice("MC_Tasks_quick_push.cfg", "MC_Tasks_quick_push.cfg", "client: PUSH_PROMISE / poll_push_promise"),
    _tasks_slice("MC_Tasks_quick_server.cfg", "MC_Tasks_thorough_server.cfg", "server: accept / send_response / request body"),
]

PLAN = {
    "C01": {"rules": ["C01."], "families": WIRE_AB, "slices": [], "level": "exploration",
            "must_hit": ["C01.head", "C01.data", "C01.clean_end", "C01.trailers", "C01.info", "C01.push"]},
    "C02": {"rules": ["C02."], "families": WIRE_AB + ["conformSend"], "slices": [SEND_SLICE], "level": "model_checking",
            "must_hit": ["C02.stream_credit", "C02.conn_credit", "C02.exhausts"]},
    "C03": {"rules": ["C03."], "families": WIRE_AB + ["conformRecv"], "slices": [RECV_SLICE], "level": "model_checking",
            "must_hit": ["C03.conn_overcredit", "C03.stream_overcredit"]},
    "C04": {"rules": ["C04."], "families": WIRE_AB + ["conformPush"], "slices": PUSH_SLICES, "level": "exploration",
            "must_hit": ["C04.stream_kind", "C04.id_order", "C04.after_es", "C04.data_state", "C04.contiguous"]},
    "C05": {"rules": ["C05."], "families": WIRE_AB + ["conformStreams"], "slices": [STREAMS_SLICE], "level": "model_checking",
            "must_hit": ["C05.send_limit"]},
    "C06": {"rules": ["C06."], "families": ["mixA", "mixAd", "bpReset", "cancelA", "capWaitBc", "pingsA", "ctlB", "shutdownBs", "goawayBc", "conformTasks"], "slices": TASKS_SLICES, "level": "model_checking", "must_hit": ["C06.progress"]},
    "C07": {"rules": ["C07."], "families": WIRE_AB, "slices": [], "level": "fault_enumeration", "must_hit": ["C07.resolved"]},
    "C08": {"rules": ["C08."], "families": WIRE_AB + ["mutateB"], "slices": [], "level": "exploration", "must_hit": []},
    "C09": {"rules": ["C09."], "families": WIRE_AB + ["conformPush"], "slices": PUSH_SLICES, "level": "exploration", "must_hit": ["C09.conn_error", "C09.stream_error", "C09.legal_not_penalised"]},
    "C10": {"engine": True, "rules": ["C10."], "level": "model_checking"},
    "C11": {"engine": True, "rules": ["C11."], "level": "model_checking"},
    "C12": {"engine": True, "rules": ["C12."], "level": "model_checking"},
    "C13": {"engine": True, "rules": ["C13."], "level": "model_checking"},
    # (the epoch clause of C14 - "the values of a received SETTINGS govern everything sent after its acknowledgement" - is decided by
    #  the credit ledger, whose window base is the peer SETTINGS acknowledged so far in the endpoint's own output: rule C02.stream_credit)
    "C14": {"rules": ["C14.", "C12.out_size", "C02.stream_credit"], "families": WIRE_AB + ["conformConn"], "slices": CONN_SLICES, "level": "model_checking",
            "must_hit": ["C14.settings_ack", "C14.pong", "C14.all_acked"]},
    "C15": {"rules": ["C15."], "families": WIRE_AB + ["conformConn"], "slices": CONN_SLICES, "level": "model_checking",
            "must_hit": ["C15.no_request_after_goaway", "C15.conn_result", "C15.graceful_completes"]},
    "C16": {"rules": ["C16."], "families": WIRE_AB + ["conformSend"], "slices": [SEND_SLICE], "level": "model_checking", "must_hit": ["C16.nonzero", "C16.stream_bound"]},
    "C18": {"rules": ["C18."], "families": WIRE_AB + ["conformStreams"], "slices": [STREAMS_SLICE], "level": "model_checking",
            "must_hit": ["C18.store_bound", "C18.recv_buffer_bound", "C18.send_buffer_bound", "C18.quota_counters", "C18.continuation_bound", "C18.owed_replies_bound"]},
    "C19": {"rules": ["C19."], "families": WIRE_AB + ["conformStreams"], "slices": [STREAMS_SLICE], "level": "model_checking",
            "must_hit": ["C19.forgotten", "C19.counts_idle", "C19.flow_idle", "C19.idle_close", "C19.no_premature_close"]},
    "C20": {"rules": ["C"], "families": ["inlineA", "threadsA"], "slices": [SEND_SLICE], "level": "exploration", "all_known": True,
            "must_hit": ["C01.data", "C02.stream_credit", "C03.conn_overcredit", "C16.stream_bound", "C17.single_rst", "C08.run_without_panic"]},
    "C17": {"rules": ["C17."], "families": WIRE_AB, "slices": [], "level": "exploration", "must_hit": ["C17.single_rst"]},
}
