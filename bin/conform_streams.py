#!/usr/bin/env python3
"""Spec -> implementation conformance for the stream-store implementation model (H2Streams.tla).
TLC (simulation, seeded) generates behaviours of MC_Streams under schedules the simulator can reproduce (one peer frame /
application call / time step per quiescence, the connection task drains after each); each becomes a scenario for the
simulator (mode Bs: REAL h2 server, scripted raw-frame client).  After every step the guarded statistics snapshot of the
real library (counters, store_len, slab_len, refused, last_processed_id, per linked stream: state, is_counted,
is_pending_accept, is_pending_send, ref_count, reset_at, pending_send empty) and the frames written (HEADERS / DATA /
RST_STREAM ids + codes / GOAWAY last id + code) are compared with the model.  Mismatch = DRIFT (diagnostic).
The model's stream ids 1, 3, 5.. are the real ids 3, 5, 7..: real stream 1 is a "filler" request the application accepts
at once and uses, when the model's schedule blocks the server's socket (step "block": write budget 0), to send a response
with a DATA frame that fills the codec - from then on nothing is popped from pending_send until "unblock".
A panic of the library or of its teardown assertion (Store::drop: slab not empty) in a replay is reported as DRIFT too.
usage: conform_streams.py <num behaviours> <seed> <outdir> [--cfg MC_Streams_export.cfg] [--corrupt] [--spec <dir>]
   -> <outdir>/conform_streams.json     (--corrupt: binding experiment, falsifies one expected value per behaviour;
                                         --spec: use a (mutated) copy of /verif/spec)"""
import sys, os, json, subprocess, re, shutil

VERIF = os.path.dirname(os.path.dirname(os.path.abspath(__file__)))
TLCW = os.path.join(VERIF, "bin", "tlcw")   # tlc with a large main-thread stack
SPEC = os.path.join(VERIF, "spec")
SIM = os.environ.get("H2SIM") or os.path.join(VERIF, "harness", "target", "debug", "sim")   # H2SIM: another build of the simulator
RESET_DUR_MS = 400      # reset_stream_duration of the replayed server; a model Tick sleeps TICK_MS (> RESET_DUR_MS)
TICK_MS = 450
NPAR = 8                # simulator processes run side by side (a Tick really sleeps)
FILLER = 1              # real stream id of the filler request
FILL_BYTES = 5000       # >= CHAIN_THRESHOLD_WITHOUT_VECTORED_IO: the frame is kept by the codec as `next`, has_capacity() is false
R = lambda s: s + 2     # model stream id -> real stream id
CONN = ("refusal", "pop_frame", "clear_expired", "conn_drop")
REASON = {0: "NO_ERROR", 1: "PROTOCOL_ERROR", 2: "INTERNAL_ERROR", 3: "FLOW_CONTROL_ERROR", 5: "STREAM_CLOSED", 7: "REFUSED_STREAM",
          8: "CANCEL", 11: "ENHANCE_YOUR_CALM"}


def tlc_behaviours(num, seed, outdir, cfg):
    md = os.path.join(outdir, "tlcmeta"); os.makedirs(md, exist_ok=True)
    env = dict(os.environ, JAVA_TOOL_OPTIONS="-Xss1g -Xmx4g -DTLA-Library=%s" % SPEC)
    cmd = ["timeout", "900", TLCW, "-workers", "1", "-metadir", md, "-cleanup", "-noGenerateSpecTE", "-config", cfg,
           "MC_Streams.tla", "-simulate", "num=%d" % num, "-depth", "100", "-seed", str(seed)]
    r = subprocess.run(cmd, cwd=os.path.join(SPEC, "mc"), env=env, stdout=subprocess.PIPE, stderr=subprocess.STDOUT, text=True)
    shutil.rmtree(md, ignore_errors=True)
    out, seen = [], set()
    for line in r.stdout.splitlines():
        if line.startswith('<<"REPLAY"'):
            js = json.loads('"' + re.match(r'<<"REPLAY", "(.*)">>$', line).group(1) + '"')
            if js not in seen:
                seen.add(js); out.append(json.loads(js))
    if not out:
        print(r.stdout[-3000:]); raise SystemExit(2)
    m = re.search(r"(\d+) states checked", r.stdout)
    mv = re.search(r"Invariant (\w+) is violated", r.stdout)
    return out, int(m.group(1)) if m else 0, (mv.group(1) if mv else ("error" if "Error:" in r.stdout else False))


def st_str(st, sid):
    """the Debug string of state.rs `Inner` for a model state record"""
    l = {"AH": "AwaitingHeaders", "S": "Streaming"}.get(st["l"], "?")
    k = st["k"]
    if k == "Idle": return "Idle"
    if k == "Open": return "Open { local: %s, remote: Streaming }" % l
    if k == "HalfClosedRemote": return "HalfClosedRemote(%s)" % l
    if k == "HalfClosedLocal": return "HalfClosedLocal(Streaming)"
    c, r = st["cause"], REASON.get(st["reason"], str(st["reason"]))
    if c == "EndStream": return "Closed(EndStream)"
    if c == "Reset": return "Closed(Error(Reset(StreamId(%d), %s, %s)))" % (sid, r, st["init"])
    if c == "ResetAfterES": return "Closed(ErrorAfterEndStream(Reset(StreamId(%d), %s, %s)))" % (sid, r, st["init"])
    if c == "Sched": return "Closed(ScheduledLibraryReset(%s))" % r
    return "Closed(%s)" % c       # GoAway / Io: only after the connection ended (no snapshot there)


def frames_of(evl):
    out = []
    for f in evl:
        if f["ty"] == "GOAWAY": out.append(("GOAWAY", R(f["last"]) if f["last"] else FILLER, f["code"], False))
        elif f["ty"] == "RST_STREAM": out.append(("RST_STREAM", R(f["sid"]), f["code"], False))
        else: out.append((f["ty"], R(f["sid"]), 0, f["es"]))
    return out


def to_scenario(b, name):
    """one model step per quiescence: group g happens at quiescence g, its effect is visible at quiescence g + 1"""
    hdr = lambda sid, eos: {"k": "headers", "sid": sid, "hid": 0, "fields": [], "eos": eos, "frag": 0, "huff": False, "status": 0,
                            "req": True, "method": "POST", "tag": sid}
    # a header block the codec rejects as malformed (connection-specific field): stream error PROTOCOL_ERROR before the stream layer
    bad = lambda sid: {"k": "headers", "sid": sid, "hid": 0, "fields": [[":method", "POST"], [":scheme", "https"], [":authority", "sim.test"],
                       [":path", "/bad"], ["connection", "close"]], "eos": False, "frag": 0, "huff": False, "status": 0, "req": True,
                       "method": "POST", "tag": sid}
    peer = [{"k": "settings_ack"}, hdr(FILLER, False)]
    env, exp, g, cur = [], [], 0, None
    order, rd, wr, fill = [], {}, {}, []
    for h in b["hist"]:
        a = h["a"]
        if a[0] in CONN:
            if cur is not None:
                cur["p"] = h["p"]; cur["fr"] += frames_of(h["ev"])
                if a[0] == "conn_drop": cur["ended"] = True
            continue
        g += 1
        cur = {"k": g, "a": a, "p": h["p"], "fr": frames_of(h["ev"]), "ended": h["p"]["ended"]}; exp.append(cur)
        ps = {"k": "auto"}
        if a[0] == "recv_headers": ps = hdr(R(a[1]), a[2])
        elif a[0] == "recv_bad_headers": ps = bad(R(a[1]))
        elif a[0] == "recv_data": ps = {"k": "data", "sid": R(a[1]), "n": 1, "eos": a[2], "pad": None}
        elif a[0] == "recv_reset": ps = {"k": "rst", "sid": R(a[1]), "code": 8}
        elif a[0] == "block":
            env.append({"at": "q", "n": g, "op": {"k": "budget", "ep": 1, "n": 0}})
            fill = [{"op": "wait_q", "k": g}, {"op": "response", "status": 200, "hid": 0, "eos": False}, {"op": "data", "n": FILL_BYTES, "eos": False}]
        elif a[0] == "unblock":
            env.append({"at": "q", "n": g, "op": {"k": "budget", "ep": 1, "n": None}})
        elif a[0] == "peer_eof":       # the peer closes its side (the fault op also wakes the reader, PeerStep::Eof does not)
            env.append({"at": "q", "n": g, "op": {"k": "fault", "ep": 1, "kind": "eof"}})
        elif a[0] == "accept":
            env.append({"at": "q", "n": g, "op": {"k": "conn", "ep": 1, "op": "accept_allow", "n": 1}})
            order.append(a[1]); rd[a[1]] = []; wr[a[1]] = []
        elif a[0] == "send_response": wr[a[1]] += [{"op": "wait_q", "k": g}, {"op": "response", "status": 200, "hid": 0, "eos": a[2]}]
        elif a[0] == "send_data": wr[a[1]] += [{"op": "wait_q", "k": g}, {"op": "data", "n": 0, "eos": a[2]}]
        elif a[0] == "send_reset": wr[a[1]] += [{"op": "wait_q", "k": g}, {"op": "reset", "code": 8}]
        elif a[0] == "drop_recv": rd[a[1]] += [{"op": "wait_q", "k": g}, {"op": "drop"}]
        elif a[0] == "drop_send": wr[a[1]] += [{"op": "wait_q", "k": g}, {"op": "drop"}]
        elif a[0] == "tick":
            # time passes at quiescence g; the connection is polled at quiescence g + 1 (clear_expired_reset_streams runs in poll)
            env.append({"at": "q", "n": g, "op": {"k": "time", "ms": TICK_MS}})
            peer += [{"k": "wait_q"}, ps]
            g += 1
            env.append({"at": "q", "n": g, "op": {"k": "conn", "ep": 1, "op": "accept_allow", "n": 0}})
            cur = {"k": g, "a": ["tick_poll"], "p": h["p"], "fr": [], "ended": h["p"]["ended"]}; exp.append(cur)
        elif a[0] == "idle": pass
        else: raise SystemExit("unknown action %r" % (a,))
        peer += [{"k": "wait_q"}, ps]
    last = g + 3
    peer += [{"k": "wait_q"}, {"k": "auto"}, {"k": "wait_q"}, {"k": "auto"}]
    hold = [{"op": "wait_q", "k": last}]
    srv = [{"ops": fill + hold, "read": {"script": hold}}]          # the filler request is accepted first
    srv += [{"ops": wr[s] + hold, "read": {"script": rd[s] + hold}} for s in order]
    scn = {"name": name, "mode": "Bs",
           "scfg": {"max_conc": b["maxconc"] + 1, "reset_max": b["resetmax"], "reset_dur_ms": RESET_DUR_MS,
                    "pending_accept_reset_max": b["parmax"], "local_error_reset_max": b["errmax"]},
           "srv_accept_budget": 1,
           "peer_cfg": {"settings": [], "ack_settings": False, "ack_ping": True, "grant": "none", "respond": False},
           "srv": srv, "peer": peer, "env": env, "sched": {"seed": 1, "then": "fifo"}, "coop": False}
    return scn, exp


def compare(exp, events):
    drift, nq, fr, per_q, panics = [], 0, [], {}, []
    for e in events:
        t = e["t"]
        if t == "out" and e["ep"] == "s":
            f = e["f"]
            if f["ty"] == "GOAWAY": fr.append(("GOAWAY", f["last"], f["cl"], False))
            elif f["ty"] == "RST_STREAM": fr.append(("RST_STREAM", f["sid"], f["cl"], False))
            elif f["ty"] in ("HEADERS", "DATA") and f["sid"] != FILLER: fr.append((f["ty"], f["sid"], 0, f["es"]))
        elif t == "stats" and e["ep"] == "s" and "at" not in e:
            per_q.setdefault(nq + 1, {})["stats"] = e["s"]
        elif t == "q":
            per_q.setdefault(nq + 1, {})["fr"] = fr
            nq = e["n"]; fr = []
        elif t in ("panic", "drop_panic"):
            panics.append(e.get("msg", "")[:200])
    for x in exp:
        step = {"step": x["k"], "a": x["a"]}
        got = per_q.get(x["k"] + 1)
        if got is None:
            drift.append(dict(step, what="no quiescence reached")); continue
        if sorted(x["fr"]) != sorted(got.get("fr", [])):
            drift.append(dict(step, what="frames written: code %s model %s" % (sorted(got.get("fr", [])), sorted(x["fr"]))))
        p = x["p"]
        if x["ended"]:
            if "stats" in got:
                drift.append(dict(step, what="the model's connection ended, the real one still runs"))
            break                                  # no snapshot once the connection is gone
        st = got.get("stats")
        if st is None:
            drift.append(dict(step, what="the real connection ended, the model's did not")); break
        for key, off in (("store_len", 1), ("slab_len", 1), ("num_recv_streams", 1), ("num_local_reset_streams", 0), ("num_remote_reset_streams", 0),
                         ("num_local_error_reset_streams", 0), ("refused", 0)):      # off: the filler stream is open all along
            if st[key] != p[key] + off:
                drift.append(dict(step, what="%s: code %s model %s" % (key, st[key], p[key] + off)))
        lp = R(p["last_processed_id"]) if p["last_processed_id"] else FILLER
        if st["last_processed_id"] != lp:
            drift.append(dict(step, what="last_processed_id: code %s model %s" % (st["last_processed_id"], lp)))
        real = {s["id"]: s for s in st["streams"] if s["id"] != FILLER}
        want = {R(int(sid)): v for sid, v in p["streams"].items() if v["linked"]}
        if sorted(real) != sorted(want):
            drift.append(dict(step, what="linked stream ids: code %s model %s" % (sorted(real), sorted(want))))
        for sid, v in want.items():
            s = real.get(sid)
            if s is None: continue
            for key, w in (("state", st_str(v["st"], sid)), ("is_counted", v["is_counted"]), ("is_pending_accept", v["is_pending_accept"]),
                           ("is_pending_send", v["is_pending_send"]), ("ref_count", v["ref_count"]), ("reset_at", v["reset_at"]),
                           ("pending_send_empty", v["pending_send_empty"]),
                           # abstractions of the model: these stay at their idle values
                           ("is_pending_open", False), ("is_pending_push", False), ("is_pending_window_update", False), ("buffered", 0)):
                if s[key] != w:
                    drift.append(dict(step, what="stream %d %s: code %r model %r" % (sid, key, s[key], w)))
    for m in panics:
        drift.append({"step": 0, "a": ["*"], "what": "panic in the replay: " + m})
    return drift


def features(exps):
    """what the compared steps exercised (measured on the model's expected values)"""
    ft = {}
    def hit(k): ft[k] = ft.get(k, 0) + 1
    for exp in exps.values():
        blocked = False
        for x in exp:
            p = x["p"]
            if x["a"][0] == "block": blocked = True
            if x["a"][0] == "unblock": blocked = False
            if blocked: hit("steps_while_socket_blocked")
            linked = [v for v in p["streams"].values() if v["linked"]]
            if any(v["slot"] > 0 for v in linked): hit("tombstone_linked")
            if p["slab_len"] > p["store_len"]: hit("unlinked_records_in_slab")
            if p["refused"]: hit("refused_pending")
            if p["num_remote_reset_streams"] > sum(1 for v in linked if v["is_pending_accept"] and v["st"]["init"] == "Remote"): hit("remote_reset_count_above_linked")
            if p["num_local_reset_streams"] > sum(1 for v in linked if v["reset_at"]): hit("local_reset_count_above_linked")
            if any(v["is_pending_send"] for v in linked): hit("stream_in_pending_send")
            if any(v["st"]["cause"] == "Sched" for v in linked): hit("scheduled_reset")
            for f in x["fr"]: hit("frame_%s_%s" % (f[0], REASON.get(f[2], f[2]) if f[0] in ("GOAWAY", "RST_STREAM") else ("es" if f[3] else "")))
    return ft


def main():
    num, seed, outdir = int(sys.argv[1]), int(sys.argv[2]), sys.argv[3]
    cfgs = [sys.argv[sys.argv.index("--cfg") + 1]] if "--cfg" in sys.argv else ["MC_Streams_export.cfg", "MC_Streams_export_b.cfg"]
    cfg = ",".join(cfgs)
    corrupt = "--corrupt" in sys.argv
    if "--spec" in sys.argv:            # binding experiments: a (mutated) copy of /verif/spec
        global SPEC
        SPEC = os.path.abspath(sys.argv[sys.argv.index("--spec") + 1])
    os.makedirs(outdir, exist_ok=True)
    behs, states, mv = [], 0, False
    for i, c in enumerate(cfgs):
        b1, s1, m1 = tlc_behaviours(max(1, num // len(cfgs)), seed + i, outdir, c)
        behs += b1; states += s1; mv = mv or m1
    scn_path = os.path.join(outdir, "conform_streams.scn"); exps, scns = {}, []
    for i, b in enumerate(behs):
        name = "conformStreams-%d-%d" % (seed, i)
        scn, exp = to_scenario(b, name); exps[name] = exp; scns.append(scn)
        if corrupt:   # binding experiment: the model "forgets" to count the first stream it opens
            for x in exp:
                if x["a"][0] == "recv_headers" and x["p"]["num_recv_streams"] > 0:
                    x["p"] = dict(x["p"], num_recv_streams=x["p"]["num_recv_streams"] - 1); break
    with open(scn_path, "w") as f:
        for scn in scns: f.write(json.dumps(scn) + "\n")
    # run the simulator, NPAR processes side by side
    parts, procs = [], []
    for j in range(NPAR):
        mine = scns[j::NPAR]
        if not mine: continue
        pj = os.path.join(outdir, "conform_streams.part%d.scn" % j); tj = os.path.join(outdir, "conform_streams.part%d.ndjson" % j)
        with open(pj, "w") as f:
            for scn in mine: f.write(json.dumps(scn) + "\n")
        procs.append((subprocess.Popen([SIM, "--scenario", pj, "--out", tj, "--quiet"], stdout=subprocess.PIPE, stderr=subprocess.STDOUT, text=True), pj, tj))
    tr = os.path.join(outdir, "conform_streams.ndjson")
    runs, name = {}, None
    with open(tr, "w") as allf:
        for pr, pj, tj in procs:
            so, _ = pr.communicate()
            if pr.returncode != 0:
                print(so[-2000:]); raise SystemExit(2)
            for line in open(tj):
                allf.write(line)
                e = json.loads(line)
                if e["t"] == "cfg":
                    name = e["name"]; runs[name] = []
                else:
                    runs[name].append(e)
            os.remove(pj); os.remove(tj)
    drifts, conformant, steps = [], 0, 0
    for name, exp in exps.items():
        d = compare(exp, runs.get(name, [])); steps += len(exp)
        if d: drifts.append({"run": name, "drift": d[:6]})
        else: conformant += 1
    nact = {}
    for b in behs:
        for h in b["hist"]: nact[h["a"][0]] = nact.get(h["a"][0], 0) + 1
    res = {"behaviours": len(behs), "conformant": conformant, "steps_compared": steps, "tlc_states": states, "model_violation": mv,
           "drift": drifts[:20], "trace": tr, "scenarios": scn_path, "sample": behs[0]["hist"][:3] if behs else None,
           "actions": nact, "features": features(exps), "cfg": cfg, "corrupt": corrupt}
    json.dump(res, open(os.path.join(outdir, "conform_streams.json"), "w"), indent=1)
    print("conform_streams: %d behaviours, %d conformant, %d steps compared, %d with drift%s" %
          (len(behs), conformant, steps, len(drifts), (", MODEL VIOLATION %s" % mv) if mv else ""))
    for d in drifts[:5]:
        print("DRIFT:", json.dumps(d)[:900])


if __name__ == "__main__":
    main()
