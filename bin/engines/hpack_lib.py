#!/usr/bin/env python3
"""Shared plumbing of the HPACK engines (C10, C11).  stdlib only.

Division of labour (COMMON.md): TLC checks the models and enumerates the cases, the Rust harness
(harness/src/bin/hpack.rs) drives the REAL h2 encoder / decoder / Huffman coder, TLC
(spec/trace/Trace_Hpack.tla) decides conformance of what was recorded.  This file only shuttles data:
runs TLC, turns TLC's abstract cases into harness input, adds seeded random cases, splits traces into
chunks validated by parallel TLC processes, and merges the verdicts into result.json.
"""
import json, os, re, subprocess, sys, time, random, shutil
from concurrent.futures import ThreadPoolExecutor

VERIF = '/verif'
SPEC = VERIF + '/spec'
# (HPACK_HARNESS: harness binary built against a mutated scratch copy of h2, for binding experiments only)
HARNESS = os.environ.get('HPACK_HARNESS', VERIF + '/harness/target/debug/hpack')
JOPTS = '-Xss1g -Xmx3g -XX:+UseParallelGC -XX:ParallelGCThreads=2 -DTLA-Library=' + SPEC


class ToolError(Exception):
    pass


def work_dir(tag):
    d = os.path.join(VERIF, '.work', 'hpack', tag)
    shutil.rmtree(d, ignore_errors=True)
    os.makedirs(d, exist_ok=True)
    return d


def run_tlc(moddir, module, cfg, meta, env=None, workers=1, timeout=1200, coverage=False, heap=None):
    """Runs TLC; returns dict(out=stdout, distinct, generated, wall, ok)."""
    e = dict(os.environ)
    e['JAVA_TOOL_OPTIONS'] = JOPTS if heap is None else JOPTS.replace('-Xmx3g', '-Xmx' + heap)
    if env:
        e.update(env)
    os.makedirs(meta, exist_ok=True)
    cmd = ['timeout', str(timeout), os.path.join(os.path.dirname(os.path.dirname(os.path.dirname(os.path.abspath(__file__)))), 'bin', 'tlcw'), '-workers', str(workers), '-metadir', meta, '-cleanup', '-noGenerateSpecTE']
    if coverage:
        cmd += ['-coverage', '1']
    cmd += ['-config', cfg, module + '.tla']
    t0 = time.time()
    p = subprocess.run(cmd, cwd=moddir, env=e, stdout=subprocess.PIPE, stderr=subprocess.STDOUT, text=True)
    wall = time.time() - t0
    out = p.stdout
    m = re.findall(r'(\d+) states generated, (\d+) distinct states found', out)
    gen, dist = (int(m[-1][0]), int(m[-1][1])) if m else (0, 0)
    ok = 'Model checking completed. No error has been found.' in out
    shutil.rmtree(meta, ignore_errors=True)
    return dict(out=out, generated=gen, distinct=dist, wall=round(wall, 2), ok=ok, rc=p.returncode)


def tlc_fail(r, what):
    tail = '\n'.join(l for l in r['out'].splitlines() if not re.match(r'^(Semantic|Linting|Parsing|"\{)', l))[-3000:]
    raise ToolError('%s: TLC did not complete (rc=%s)\n%s' % (what, r['rc'], tail))


def never_taken(out, ignore=()):
    """Actions whose coverage count is 0 in a `-coverage 1` run (vacuity check)."""
    bad = []
    for m in re.finditer(r'^<(\w+) line \d+, col \d+ to line \d+, col \d+ of module (\w+)>: (\d+):(\d+)', out, re.M):
        if int(m.group(4)) == 0 and m.group(1) not in ignore:
            bad.append(m.group(1))
    return sorted(set(bad))


def printed_cases(out):
    """Lines printed by PrintT(ToJson(x)): a TLA+ string literal holding JSON."""
    res = []
    for l in out.splitlines():
        if l.startswith('"{') or l.startswith('"['):
            res.append(json.loads(json.loads(l)))
    return res


def run_harness(args, timeout=1500):
    t0 = time.time()
    p = subprocess.run([HARNESS] + [str(a) for a in args], stdout=subprocess.PIPE, stderr=subprocess.PIPE, text=True, timeout=timeout)
    if p.returncode != 0:
        raise ToolError('harness %s failed rc=%s: %s' % (args[0], p.returncode, p.stderr[-2000:]))
    return time.time() - t0


def write_ndjson(path, items):
    with open(path, 'w') as f:
        for x in items:
            f.write(json.dumps(x, separators=(',', ':')) + '\n')


def read_lines(path):
    with open(path) as f:
        return [l for l in f if l.strip()]


def validate(trace_lines, wd, tag, nchunks=10, timeout=1500):
    """Trace validation by TLC (Trace_Hpack.tla), nchunks TLC processes in parallel.
    Every line is a self-contained case, so any partition is sound.  Returns merged verdict."""
    n = len(trace_lines)
    if n == 0:
        return dict(viols=[], hits={}, consumed=0, total=0, wall=0.0, generated=0, distinct=0)
    k = max(1, min(nchunks, (n + 199) // 200))
    # round-robin keeps expensive kinds spread evenly; remember original line numbers
    chunks = [[] for _ in range(k)]
    index = [[] for _ in range(k)]
    for i, l in enumerate(trace_lines):
        chunks[i % k].append(l)
        index[i % k].append(i)
    t0 = time.time()

    def one(j):
        tf = os.path.join(wd, '%s.%d.ndjson' % (tag, j))
        of = os.path.join(wd, '%s.%d.verdict.json' % (tag, j))
        with open(tf, 'w') as f:
            f.writelines(chunks[j])
        r = run_tlc(SPEC + '/trace', 'Trace_Hpack', 'Trace_Hpack.cfg', os.path.join(wd, 'meta_%s_%d' % (tag, j)),
                    env={'TRACE': tf, 'OUT': of}, workers=1, timeout=timeout, heap='2g')
        if not r['ok'] or not os.path.exists(of):
            tlc_fail(r, 'trace validation %s chunk %d' % (tag, j))
        v = json.load(open(of))
        if v['consumed'] != v['total'] or v['total'] != len(chunks[j]):
            raise ToolError('trace %s chunk %d not fully consumed: %s/%s' % (tag, j, v['consumed'], v['total']))
        for x in v['viols']:
            x['line'] = index[j][x['line'] - 1]
        os.remove(tf)
        return v, r

    with ThreadPoolExecutor(max_workers=k) as ex:
        res = list(ex.map(one, range(k)))
    viols, hits, gen, dist = [], {}, 0, 0
    for v, r in res:
        viols += v['viols']
        for a, b in (v['hits'] or {}).items():
            hits[a] = hits.get(a, 0) + b
        gen += r['generated']
        dist += r['distinct']
    viols.sort(key=lambda x: x['line'])
    return dict(viols=viols, hits=hits, consumed=n, total=n, wall=round(time.time() - t0, 2), generated=gen, distinct=dist, chunks=k)


# ------------------------------------------------------------------------------------------------
# abstract instruction (TLC) -> harness instruction JSON with representation knobs
# ------------------------------------------------------------------------------------------------
ERR_RAW = {
    # RFC 7541 5.2 / 5.1 malformed octets, several concrete shapes per class
    'trunc': ['00036162', '40', '3f', 'ff', '0001618541', '000161', '7f80'],
    'huff': ['0001618100',          # zero padding
             '00016184ffffffff',    # EOS decoded
             '0001618207ff',        # 11 bits of padding
             '0081ff0161',          # name: a full octet of padding
             '40016182fffe'],       # padding not all ones after 0xff..: 0xfffe
    'intbig': ['ffffffffff7f', '3fffffffff7f', '00ffffffffff7f', '7fffffffffff01'],
}


def concretize(ins_list, variant):
    """variant picks the representation: bit0 huffman names, bit1 huffman values, bit2 non-minimal integers."""
    out = []
    for j, x in enumerate(ins_list):
        k = x['k']
        if k == 'err':
            alts = ERR_RAW[x['e']]
            out.append({'k': 'raw', 'hex': alts[(variant + j) % len(alts)]})
        else:
            y = {'k': k, 'i': x['i'], 'n': x.get('n', ''), 'v': x.get('v', '')}
            y['hn'] = bool(variant & 1)
            y['hv'] = bool(variant & 2)
            if variant & 4:
                y['ip'] = 1
                y['sp'] = 1 if (variant & 8) else 0
            out.append(y)
    return out


def esc(b):
    return ''.join(chr(c) if 0x20 <= c < 0x7f and c not in (0x25, 0x22, 0x5c) else '%%%02x' % c for c in b)


def summarize_hits(hits, prefix):
    return {k: v for k, v in sorted(hits.items()) if k.startswith(prefix)}


def finish(outdir, result):
    os.makedirs(outdir, exist_ok=True)
    with open(os.path.join(outdir, 'result.json'), 'w') as f:
        json.dump(result, f, indent=1, sort_keys=True)
