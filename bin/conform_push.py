#!/usr/bin/env python3
"""Spec -> implementation conformance for the server-push implementation model (H2Push.tla), both roles.
TLC (simulation, seeded) generates behaviours of MC_Push under schedules the simulator can reproduce (one application call /
peer frame / time step per quiescence, the connection task drains after each - except between "block" and "unblock", when the
endpoint's socket takes no bytes and nothing is popped from pending_send / pending_open); each becomes a scenario for the
simulator: role "s" -> mode Bs (REAL h2 server pushing, scripted raw-frame client), role "c" -> mode Bc (REAL h2 client, scripted
server sending PUSH_PROMISE).  After every step the frames the real endpoint wrote (type, stream, END_STREAM, error code, promised
id / GOAWAY last id), the results of the API calls (push_request / send_response / send_data ok|err; client: poll_push /
poll_response results) and the guarded statistics snapshot (store_len, slab_len, num_send_streams, max_send_streams,
num_recv_streams, num_local_reset_streams, num_local_error_reset_streams and EVERY record of the slab, linked or not: state,
is_counted, is_pending_push, is_pending_open, is_pending_send, is_pending_accept, ref_count, reset_at, pending_send empty) are
compared with the model.  A panic the model predicts (finding P1/P2: pop_frame's unwrap) must happen, at that step; any other
panic is DRIFT.  Mismatch = DRIFT (diagnostic).
Server role: the model's parents 1, 3 are the real streams 3, 5; real stream 1 is a "filler" request whose 5000-octet DATA frame
fills the codec when the schedule blocks the socket.  Pushed ids are the same in model and code (2, 4, ..).
usage: conform_push.py <num behaviours> <seed> <outdir> [--cfg A.cfg,B.cfg] [--corrupt] [--spec <dir>]
   -> <outdir>/conform_push.json   (env H2SIM = the simulator binary; --spec: a (mutated) copy of /verif/spec)"""
import sys, os, json, subprocess, re, shutil

VERIF = os.path.dirname(os.path.dirname(os.path.abspath(__file__)))
TLCW = os.path.join(VERIF, "bin", "tlcw")
SPEC = os.path.join(VERIF, "spec")
SIM = os.environ.get("H2SIM") or os.path.join(VERIF, "harness", "target", "debug", "sim")
RESET_DUR_MS, TICK_MS = 400, 450
NPAR = 8
FILLER, FILL_BYTES = 1, 5000
UNL = 1000
CONN = ("pop_frame", "clear_expired", "conn_drop", "idle_close", "poll")
REASON = {0: "NO_ERROR", 1: "PROTOCOL_ERROR", 2: "INTERNAL_ERROR", 3: "FLOW_CONTROL_ERROR", 5: "STREAM_CLOSED", 7: "REFUSED_STREAM",
          8: "CANCEL", 11: "ENHANCE_YOUR_CALM"}
DEFAULT_CFGS = ["MC_Push_export.cfg", "MC_Push_export_b.cfg", "MC_Push_export_client.cfg", "MC_Push_export_client_b.cfg"]


def tlc_behaviours(num, seed, outdir, cfg):
    md = os.path.join(outdir, "tlcmeta"); os.makedirs(md, exist_ok=True)
    env = dict(os.environ, JAVA_TOOL_OPTIONS="-Xss1g -Xmx4g -DTLA-Library=%s" % SPEC)
    cmd = ["timeout", "900", TLCW, "-workers", "1", "-metadir", md, "-cleanup", "-noGenerateSpecTE", "-config", cfg,
           "MC_Push.tla", "-simulate", "num=%d" % num, "-depth", "100", "-seed", str(seed)]
    r = subprocess.run(cmd, cwd=os.path.join(SPEC, "mc"), env=env, stdout=subprocess.PIPE, stderr=subprocess.STDOUT, text=True)
    shutil.rmtree(md, ignore_errors=True)
    out, seen = [], set()
    for line in r.stdout.splitlines():
        if line.startswith('<<"REPLAY"'):
            js = json.loads('"' + re.match(r'<<"REPLAY", "(.*)">>$', line).group(1) + '"')
            if js not in seen:
                seen.add(js); out.append(json.loads(js))
    if not out:
        print(r.stdout[-3000:]); raise SystemExit(2)
    m = re.search(r"(\d+) states checked", r.stdout)
    mv = re.search(r"Invariant (\w+) is violated", r.stdout)
    return out, int(m.group(1)) if m else 0, (mv.group(1) if mv else ("error" if "Error:" in r.stdout else False))


def st_str(st, sid):
    l = {"AH": "AwaitingHeaders", "S": "Streaming"}.get(st["l"], "?")
    k = st["k"]
    if k in ("Idle", "ReservedLocal", "ReservedRemote"): return k
    if k in ("HalfClosedRemote", "HalfClosedLocal"): return "%s(%s)" % (k, l)
    c, r = st["cause"], REASON.get(st["reason"], str(st["reason"]))
    if c == "EndStream": return "Closed(EndStream)"
    if c == "Reset": return "Closed(Error(Reset(StreamId(%d), %s, %s)))" % (sid, r, st["init"])
    if c == "ResetAfterES": return "Closed(ErrorAfterEndStream(Reset(StreamId(%d), %s, %s)))" % (sid, r, st["init"])
    if c == "Sched": return "Closed(ScheduledLibraryReset(%s))" % r
    if c == "GoAway": return "Closed(Error(GoAway(b'', %s, %s)))" % (r, st["init"])
    return "Closed(%s)" % c


class Map:
    """model stream id -> real stream id"""
    def __init__(self, role):
        self.role = role
    def R(self, s):
        if self.role == "s":
            return s + 2 if s % 2 == 1 else s
        return s


def frames_of(evl, M, last_default):
    out = []
    for f in evl:
        if f["ty"] == "GOAWAY": out.append(("GOAWAY", 0, False, f["code"], M.R(f["last"]) if f["last"] else last_default))
        elif f["ty"] == "RST_STREAM": out.append(("RST_STREAM", M.R(f["sid"]), False, f["code"], 0))
        elif f["ty"] == "PUSH_PROMISE": out.append(("PUSH_PROMISE", M.R(f["sid"]), False, 0, f["prom"]))
        else: out.append((f["ty"], M.R(f["sid"]), f["es"], 0, 0))
    return out


def hdr(sid, eos=True):
    return {"k": "headers", "sid": sid, "hid": 0, "fields": [], "eos": eos, "frag": 0, "huff": False, "status": 0, "req": True, "method": "GET", "tag": sid}


def steps_of(b):
    """group the history: one entry per non-connection step, with the connection steps that follow merged into it"""
    exp, cur = [], None
    for h in b["hist"]:
        a = h["a"]
        if a[0] in CONN:
            if cur is not None:
                cur["p"] = h["p"]; cur["ev"] += h["ev"]
            continue
        cur = {"a": a, "res": h["res"], "p": h["p"], "ev": list(h["ev"])}; exp.append(cur)
    return exp


def to_scenario_server(b, name):
    M = Map("s")
    parents = sorted(b["parents"]); NP = len(parents)
    peer = [{"k": "settings_ack"}, hdr(FILLER)]
    for p in parents: peer += [{"k": "wait_q"}, hdr(M.R(p))]
    env, exp = [], []
    pops = {p: [] for p in parents}       # parent programs
    push_ops = {}                         # pushed id -> its own program (list, shared with the Push op)
    fill = []
    nq = NP
    for x in steps_of(b):
        a = x["a"]; nq += 1
        e = {"k": nq, "a": a, "res": x["res"], "p": x["p"], "fr": frames_of(x["ev"], M, M.R(parents[-1])), "ended": x["p"]["ended"], "panic": x["p"]["panic"]}
        exp.append(e)
        ps = {"k": "auto"}
        w = {"op": "wait_q", "k": nq}
        if a[0] == "push_request":
            ops = []; push_ops[a[2]] = ops
            pops[a[1]] += [w, {"op": "push", "tag": a[2], "hid": 0, "ops": ops}]
            e["api"] = ("push_request", M.R(a[1]), x["res"])
        elif a[0] == "send_response":
            tgt = pops[a[1]] if a[1] in pops else push_ops[a[1]]
            tgt += [w, {"op": "response", "status": 200, "hid": 0, "eos": a[2]}]
            e["api"] = ("send_response", M.R(a[1]), x["res"])
        elif a[0] == "send_data":
            tgt = pops[a[1]] if a[1] in pops else push_ops[a[1]]
            tgt += [w, {"op": "data", "n": 0, "eos": a[2]}]
            e["api"] = ("send_data", M.R(a[1]), x["res"])
        elif a[0] == "send_reset":
            tgt = pops[a[1]] if a[1] in pops else push_ops[a[1]]
            tgt += [w, {"op": "reset", "code": 8}]
        elif a[0] == "drop_send":
            tgt = pops[a[1]] if a[1] in pops else push_ops[a[1]]
            tgt += [w, {"op": "drop"}]
        elif a[0] == "recv_reset": ps = {"k": "rst", "sid": M.R(a[1]), "code": 8}
        elif a[0] == "recv_wu": ps = {"k": "wu", "sid": M.R(a[1]), "inc": 1}
        elif a[0] == "recv_headers":
            ps = {"k": "headers", "sid": M.R(a[1]), "hid": 0, "fields": [["x-t", "1"]], "eos": a[2], "frag": 0, "huff": False, "status": 0,
                  "req": False, "method": "GET", "tag": a[1]}
        elif a[0] == "recv_data": ps = {"k": "data", "sid": M.R(a[1]), "n": 1, "eos": False, "pad": None}
        elif a[0] == "settings_max": ps = {"k": "settings", "vals": [[3, a[1]]]}
        elif a[0] == "settings_nopush": ps = {"k": "settings", "vals": [[2, 0]]}
        elif a[0] == "goaway": ps = {"k": "goaway", "last": 0 if a[1] == 0 else 2147483647, "code": 0, "dbg": 0}
        elif a[0] == "peer_eof": env.append({"at": "q", "n": nq, "op": {"k": "fault", "ep": 1, "kind": "eof"}})
        elif a[0] == "block":
            env.append({"at": "q", "n": nq, "op": {"k": "budget", "ep": 1, "n": 0}})
            fill = [w, {"op": "response", "status": 200, "hid": 0, "eos": False}, {"op": "data", "n": FILL_BYTES, "eos": False}]
        elif a[0] == "unblock":
            env.append({"at": "q", "n": nq, "op": {"k": "budget", "ep": 1, "n": None}})
        elif a[0] == "tick":
            env.append({"at": "q", "n": nq, "op": {"k": "time", "ms": TICK_MS}})
            peer += [{"k": "wait_q"}, ps]
            nq += 1
            env.append({"at": "q", "n": nq, "op": {"k": "conn", "ep": 1, "op": "accept_allow", "n": 0}})
            e2 = dict(e, k=nq, a=["tick_poll"], fr=[]); e2.pop("api", None); exp.append(e2)
            e["fr"], e2["fr"] = [], e["fr"]
            e["p"] = None            # the store is compared after the poll only
        elif a[0] == "idle": pass
        else: raise SystemExit("unknown action %r" % (a,))
        peer += [{"k": "wait_q"}, ps]
    last = nq + 3
    peer += [{"k": "wait_q"}, {"k": "auto"}, {"k": "wait_q"}, {"k": "auto"}]
    hold = [{"op": "wait_q", "k": last}]
    for ops in push_ops.values(): ops += hold
    srv = [{"ops": fill + hold, "read": {"script": hold}}]
    srv += [{"ops": pops[p] + hold} for p in parents]
    settings = [] if b["initmax"] >= UNL else [[3, b["initmax"]]]
    scn = {"name": name, "mode": "Bs",
           "scfg": {"reset_max": b["resetmax"], "reset_dur_ms": RESET_DUR_MS, "local_error_reset_max": b["errmax"]},
           "peer_cfg": {"settings": settings, "ack_settings": False, "ack_ping": True, "grant": "none", "respond": False},
           "srv": srv, "peer": peer, "env": env, "sched": {"seed": 1, "then": "fifo"}, "coop": False}
    return scn, exp


def rec_tuple(sid, linked, v):
    return (sid, linked, st_str(v["st"], sid), v["is_counted"], v["is_pending_push"], v["is_pending_open"], v["is_pending_send"],
            v["is_pending_accept"], v["ref_count"], v["reset_at"], v["pending_send_empty"])


RKEYS = ("id", "linked", "state", "is_counted", "is_pending_push", "is_pending_open", "is_pending_send", "is_pending_accept", "ref_count", "reset_at",
         "pending_send_empty")


def compare(exp, events, role):
    M = Map(role)
    EP = "s" if role == "s" else "c"
    skip_sid = FILLER if role == "s" else -1
    off = 1 if role == "s" else 0
    drift, nq, fr, api, per_q, panics = [], 0, [], [], {}, []
    for e in events:
        t = e["t"]
        if t == "out" and e["ep"] == EP:
            f = e["f"]
            if f["ty"] == "GOAWAY": fr.append(("GOAWAY", 0, False, f["cl"], f["last"]))
            elif f["sid"] == skip_sid: pass
            elif f["ty"] == "RST_STREAM": fr.append(("RST_STREAM", f["sid"], False, f["cl"], 0))
            elif f["ty"] == "PUSH_PROMISE": fr.append(("PUSH_PROMISE", f["sid"], False, 0, f["prom"]))
            elif f["ty"] in ("HEADERS", "DATA"): fr.append((f["ty"], f["sid"], f["es"], 0, 0))
        elif t == "api" and e["ep"] == EP:
            api.append((e["call"], e["sid"], e["res"], e.get("psid", 0)))
        elif t == "stats" and e["ep"] == EP and "at" not in e:
            per_q.setdefault(nq + 1, {})["stats"] = e["s"]; per_q[nq + 1]["conn_done"] = e.get("conn_done", False)
        elif t == "q":
            per_q.setdefault(nq + 1, {}).update(fr=fr, api=api)
            nq = e["n"]; fr = []; api = []
        elif t == "panic":
            per_q.setdefault(nq + 1, {}).setdefault("panic", []).append(e.get("msg", "")[:160])
        elif t == "drop_panic":
            panics.append(e.get("msg", "")[:160])
    predicted = False
    for x in exp:
        step = {"step": x["k"], "a": x["a"]}
        got = per_q.get(x["k"] + 1)
        if got is None:
            drift.append(dict(step, what="no quiescence reached")); continue
        if not x["panic"] and x["fr"] != got.get("fr", []):      # (frames buffered in the poll that panics never reach the socket)
            drift.append(dict(step, what="frames written: code %s model %s" % (got.get("fr", []), x["fr"])))
        if "api" in x:
            call, sid, res = x["api"]
            real = [r for (c, s, r, _) in got.get("api", []) if c == call and s == sid]
            if real != [res]:
                drift.append(dict(step, what="%s(%d): code %s model %s" % (call, sid, real, res)))
        for call, want in x.get("apis", []):
            real = [(c, r) for (c, s, r, _) in got.get("api", []) if c == call and r != "pending"]
            if [r for _, r in real] != want:
                drift.append(dict(step, what="%s results: code %s model %s" % (call, [r for _, r in real], want)))
        if x["panic"] and x["p"]["why"] == "for_each_debug_assert":
            # finding P11: Store::try_for_each panics when a callback removes two ids; whether it happens depends on the order of the id map
            # (swap_remove), which the model does not keep: possible, not certain - both outcomes are accepted, nothing is compared afterwards
            predicted = True
            bad = [m for m in got.get("panic", []) if not ("store.rs" in m and "new_len" in m) and "PoisonError" not in m and "poisoned" not in m]
            if bad: drift.append(dict(step, what="panic: %s" % bad[0]))
            break
        if x["panic"]:
            predicted = True
            sig = {"pp_unwrap": ("prioritize.rs", "unwrap"), "queue_open_debug_assert": ("stream.rs", "!stream.is_pending_send"),
                   "inc_num_recv_streams": ("counts.rs", "can_inc_num_recv_streams")}.get(x["p"]["why"], ("?", "?"))
            if not any(sig[0] in m and sig[1] in m for m in got.get("panic", [])):
                drift.append(dict(step, what="the model predicts a panic (%s), the code: %s" % (x["p"]["why"], got.get("panic", []))))
            break
        if got.get("panic"):
            drift.append(dict(step, what="panic: %s" % got["panic"][0])); break
        p = x["p"]
        if p is None: continue
        if x["ended"]:
            if "stats" in got and not got.get("conn_done"):      # (a client's store outlives its connection: the SendRequest handle keeps it)
                drift.append(dict(step, what="the model's connection ended, the real one still runs"))
            break
        st = got.get("stats")
        if st is None or got.get("conn_done"):
            drift.append(dict(step, what="the real connection ended, the model's did not")); break
        for key, o in (("store_len", off), ("slab_len", off), ("num_send_streams", 0), ("num_recv_streams", off if role == "s" else 0),
                       ("num_local_reset_streams", 0), ("num_local_error_reset_streams", 0)):
            if st[key] != p[key] + o:
                drift.append(dict(step, what="%s: code %s model %s" % (key, st[key], p[key] + o)))
        if role == "s":
            ms = p["max_send_streams"]
            if (st["max_send_streams"] >= 2147483647) != (ms >= UNL) or (ms < UNL and st["max_send_streams"] != ms):
                drift.append(dict(step, what="max_send_streams: code %s model %s" % (st["max_send_streams"], ms)))
        real = sorted([tuple([s["id"], True] + [s[k] for k in RKEYS[2:]]) for s in st["streams"] if s["id"] != skip_sid] +
                      [tuple([s["id"], False] + [s[k] for k in RKEYS[2:]]) for s in st["unlinked"] if s["id"] != skip_sid])
        want = []
        for sid, v in p["recs"].items():
            for slot in ("m", "t"):
                if v[slot]["in_slab"]: want.append(rec_tuple(M.R(int(sid)), v[slot]["linked"], v[slot]))
        want.sort()
        if real != want:
            rs, ws = set(real), set(want)
            drift.append(dict(step, what="records: code-only %s model-only %s (fields %s)" % (sorted(rs - ws), sorted(ws - rs), list(RKEYS))))
    if not predicted:
        for m in panics:
            drift.append({"step": 0, "a": ["*"], "what": "panic at teardown: " + m})
    return drift


def features(exps):
    ft = {}
    def hit(k): ft[k] = ft.get(k, 0) + 1
    for exp in exps.values():
        blocked = False
        for x in exp:
            if x["a"][0] == "block": blocked = True
            if x["a"][0] == "unblock": blocked = False
            if blocked: hit("steps_while_socket_blocked")
            if x["panic"]: hit("predicted_panic")
            p = x["p"]
            if p is None: continue
            recs = [v[s] for v in p["recs"].values() for s in ("m", "t") if v[s]["in_slab"]]
            if any(r["is_pending_push"] for r in recs): hit("stream_pending_push")
            if any(r["is_pending_open"] for r in recs): hit("stream_pending_open")
            if any(r["is_pending_accept"] for r in recs): hit("promise_waiting_to_be_polled")
            if any(r["is_pending_open"] and r["st"]["k"] == "Closed" and r["st"]["init"] == "Remote" for r in recs): hit("pending_open_reset_by_peer")
            if any(not r["linked"] for r in recs): hit("unlinked_records_in_slab")
            if p["recs"] and any(v["t"]["in_slab"] for v in p["recs"].values()): hit("send_reset_record")
            for f in x["fr"]: hit("frame_%s%s" % (f[0], ("_" + REASON.get(f[3], str(f[3]))) if f[0] in ("GOAWAY", "RST_STREAM") else ("_es" if f[2] else "")))
            if "api" in x: hit("api_%s_%s" % (x["api"][0], x["api"][2]))
    return ft


def main():
    num, seed, outdir = int(sys.argv[1]), int(sys.argv[2]), sys.argv[3]
    cfgs = sys.argv[sys.argv.index("--cfg") + 1].split(",") if "--cfg" in sys.argv else [c for c in DEFAULT_CFGS if os.path.exists(os.path.join(SPEC, "mc", c))]
    corrupt = "--corrupt" in sys.argv
    if "--spec" in sys.argv:
        global SPEC
        SPEC = os.path.abspath(sys.argv[sys.argv.index("--spec") + 1])
    os.makedirs(outdir, exist_ok=True)
    behs, states, mv = [], 0, False
    for i, c in enumerate(cfgs):
        b1, s1, m1 = tlc_behaviours(max(1, num // len(cfgs)), seed + i, outdir, c)
        behs += b1; states += s1; mv = mv or m1
    scn_path = os.path.join(outdir, "conform_push.scn"); exps, scns, roles = {}, [], {}
    for i, b in enumerate(behs):
        name = "conformPush-%s-%d-%d" % (b["role"], seed, i)
        scn, exp = (to_scenario_server if b["role"] == "s" else to_scenario_client)(b, name)
        exps[name] = exp; scns.append(scn); roles[name] = b["role"]
        if corrupt:     # binding experiment: the model "forgets" that a promised stream is a record of the store
            for x in exp:
                if x["a"][0] in ("push_request", "recv_pp") and x["p"] and x["p"]["slab_len"] > 0:
                    x["p"] = dict(x["p"], slab_len=x["p"]["slab_len"] - 1); break
    with open(scn_path, "w") as f:
        for scn in scns: f.write(json.dumps(scn) + "\n")
    procs = []
    for j in range(NPAR):
        mine = scns[j::NPAR]
        if not mine: continue
        pj = os.path.join(outdir, "conform_push.part%d.scn" % j); tj = os.path.join(outdir, "conform_push.part%d.ndjson" % j)
        with open(pj, "w") as f:
            for scn in mine: f.write(json.dumps(scn) + "\n")
        procs.append((subprocess.Popen([SIM, "--scenario", pj, "--out", tj, "--quiet"], stdout=subprocess.PIPE, stderr=subprocess.STDOUT, text=True), pj, tj))
    tr = os.path.join(outdir, "conform_push.ndjson")
    runs, name = {}, None
    with open(tr, "w") as allf:
        for pr, pj, tj in procs:
            so, _ = pr.communicate()
            if pr.returncode != 0:
                print(so[-2000:]); raise SystemExit(2)
            for line in open(tj):
                allf.write(line)
                e = json.loads(line)
                if e["t"] == "cfg":
                    name = e["name"]; runs[name] = []
                else:
                    runs[name].append(e)
            os.remove(pj); os.remove(tj)
    drifts, conformant, steps = [], 0, 0
    for name, exp in exps.items():
        d = compare(exp, runs.get(name, []), roles[name]); steps += len(exp)
        if d: drifts.append({"run": name, "drift": d[:6]})
        else: conformant += 1
    nact = {}
    for b in behs:
        for h in b["hist"]: nact[h["a"][0]] = nact.get(h["a"][0], 0) + 1
    res = {"behaviours": len(behs), "conformant": conformant, "steps_compared": steps, "tlc_states": states, "model_violation": mv,
           "drift": drifts[:20], "trace": tr, "scenarios": scn_path, "sample": behs[0]["hist"][:3] if behs else None,
           "actions": nact, "features": features(exps), "cfg": ",".join(cfgs), "corrupt": corrupt,
           "by_role": {r: sum(1 for b in behs if b["role"] == r) for r in ("s", "c")}}
    json.dump(res, open(os.path.join(outdir, "conform_push.json"), "w"), indent=1)
    print("conform_push: %d behaviours, %d conformant, %d steps compared, %d with drift%s" %
          (len(behs), conformant, steps, len(drifts), (", MODEL VIOLATION %s" % mv) if mv else ""))
    for d in drifts[:5]:
        print("DRIFT:", json.dumps(d)[:1200])


AUTO = ("auto_poll_push", "auto_resp", "auto_drop")


def to_scenario_client(b, name):
    """REAL client, scripted server.  The simulator's client tasks are eager: the model's auto_* steps are merged into the step that
    enables them (like the connection task's); the application's choices are client_start / client_drop_head (ReadPol.start_q)."""
    M = Map("c")
    parents = sorted(b["parents"])
    peer, env, exp = [], [], []
    read = {p: None for p in parents}
    seen_hdr = set()
    groups, cur = [], None
    for h in b["hist"]:
        a = h["a"]
        if a[0] in CONN or a[0] in AUTO:
            if cur is not None:
                cur["p"] = h["p"]; cur["ev"] += h["ev"]
                if a[0] == "auto_poll_push": cur["polls"].append(h["res"])
            continue
        cur = {"a": a, "res": h["res"], "p": h["p"], "ev": list(h["ev"]), "polls": []}; groups.append(cur)
    nq = 0
    for x in groups:
        a = x["a"]; nq += 1
        e = {"k": nq, "a": a, "res": x["res"], "p": x["p"], "fr": frames_of(x["ev"], M, 0), "ended": x["p"]["ended"], "panic": x["p"]["panic"],
             "apis": [("poll_push", x["polls"])]}
        exp.append(e)
        ps = {"k": "auto"}
        if a[0] == "recv_pp":
            fields = [] if a[3] else [[":method", "POST"], [":scheme", "https"], [":authority", "sim.test"], [":path", "/push/%d" % a[2]], ["x-tag", str(a[2])]]
            ps = {"k": "push_promise", "sid": a[1], "promised": a[2], "hid": 0, "fields": fields, "frag": 0, "tag": a[2]}
        elif a[0] == "recv_headers":
            first = a[1] not in seen_hdr; seen_hdr.add(a[1])
            ps = {"k": "headers", "sid": a[1], "hid": 0, "fields": [] if first else [["x-t", "1"]], "eos": a[2], "frag": 0, "huff": False,
                  "status": 200 if first else 0, "req": False, "method": "", "tag": a[1]}
        elif a[0] == "recv_data": ps = {"k": "data", "sid": a[1], "n": 1, "eos": a[2], "pad": None}
        elif a[0] == "recv_reset": ps = {"k": "rst", "sid": a[1], "code": 8}
        elif a[0] == "recv_wu": ps = {"k": "wu", "sid": a[1], "inc": 1}
        elif a[0] == "peer_eof": env.append({"at": "q", "n": nq, "op": {"k": "fault", "ep": 0, "kind": "eof"}})
        elif a[0] == "client_start": read[a[1]] = {"push": True, "start_q": nq}
        elif a[0] == "client_drop_head": read[a[1]] = {"drop_head": True, "start_q": nq}
        elif a[0] == "idle": pass
        else: raise SystemExit("unknown action %r" % (a,))
        peer += [{"k": "wait_q"}, ps]
    last = nq + 3
    peer += [{"k": "wait_q"}, {"k": "auto"}, {"k": "wait_q"}, {"k": "auto"}]
    reqs = [{"tag": p, "method": "GET", "hid": 0, "eos": True, "ready": True, "ops": [],
             "read": dict(read[p] or {"start_q": last + 50}, script=[{"op": "wait_q", "k": last}])} for p in parents]      # RecvStreams are held to the end
    ccfg = {"reset_max": b["resetmax"], "reset_dur_ms": RESET_DUR_MS, "local_error_reset_max": b["errmax"]}
    if b["initmaxrecv"] < UNL: ccfg["max_conc"] = b["initmaxrecv"]
    scn = {"name": name, "mode": "Bc", "ccfg": ccfg,
           "peer_cfg": {"settings": [], "ack_settings": True, "ack_ping": True, "grant": "none", "respond": False},
           "reqs": reqs, "peer": peer, "env": env, "sched": {"seed": 1, "then": "fifo"}, "coop": False}
    return scn, exp


if __name__ == "__main__":
    main()
