----------------------------- MODULE FrameLayout -----------------------------
(***************************************************************************)
(* RFC 9113 section 4.1 (frame header) and 6.1-6.10 (the ten frame types)  *)
(* as a pair of total operators over *abstract wire frames*:               *)
(*                                                                         *)
(*     SerializeFrame(f) : frame -> sequence of octets                          *)
(*     Parse(b)     : octets of exactly one frame -> frame | Err (= ParseOne)*)
(*     ParseStream(b): octets -> sequence of frames (length delimited)     *)
(*     Logical(fs)  : what a receiver must extract from a frame sequence   *)
(*                    (reserved bits, undefined flags and padding dropped, *)
(*                    HEADERS/PUSH_PROMISE + CONTINUATION* merged).        *)
(*                                                                         *)
(* Contract layer for property C12.  Nothing in here is shaped after h2.   *)
(* All 32-bit wire fields are 4-octet tuples (TLC integers are 32-bit      *)
(* signed); a 31-bit field with its reserved/exclusive bit is a pair       *)
(* (bit, 4-tuple with first octet < 128).                                  *)
(***************************************************************************)
EXTENDS Naturals, Integers, Sequences, FiniteSets

Byte == 0..255
HEADER_LEN == 9

B2N(b) == IF b THEN 1 ELSE 0
Bit(x, k) == (x \div (2 ^ k)) % 2 = 1          \* bit k (0 = least significant) of octet x
Zeros(n) == [i \in 1..n |-> 0]
Len3(n) == << n \div 65536, (n \div 256) % 256, n % 256 >>
WithBit(bit, id) == << id[1] + 128 * bit, id[2], id[3], id[4] >>
TopBit(b4) == b4[1] \div 128
Low31(b4) == << b4[1] % 128, b4[2], b4[3], b4[4] >>
From(s, n) == SubSeq(s, n, Len(s))               \* from position n to the end
Z4 == <<0, 0, 0, 0>>

RECURSIVE Flatten(_)
Flatten(ss) == IF ss = <<>> THEN <<>> ELSE Head(ss) \o Flatten(From(ss, 2))

(***************************************************************************)
(* Abstract wire frames.  Common fields:                                   *)
(*   type : name, r : reserved bit of the stream id (0/1), sid : 31-bit id *)
(*   uf   : the undefined flag bits that are set (an octet; "MUST be       *)
(*          ignored" on receipt, "MUST be left unset" when sending)        *)
(* pad = -1 means "PADDED flag unset"; otherwise the Pad Length octet.     *)
(* prio = <<>> means "PRIORITY flag unset"; else <<excl(0/1), dep, weight>>*)
(***************************************************************************)
TypeNo(t) == CASE t = "DATA" -> 0 [] t = "HEADERS" -> 1 [] t = "PRIORITY" -> 2 [] t = "RST_STREAM" -> 3
               [] t = "SETTINGS" -> 4 [] t = "PUSH_PROMISE" -> 5 [] t = "PING" -> 6 [] t = "GOAWAY" -> 7
               [] t = "WINDOW_UPDATE" -> 8 [] t = "CONTINUATION" -> 9
TypeName == <<"DATA", "HEADERS", "PRIORITY", "RST_STREAM", "SETTINGS", "PUSH_PROMISE", "PING", "GOAWAY",
              "WINDOW_UPDATE", "CONTINUATION">>

\* the flag bits RFC 9113 defines for each type (everything else is "undefined")
DefinedFlags(t) == CASE t = "DATA" -> 9 [] t = "HEADERS" -> 45 [] t = "SETTINGS" -> 1 [] t = "PUSH_PROMISE" -> 12
                     [] t = "PING" -> 1 [] t = "CONTINUATION" -> 4 [] OTHER -> 0

PadPrefix(pad) == IF pad = -1 THEN <<>> ELSE <<pad>>
PadSuffix(pad) == IF pad = -1 THEN <<>> ELSE Zeros(pad)
PrioBytes(p) == IF p = <<>> THEN <<>> ELSE WithBit(p[1], p[2]) \o <<p[3]>>

Payload(f) ==
    CASE f.type = "DATA"          -> PadPrefix(f.pad) \o f.data \o PadSuffix(f.pad)
      [] f.type = "HEADERS"       -> PadPrefix(f.pad) \o PrioBytes(f.prio) \o f.frag \o PadSuffix(f.pad)
      [] f.type = "PRIORITY"      -> WithBit(f.excl, f.dep) \o <<f.weight>>
      [] f.type = "RST_STREAM"    -> f.code
      [] f.type = "SETTINGS"      -> Flatten([i \in 1..Len(f.params) |->
                                        << f.params[i][1] \div 256, f.params[i][1] % 256 >> \o f.params[i][2]])
      [] f.type = "PUSH_PROMISE"  -> PadPrefix(f.pad) \o WithBit(f.pr, f.promised) \o f.frag \o PadSuffix(f.pad)
      [] f.type = "PING"          -> f.opaque
      [] f.type = "GOAWAY"        -> WithBit(f.lr, f.last) \o f.code \o f.debug
      [] f.type = "WINDOW_UPDATE" -> WithBit(f.wr, f.incr)
      [] f.type = "CONTINUATION"  -> f.frag
      [] f.type = "EXT"           -> f.payload

Flags(f) ==
    CASE f.type = "DATA"          -> B2N(f.es) + 8 * B2N(f.pad # -1) + f.uf
      [] f.type = "HEADERS"       -> B2N(f.es) + 4 * B2N(f.eh) + 8 * B2N(f.pad # -1) + 32 * B2N(f.prio # <<>>) + f.uf
      [] f.type = "SETTINGS"      -> B2N(f.ack) + f.uf
      [] f.type = "PUSH_PROMISE"  -> 4 * B2N(f.eh) + 8 * B2N(f.pad # -1) + f.uf
      [] f.type = "PING"          -> B2N(f.ack) + f.uf
      [] f.type = "CONTINUATION"  -> 4 * B2N(f.eh) + f.uf
      [] OTHER                    -> f.uf

WireType(f) == IF f.type = "EXT" THEN f.tno ELSE TypeNo(f.type)

FrameHead(len, tno, flags, r, sid) == Len3(len) \o <<tno, flags>> \o WithBit(r, sid)

SerializeFrame(f) == LET p == Payload(f) IN FrameHead(Len(p), WireType(f), Flags(f), f.r, f.sid) \o p

SerializeAll(fs) == Flatten([i \in 1..Len(fs) |-> SerializeFrame(fs[i])])

(***************************************************************************)
(* Parse: the inverse, written from the RFC text, not from Serialize.      *)
(***************************************************************************)
Err(why) == [type |-> "ERR", why |-> why]
IsErr(x) == x.type = "ERR"

\* strip padding: returns <<pad, rest-without-pad-length-and-padding>> or <<-2>> on error
Unpad(padded, p) ==
    IF ~padded THEN <<-1, p>>
    ELSE IF Len(p) = 0 THEN <<-2>>
    ELSE IF p[1] > Len(p) - 1 THEN <<-2>>
    ELSE <<p[1], SubSeq(p, 2, Len(p) - p[1])>>

Undef(t, fl) ==     \* the undefined bits of fl for type t, as an octet
    LET d == DefinedFlags(t)
        F[k \in 0..8] == IF k = 8 THEN 0 ELSE (IF Bit(fl, k) /\ ~Bit(d, k) THEN 2 ^ k ELSE 0) + F[k + 1]
    IN F[0]

RECURSIVE ParseSettings(_)
ParseSettings(p) == IF p = <<>> THEN <<>>
                    ELSE << <<p[1] * 256 + p[2], SubSeq(p, 3, 6)>> >> \o ParseSettings(From(p, 7))

ParseOne(b) ==
    IF Len(b) < HEADER_LEN THEN Err("short") ELSE
    LET len == b[1] * 65536 + b[2] * 256 + b[3]
        tno == b[4]
        fl  == b[5]
        r   == TopBit(SubSeq(b, 6, 9))
        sid == Low31(SubSeq(b, 6, 9))
        p   == From(b, 10)
    IN
    IF Len(p) # len THEN Err("length") ELSE
    IF tno > 9 THEN [type |-> "EXT", tno |-> tno, r |-> r, sid |-> sid, uf |-> fl, payload |-> p] ELSE
    LET t == TypeName[tno + 1]
        uf == Undef(t, fl)
    IN
    CASE t = "DATA" ->
           LET u == Unpad(Bit(fl, 3), p) IN
           IF u[1] = -2 THEN Err("padding")
           ELSE [type |-> t, r |-> r, sid |-> sid, uf |-> uf, es |-> Bit(fl, 0), pad |-> u[1], data |-> u[2]]
      [] t = "HEADERS" ->
           LET u == Unpad(Bit(fl, 3), p) IN
           IF u[1] = -2 THEN Err("padding")
           ELSE IF Bit(fl, 5) /\ Len(u[2]) < 5 THEN Err("priority")
           ELSE LET q == u[2]
                    pr == IF Bit(fl, 5) THEN <<TopBit(SubSeq(q, 1, 4)), Low31(SubSeq(q, 1, 4)), q[5]>> ELSE <<>>
                    fr == IF Bit(fl, 5) THEN From(q, 6) ELSE q
                IN [type |-> t, r |-> r, sid |-> sid, uf |-> uf, es |-> Bit(fl, 0), eh |-> Bit(fl, 2),
                    pad |-> u[1], prio |-> pr, frag |-> fr]
      [] t = "PRIORITY" ->
           IF len # 5 THEN Err("size")
           ELSE [type |-> t, r |-> r, sid |-> sid, uf |-> uf, excl |-> TopBit(SubSeq(p, 1, 4)),
                 dep |-> Low31(SubSeq(p, 1, 4)), weight |-> p[5]]
      [] t = "RST_STREAM" ->
           IF len # 4 THEN Err("size") ELSE [type |-> t, r |-> r, sid |-> sid, uf |-> uf, code |-> p]
      [] t = "SETTINGS" ->
           IF len % 6 # 0 THEN Err("size")
           ELSE [type |-> t, r |-> r, sid |-> sid, uf |-> uf, ack |-> Bit(fl, 0), params |-> ParseSettings(p)]
      [] t = "PUSH_PROMISE" ->
           LET u == Unpad(Bit(fl, 3), p) IN
           IF u[1] = -2 THEN Err("padding")
           ELSE IF Len(u[2]) < 4 THEN Err("size")
           ELSE [type |-> t, r |-> r, sid |-> sid, uf |-> uf, eh |-> Bit(fl, 2), pad |-> u[1],
                 pr |-> TopBit(SubSeq(u[2], 1, 4)), promised |-> Low31(SubSeq(u[2], 1, 4)), frag |-> From(u[2], 5)]
      [] t = "PING" ->
           IF len # 8 THEN Err("size") ELSE [type |-> t, r |-> r, sid |-> sid, uf |-> uf, ack |-> Bit(fl, 0), opaque |-> p]
      [] t = "GOAWAY" ->
           IF len < 8 THEN Err("size")
           ELSE [type |-> t, r |-> r, sid |-> sid, uf |-> uf, lr |-> TopBit(SubSeq(p, 1, 4)),
                 last |-> Low31(SubSeq(p, 1, 4)), code |-> SubSeq(p, 5, 8), debug |-> From(p, 9)]
      [] t = "WINDOW_UPDATE" ->
           IF len # 4 THEN Err("size")
           ELSE [type |-> t, r |-> r, sid |-> sid, uf |-> uf, wr |-> TopBit(p), incr |-> Low31(p)]
      [] t = "CONTINUATION" ->
           [type |-> t, r |-> r, sid |-> sid, uf |-> uf, eh |-> Bit(fl, 2), frag |-> p]

Parse(b) == ParseOne(b)

\* length-delimited splitting of an octet stream; a trailing incomplete frame yields Err("short")
RECURSIVE ParseStream(_)
ParseStream(b) ==
    IF b = <<>> THEN <<>>
    ELSE IF Len(b) < HEADER_LEN THEN <<Err("short")>>
    ELSE LET n == HEADER_LEN + b[1] * 65536 + b[2] * 256 + b[3] IN
         IF Len(b) < n THEN <<Err("short")>>
         ELSE <<ParseOne(SubSeq(b, 1, n))>> \o ParseStream(From(b, n + 1))

(***************************************************************************)
(* Well-formedness of a frame as sent by a conforming peer (what "every    *)
(* well-formed frame from the wire" quantifies over at the framing layer): *)
(* stream-id zero/non-zero rules of 6.x, SETTINGS value ranges of 6.5.2,   *)
(* non-zero WINDOW_UPDATE increment, no self-dependency.                   *)
(***************************************************************************)
Num3(b4) == b4[2] * 65536 + b4[3] * 256 + b4[4]      \* low 24 bits (enough for the range checks below)
SettingOk(id, v) ==
    CASE id = 2 -> v \in {Z4, <<0, 0, 0, 1>>}
      [] id = 4 -> v[1] < 128
      [] id = 5 -> v[1] = 0 /\ Num3(v) >= 16384
      [] id = 8 -> v \in {Z4, <<0, 0, 0, 1>>}
      [] OTHER -> TRUE

WellFormed(f) ==
    CASE f.type \in {"DATA", "CONTINUATION", "RST_STREAM"} -> f.sid # Z4
      [] f.type = "HEADERS" -> f.sid # Z4 /\ (f.prio = <<>> \/ f.prio[2] # f.sid)
      [] f.type = "PRIORITY" -> f.sid # Z4 /\ f.dep # f.sid
      [] f.type = "PUSH_PROMISE" -> f.sid # Z4 /\ f.promised # Z4
      [] f.type = "SETTINGS" -> /\ f.sid = Z4
                                /\ (f.ack => f.params = <<>>)
                                /\ \A i \in 1..Len(f.params) : SettingOk(f.params[i][1], f.params[i][2])
      [] f.type \in {"PING", "GOAWAY"} -> f.sid = Z4
      [] f.type = "WINDOW_UPDATE" -> f.incr # Z4
      [] f.type = "EXT" -> TRUE

(***************************************************************************)
(* A miniature RFC 7541 decoder, enough for the header blocks used in the  *)
(* reference vectors: indexed fields from the static table and literal     *)
(* fields without indexing with a new, non-Huffman name and value          *)
(* (0x00, len<127, name octets, len<127, value octets).  Header fields are *)
(* pairs of octet sequences.  Anything else: <<"unsup">>.                  *)
(***************************************************************************)
StaticEntry(i) ==
    CASE i = 2 -> << <<58,109,101,116,104,111,100>>, <<71,69,84>> >>                       \* :method GET
      [] i = 3 -> << <<58,109,101,116,104,111,100>>, <<80,79,83,84>> >>                    \* :method POST
      [] i = 4 -> << <<58,112,97,116,104>>, <<47>> >>                                     \* :path /
      [] i = 6 -> << <<58,115,99,104,101,109,101>>, <<104,116,116,112>> >>                \* :scheme http
      [] i = 7 -> << <<58,115,99,104,101,109,101>>, <<104,116,116,112,115>> >>            \* :scheme https
      [] i = 8 -> << <<58,115,116,97,116,117,115>>, <<50,48,48>> >>                       \* :status 200
      [] i = 16 -> << <<97,99,99,101,112,116,45,101,110,99,111,100,105,110,103>>,
                      <<103,122,105,112,44,32,100,101,102,108,97,116,101>> >>             \* accept-encoding gzip, deflate
      [] OTHER -> <<>>

RECURSIVE DecodeFields(_)
DecodeFields(b) ==      \* <<"ok", fields>> | <<"unsup">> | <<"need">> (ends inside a representation)
    IF b = <<>> THEN <<"ok", <<>>>>
    ELSE IF b[1] >= 128 THEN
        LET e == StaticEntry(b[1] - 128) IN
        IF e = <<>> THEN <<"unsup">>
        ELSE LET rest == DecodeFields(From(b, 2)) IN
             IF rest[1] = "ok" THEN <<"ok", <<e>> \o rest[2]>> ELSE rest
    ELSE IF b[1] = 0 THEN
        IF Len(b) < 2 THEN <<"need">>
        ELSE LET nl == b[2] IN
        IF nl >= 127 THEN <<"unsup">>
        ELSE IF Len(b) < 3 + nl THEN <<"need">>
        ELSE LET vl == b[3 + nl] IN
        IF vl >= 127 THEN <<"unsup">>
        ELSE IF Len(b) < 3 + nl + vl THEN <<"need">>
        ELSE LET rest == DecodeFields(From(b, 4 + nl + vl)) IN
             IF rest[1] = "ok" THEN <<"ok", << <<SubSeq(b, 3, 2 + nl), SubSeq(b, 4 + nl, 3 + nl + vl)>> >> \o rest[2]>>
             ELSE rest
    ELSE <<"unsup">>

(***************************************************************************)
(* Logical view: the information a receiver must recover.                  *)
(*  - reserved bits (r, lr, wr, pr), undefined flags, padding octets: gone *)
(*  - DATA keeps its pad length (it is flow controlled, 6.1 / 6.9.1)       *)
(*  - HEADERS / PUSH_PROMISE followed by CONTINUATIONs: one item whose     *)
(*    block is the concatenation of the fragments (4.3)                    *)
(*  - SETTINGS: parameters in order (values of unknown identifiers are     *)
(*    ignored by the receiver: SettingsView below)                         *)
(*  - unknown frame types are discarded (4.1)                              *)
(* A sequence that violates 4.3 (interleaving, wrong stream) gives an Err  *)
(* item and stops.                                                         *)
(***************************************************************************)
Sem1(f) ==
    CASE f.type = "DATA"          -> [type |-> "DATA", sid |-> f.sid, es |-> f.es, pad |-> f.pad, data |-> f.data]
      [] f.type = "HEADERS"       -> [type |-> "HEADERS", sid |-> f.sid, es |-> f.es, prio |-> f.prio, block |-> f.frag]
      [] f.type = "PRIORITY"      -> [type |-> "PRIORITY", sid |-> f.sid, prio |-> <<f.excl, f.dep, f.weight>>]
      [] f.type = "RST_STREAM"    -> [type |-> "RST_STREAM", sid |-> f.sid, code |-> f.code]
      [] f.type = "SETTINGS"      -> [type |-> "SETTINGS", ack |-> f.ack, params |-> f.params]
      [] f.type = "PUSH_PROMISE"  -> [type |-> "PUSH_PROMISE", sid |-> f.sid, promised |-> f.promised, block |-> f.frag]
      [] f.type = "PING"          -> [type |-> "PING", ack |-> f.ack, opaque |-> f.opaque]
      [] f.type = "GOAWAY"        -> [type |-> "GOAWAY", last |-> f.last, code |-> f.code, debug |-> f.debug]
      [] f.type = "WINDOW_UPDATE" -> [type |-> "WINDOW_UPDATE", sid |-> f.sid, incr |-> f.incr]

RECURSIVE LogicalFrom(_, _)
LogicalFrom(fs, open) ==   \* open: <<>> or <<partial item>>
    IF fs = <<>> THEN (IF open = <<>> THEN <<>> ELSE <<Err("unterminated")>>)
    ELSE LET f == Head(fs) rest == From(fs, 2) IN
         IF IsErr(f) THEN <<f>>
         ELSE IF open # <<>> THEN
              IF f.type # "CONTINUATION" \/ f.sid # open[1].sid THEN <<Err("continuation")>>
              ELSE LET it == [open[1] EXCEPT !.block = @ \o f.frag] IN
                   IF f.eh THEN <<it>> \o LogicalFrom(rest, <<>>) ELSE LogicalFrom(rest, <<it>>)
         ELSE IF f.type = "CONTINUATION" THEN <<Err("continuation")>>
         ELSE IF f.type = "EXT" THEN LogicalFrom(rest, <<>>)
         ELSE IF f.type \in {"HEADERS", "PUSH_PROMISE"} /\ ~f.eh THEN LogicalFrom(rest, <<Sem1(f)>>)
         ELSE <<Sem1(f)>> \o LogicalFrom(rest, <<>>)

Logical(fs) == LogicalFrom(fs, <<>>)

\* effective value per known SETTINGS identifier: the last occurrence wins (6.5.3: processed in order)
KnownSettings == {1, 2, 3, 4, 5, 6}
SettingsView(params) ==
    [id \in {params[i][1] : i \in 1..Len(params)} \cap KnownSettings |->
        LET last == CHOOSE i \in 1..Len(params) : params[i][1] = id /\ \A j \in (i + 1)..Len(params) : params[j][1] # id
        IN params[last][2]]

(***************************************************************************)
(* Model-level theorem checked by TLC on every enumerated frame.           *)
(***************************************************************************)
RoundTrip(f) == ParseOne(SerializeFrame(f)) = f
RoundTripSeq(fs) == ParseStream(SerializeAll(fs)) = fs
LenFieldOk(f) == LET b == SerializeFrame(f) IN Len(b) = HEADER_LEN + b[1] * 65536 + b[2] * 256 + b[3]
=============================================================================
