------------------------------ MODULE H2Tasks ------------------------------
(***************************************************************************)
(* IMPLEMENTATION layer: h2's WAKE-UP PROTOCOL - every place where the     *)
(* library stores a waker and every place where it wakes one (client role: *)
(* Streams / Pushed; server role: Remote)                                  *)
(* src/proto/streams/{stream,send,recv,prioritize,streams,counts,state}.rs,*)
(* src/proto/connection.rs, src/client.rs, src/server.rs, src/share.rs.    *)
(*                                                                         *)
(* One action per critical section (one hold of the `Inner` mutex), named  *)
(* after the function that takes the lock.  The helpers of the code are    *)
(* operators on a "machine" record G (fields below), composed in the order *)
(* of the code:                                                            *)
(*   G.s[x]   one stream record:                                           *)
(*      state                     state.rs `Inner` (+ Cause of Closed)     *)
(*      inStore, linked, counted, refs, resetAt                            *)
(*      win, avail, req, buf      send_flow.window_size / .available,      *)
(*                                requested_send_capacity, buffered_send_  *)
(*                                data (units)                             *)
(*      capInc                    send_capacity_inc                        *)
(*      q                         pending_send (frames queued)             *)
(*      pSend, pOpen, pCap, pWU   is_pending_send / _open / _send_capacity *)
(*                                / _window_update                         *)
(*      rq                        pending_recv (events "H" "I" "D" "T")    *)
(*      rwin, ravail, infl        recv_flow, in_flight_recv_data           *)
(*      ppq                       pending_push_promises (promised ids)     *)
(*      sendTask, recvTask, pushTask   THE THREE WAKER SLOTS: NoTask or    *)
(*                                the task whose waker is stored           *)
(*   G.cn     connection: task (Actions.task registered), ct (the          *)
(*            [sr: a SendRequest handle other than SR is alive (client)]   *)
(*            connection task: "parked" | "active" | "done"), err          *)
(*            (Actions.conn_error), maxSend / numSend / numRecv (Counts),  *)
(*            cwin / cavail (Prioritize.flow), ps / pcq / po (pending_send *)
(*            / pending_capacity / pending_open queues), cwinR / cavailR / *)
(*            cinfl (Recv.flow, in_flight_data), pwu (pending_window_      *)
(*            updates), initWin (Send.init_window_sz), nextId, maxId       *)
(*   G.tk[t]  an application task: call ("none" = not inside a library     *)
(*            call that returned Pending), sid, woken (its waker fired and *)
(*            it has not run since)                                        *)
(*   G.out    frames written / API results of this critical section        *)
(*                                                                         *)
(* Application tasks: W(x) owns the SendStream of x, R(x) the              *)
(* ResponseFuture and then the RecvStream, P(x) the PushPromises handle,   *)
(* SR a SendRequest handle that remembers its `pending` stream.            *)
(* A call that can park (poll_capacity, poll_reset, poll_response,         *)
(* poll_data, poll_trailers, poll_push_promise, poll_ready) is ONE         *)
(* critical section that returns Ready or stores the waker; a parked task  *)
(* whose waker fired polls the same call again (Repoll).                   *)
(*                                                                         *)
(* Deliberate abstractions:                                                *)
(*  - sizes are units (1 unit = 21845 octets in the replay); every DATA    *)
(*    frame fits the peer's frame size, so no frame is split and           *)
(*    reclaim_frame never pushes a remainder back;                         *)
(*  - the socket accepts every byte: the codec is never full, a poll of    *)
(*    the connection ends with everything popped and flushed (the states   *)
(*    with a blocked socket are the business of H2Streams / H2Conn);       *)
(*  - the peer cooperates (premise of C06): it sends a frame only on a     *)
(*    stream whose HEADERS are on the wire and whose state admits it, one  *)
(*    frame at a time; a frame that finds its stream unlinked is dropped   *)
(*    (the code answers RST_STREAM(STREAM_CLOSED) - no waker involved);    *)
(*  - reset expiry (30 s) never happens; the lifetime quota of library     *)
(*    resets and the reset-stream limits are not reached; content-length,  *)
(*    informational responses, PING, user GOAWAY, push_request on a server *)
(*    (is_pending_push), refused streams: out of scope;                    *)
(*  - the end of the connection (peer EOF; or GOAWAY received and the last *)
(*    stream gone) is ONE step: Inner::recv_eof / handle_error on every    *)
(*    linked stream + Drop for Connection (recv_eof(true)).                *)
(***************************************************************************)
EXTENDS H2Base, TLC

CONSTANTS Streams,     \* ids the local application opens, in send_request order (client: 1, 3, ..)
          Pushed,      \* ids the peer may promise (client role: 2, 4, ..); {} = no server push
          Remote,      \* SERVER role: ids the peer opens with a request (1, 3, ..); {} in the client role (then Streams = Pushed = {})
          InitWin,     \* the peer's SETTINGS_INITIAL_WINDOW_SIZE (units)
          ConnWin,     \* connection-level send window (units; 65535 octets = 3)
          RecvWin,     \* local initial window of streams and of the connection (units)
          MaxBuf       \* max_send_buffer_size (units)

VARIABLES str, cn, tk,
          app,         \* handles the application holds: app[x] = [send, recv, push : BOOLEAN, resp : BOOLEAN (response taken: the recv handle is
                       \* a RecvStream), ss : BOOLEAN (server: send = SendResponse, ss = the SendStream send_response returned)]
          srp,         \* the SR handle: -1 = none alive, 0 = alive with `pending` = None, x = alive with `pending` = Some(stream x)
          inbox,       \* frames the peer sent and the connection task has not processed yet
          evs          \* frames written and API results of the last action (observation)

tvars == <<str, cn, tk, app, srp, inbox, evs>>

AllIds == Streams \cup Pushed \cup Remote
NoTask == <<"-", 0>>
W(x) == <<"W", x>>
R(x) == <<"R", x>>
P(x) == <<"P", x>>
SR == <<"SR", 0>>
Tasks == ({"W", "R", "P"} \X AllIds) \cup {SR}
IdleTk == [call |-> "none", sid |-> 0, woken |-> FALSE]
Clamp0(x) == IF x < 0 THEN 0 ELSE x
IsLocalInit(x) == x \in Streams

\* ---- state.rs -----------------------------------------------------------------------------
\* k: Idle | ResRemote | Open | HCL (HalfClosedLocal(r)) | HCR (HalfClosedRemote(l)) | Closed
\* l / r: local / remote half "AH" (AwaitingHeaders) | "S" (Streaming)
\* cause (Closed): ES (EndStream) | Err (Error(e)) | ErrES (ErrorAfterEndStream(e)) | Sched (ScheduledLibraryReset(code))
\* e: ek "reset" | "goaway" | "io", init User | Library | Remote, code
StIdle == [k |-> "Idle", l |-> "-", r |-> "-", cause |-> "-", ek |-> "-", init |-> "-", code |-> 0]
StOpen(l, r) == [StIdle EXCEPT !.k = "Open", !.l = l, !.r = r]
StHCL(r) == [StIdle EXCEPT !.k = "HCL", !.r = r]
StHCR(l) == [StIdle EXCEPT !.k = "HCR", !.l = l]
StResRemote == [StIdle EXCEPT !.k = "ResRemote"]
StClosedES == [StIdle EXCEPT !.k = "Closed", !.cause = "ES"]
StClosedErr(afterES, ek, init, code) == [k |-> "Closed", l |-> "-", r |-> "-", cause |-> IF afterES THEN "ErrES" ELSE "Err",
                                         ek |-> ek, init |-> init, code |-> code]
StClosedSched(code) == [StIdle EXCEPT !.k = "Closed", !.cause = "Sched", !.code = code]

IsClosedSt(st) == st.k = "Closed"
IsSchedSt(st) == st.k = "Closed" /\ st.cause = "Sched"
IsResetSt(st) == st.k = "Closed" /\ st.cause # "ES"
IsSendStreamingSt(st) == st.k \in {"Open", "HCR"} /\ st.l = "S"
IsSendClosedSt(st) == st.k \in {"Closed", "HCL", "ResRemote"}
IsRecvStreamingSt(st) == st.k \in {"Open", "HCL"} /\ st.r = "S"
IsRecvHeadersSt(st) == st.k \in {"Idle", "ResRemote"} \/ (st.k \in {"Open", "HCL"} /\ st.r = "AH")
IsRecvEndStreamSt(st) == st.k = "HCR" \/ (st.k = "Closed" /\ st.cause \in {"ES", "ErrES"})
IsLocalErrorSt(st) == st.k = "Closed" /\
    \/ st.cause \in {"Err", "ErrES"} /\ (st.init \in {"User", "Library"} \/ st.ek = "io")
    \/ st.cause = "Sched"
\* State::ensure_recv_open: "err" | "open" | "ended"
RecvOpenSt(st) == IF st.k = "Closed" /\ st.cause \in {"Err", "Sched"} THEN "err"
                  ELSE IF st.k = "HCR" \/ (st.k = "Closed" /\ st.cause \in {"ES", "ErrES"}) THEN "ended"
                  ELSE "open"
\* State::ensure_reason (poll_reset): "ok" (a reason) | "err" | "none"
ReasonSt(st) == IF st.k = "Closed" /\ (st.cause = "Sched" \/ (st.cause \in {"Err", "ErrES"} /\ st.ek \in {"reset", "goaway"})) THEN "ok"
                ELSE IF st.k = "Closed" /\ st.cause \in {"Err", "ErrES"} THEN "err"
                ELSE "none"
\* State::send_close / recv_close / recv_open (final response or pushed response HEADERS)
SendCloseSt(st) == IF st.k = "Open" THEN StHCL(st.r) ELSE StClosedES
RecvCloseSt(st) == IF st.k = "Open" THEN StHCR(st.l) ELSE StClosedES
RecvOpenHdrSt(st, eos) == IF st.k = "Open" THEN (IF eos THEN StHCR(st.l) ELSE StOpen(st.l, "S"))
                          ELSE (IF eos THEN StClosedES ELSE StHCL("S"))            \* HCL(AH) / ResRemote

\* ---- stream.rs ------------------------------------------------------------------------------
NoStr == [inStore |-> FALSE, linked |-> FALSE, state |-> StIdle, counted |-> FALSE, refs |-> 0, resetAt |-> FALSE,
          win |-> 0, avail |-> 0, req |-> 0, buf |-> 0, capInc |-> FALSE, q |-> <<>>,
          pSend |-> FALSE, pOpen |-> FALSE, pCap |-> FALSE, pWU |-> FALSE, pAcc |-> FALSE,
          rq |-> <<>>, rwin |-> 0, ravail |-> 0, infl |-> 0, isRecv |-> TRUE, ppq |-> <<>>,
          sendTask |-> NoTask, recvTask |-> NoTask, pushTask |-> NoTask,
          openTask |-> NoTask]        \* (since fix 324faa6) SendRequest::poll_ready waits in a slot of its own, woken together with send_task
\* Stream::new(id, init_send_window, init_recv_window) + Store::insert
NewStr(sw) == [NoStr EXCEPT !.inStore = TRUE, !.linked = TRUE, !.win = sw, !.rwin = RecvWin, !.ravail = RecvWin]

Capacity(r) == Clamp0(Min(Clamp0(r.avail), MaxBuf) - r.buf)                      \* Stream::capacity
IsSendReadyR(r) == ~r.pOpen                                                      \* is_send_ready (is_pending_push: server role)
IsClosedR(r) == IsClosedSt(r.state) /\ r.q = <<>> /\ r.buf = 0                    \* Stream::is_closed
IsReleasedR(r) == IsClosedR(r) /\ r.refs = 0 /\ ~r.pSend /\ ~r.pCap /\ ~r.pWU /\ ~r.pOpen /\ ~r.pAcc /\ ~r.resetAt
HasUnavailable(w, a) == w >= 0 /\ w > a
\* FlowControl::unclaimed_capacity (units: the threshold window / 2 in octets is exactly "2 * unclaimed < window")
Unclaimed(w, a) == IF w >= a THEN 0 ELSE IF 2 * (a - w) < w THEN 0 ELSE a - w

\* frames / events
FHdr(eos) == [k |-> "H", n |-> 0, eos |-> eos, code |-> 0]
FData(n, eos) == [k |-> "D", n |-> n, eos |-> eos, code |-> 0]
FRst(code) == [k |-> "R", n |-> 0, eos |-> FALSE, code |-> code]
Ev(t, task, call, sid, res, v) == [t |-> t, task |-> task, call |-> call, sid |-> sid, res |-> res, v |-> v]
OutEv(ty, sid, v, eos) == Ev("out", NoTask, ty, sid, IF eos THEN "es" ELSE "", v)
ApiEv(t, call, sid, res, v) == Ev("api", t, call, sid, res, v)

\* ---- the machine record -------------------------------------------------------------------------
Cur == [s |-> str, cn |-> cn, tk |-> tk, out |-> <<>>]
Commit(G) == str' = G.s /\ cn' = G.cn /\ tk' = G.tk /\ evs' = G.out
Emit(G, e) == [G EXCEPT !.out = Append(@, e)]

\* ---- waking ----------------------------------------------------------------------------------------
\* Waker::wake: the task runs again (a task that is not inside a parked call has nothing to poll: no effect)
Wake(G, t) == IF t # NoTask /\ G.tk[t].call # "none" THEN [G EXCEPT !.tk[t].woken = TRUE] ELSE G
NotifySend(G, x) == [Wake(Wake(G, G.s[x].sendTask), G.s[x].openTask) EXCEPT !.s[x].sendTask = NoTask, !.s[x].openTask = NoTask]   \* send_task.take().wake(); open_task.take().wake()
NotifyRecv(G, x) == [Wake(G, G.s[x].recvTask) EXCEPT !.s[x].recvTask = NoTask]
NotifyPush(G, x) == [Wake(G, G.s[x].pushTask) EXCEPT !.s[x].pushTask = NoTask]
NotifyAll(G, x) == NotifyPush(NotifyRecv(NotifySend(G, x), x), x)                \* recv_reset / handle_error / recv_eof order
\* actions.task.take().wake(): the connection task
WakeConn(G) == IF G.cn.task THEN [G EXCEPT !.cn.task = FALSE, !.cn.ct = IF @ = "parked" THEN "active" ELSE @] ELSE G

\* Inner.refs > 1 apart from the handle being dropped: a SendRequest handle or any stream handle is alive
OtherRefs(G) == G.cn.sr \/ \E x \in AllIds : G.s[x].refs > 0
\* Drop for Streams (a SendRequest handle goes away): refs -= 1; if refs == 1 the connection task is woken
StreamsDrop(G, others) == IF others \/ OtherRefs(G) THEN G ELSE WakeConn(G)

\* ---- counts.rs ------------------------------------------------------------------------------------
DecNumStreams(G, x) == IF IsLocalInit(x) THEN [G EXCEPT !.cn.numSend = @ - 1, !.s[x].counted = FALSE]
                       ELSE [G EXCEPT !.cn.numRecv = @ - 1, !.s[x].counted = FALSE]
\* Counts::transition_after (the reset counters are not modelled)
TransitionAfter(G, x) ==
    LET r == G.s[x]
        closed == IsClosedR(r)
        G1 == IF closed /\ ~r.resetAt THEN [G EXCEPT !.s[x].linked = FALSE] ELSE G
        G2 == IF closed /\ ~IsSchedSt(r.state) /\ r.counted THEN DecNumStreams(G1, x) ELSE G1
    IN IF IsReleasedR(G2.s[x]) THEN [G2 EXCEPT !.s[x] = NoStr] ELSE G2

\* ---- prioritize.rs ----------------------------------------------------------------------------------
PushPS(G, x) == IF G.s[x].pSend THEN G ELSE [G EXCEPT !.s[x].pSend = TRUE, !.cn.ps = Append(@, x)]
PushFrontPS(G, x) == IF G.s[x].pSend THEN G ELSE [G EXCEPT !.s[x].pSend = TRUE, !.cn.ps = <<x>> \o @]
PushPC(G, x) == IF G.s[x].pCap THEN G ELSE [G EXCEPT !.s[x].pCap = TRUE, !.cn.pcq = Append(@, x)]
PushWU(G, x) == IF G.s[x].pWU THEN G ELSE [G EXCEPT !.s[x].pWU = TRUE, !.cn.pwu = Append(@, x)]

\* Stream::notify_capacity / assign_capacity
NotifyCapacity(G, x) == NotifySend([G EXCEPT !.s[x].capInc = TRUE], x)
AssignToStream(G, x, n) ==
    LET prev == Capacity(G.s[x])
        G1 == [G EXCEPT !.s[x].avail = @ + n]
    IN IF prev < Capacity(G1.s[x]) THEN NotifyCapacity(G1, x) ELSE G1

\* Prioritize::try_assign_capacity
TryAssign(G, x) ==
    LET r == G.s[x]
        a0 == Clamp0(r.avail)
        additional == Min(r.req - a0, Clamp0(r.win) - a0)
    IN IF r.pOpen THEN G
       ELSE IF additional <= 0 THEN G
       ELSE IF ~IsSendStreamingSt(r.state) /\ r.buf = 0 THEN G
       ELSE LET ca == Clamp0(G.cn.cavail)
                assign == Min(ca, additional)
                G1 == IF ca > 0 THEN [AssignToStream(G, x, assign) EXCEPT !.cn.cavail = @ - assign] ELSE G
                r1 == G1.s[x]
                G2 == IF r1.avail < r1.req /\ HasUnavailable(r1.win, r1.avail) THEN PushPC(G1, x) ELSE G1
            IN IF r1.buf > 0 /\ IsSendReadyR(r1) THEN PushPS(G2, x) ELSE G2     \* NO wake of the connection task here

\* Prioritize::assign_connection_capacity(inc, store | stream): cur = the stream the caller works on (0: none)
RECURSIVE ServeWaiters(_, _)
ServeWaiters(G, cur) ==
    IF G.cn.cavail <= 0 \/ G.cn.pcq = <<>> THEN G
    ELSE LET y == Head(G.cn.pcq)
             G1 == [G EXCEPT !.cn.pcq = Tail(@), !.s[y].pCap = FALSE]
         IN IF ~(IsSendStreamingSt(G1.s[y].state) \/ G1.s[y].buf > 0)
            THEN ServeWaiters(IF cur # y THEN TransitionAfter(G1, y) ELSE G1, cur)
            ELSE ServeWaiters(TransitionAfter(TryAssign(G1, y), y), cur)
AssignConn(G, inc, cur) == ServeWaiters([G EXCEPT !.cn.cavail = @ + inc], cur)

\* Prioritize::reserve_capacity
Reserve(G, x, n) ==
    LET r == G.s[x]
        cap == n + r.buf
    IN IF cap = r.req THEN G
       ELSE IF cap < r.req
       THEN LET G1 == [G EXCEPT !.s[x].req = cap]
                a == Clamp0(r.avail)
            IN IF a > cap THEN AssignConn([G1 EXCEPT !.s[x].avail = @ - (a - cap)], a - cap, x) ELSE G1
       ELSE IF IsSendClosedSt(r.state) THEN G
       ELSE TryAssign([G EXCEPT !.s[x].req = cap], x)
\* reclaim_all_capacity / reclaim_reserved_capacity
ReclaimAll(G, x) ==
    LET a == Clamp0(G.s[x].avail) IN IF a > 0 THEN AssignConn([G EXCEPT !.s[x].avail = @ - a], a, x) ELSE G
ReclaimReserved(G, x) ==
    LET a == Clamp0(G.s[x].avail)
        b == G.s[x].buf
    IN IF a > b THEN AssignConn([G EXCEPT !.s[x].avail = @ - (a - b)], a - b, x) ELSE G

\* schedule_send / queue_frame / clear_queue
ScheduleSend(G, x) == IF IsSendReadyR(G.s[x]) THEN WakeConn(PushPS(G, x)) ELSE G
QueueFrame(G, x, f) == ScheduleSend([G EXCEPT !.s[x].q = Append(@, f)], x)
\* (a DATA frame of this stream the codec is writing is not given back: InFlightData::Drop)
NoInfl == [s |-> 0, n |-> 0, eos |-> FALSE]
ClearQueue(G, x) == [G EXCEPT !.s[x].q = <<>>, !.s[x].buf = 0, !.s[x].req = 0, !.cn.infl = IF @.s = x THEN NoInfl ELSE @]

\* ---- recv.rs: enqueue_reset_expiration (the limit max_concurrent_reset_streams is not reached) ----
EnqueueResetExpiration(G, x) ==
    IF ~IsLocalErrorSt(G.s[x].state) \/ G.s[x].resetAt THEN G ELSE [G EXCEPT !.s[x].resetAt = TRUE]

\* ---- send.rs ----------------------------------------------------------------------------------------
\* Stream::set_reset: state + notify_send, notify_push, notify_recv
SetReset(G, x, init, code) ==
    NotifyRecv(NotifyPush(NotifySend([G EXCEPT !.s[x].state = StClosedErr(FALSE, "reset", init, code)], x), x), x)
\* Send::send_reset
SendSendReset(G, x, code, init) ==
    LET r == G.s[x]
    IN IF IsResetSt(r.state) THEN G
       ELSE LET G1 == SetReset(G, x, init, code)
            IN IF IsClosedSt(r.state) /\ r.q = <<>> THEN G1
               ELSE LET G2 == IF ~r.pOpen THEN ClearQueue(G1, x)
                              ELSE [ClearQueue(G1, x) EXCEPT !.s[x].q = IF r.q # <<>> THEN <<Head(r.q)>> ELSE <<>>]   \* the initial HEADERS survive
                    IN ReclaimAll(QueueFrame(G2, x, FRst(code)), x)
\* Send::schedule_implicit_reset
ScheduleImplicitReset(G, x, code) ==
    IF IsClosedSt(G.s[x].state) THEN G
    ELSE ScheduleSend(ReclaimReserved([G EXCEPT !.s[x].state = StClosedSched(code)], x), x)

\* ---- streams.rs ---------------------------------------------------------------------------------------
\* Actions::send_reset (inside counts.transition) - SendStream::send_reset
ActionsSendReset(G, x, code, init) ==
    TransitionAfter(NotifyRecv(EnqueueResetExpiration(SendSendReset(G, x, code, init), x), x), x)
\* Actions::reset_on_recv_stream_err with Err(Reset(id, code, Library))
ResetOnRecvStreamErr(G, x, code) ==
    NotifyRecv(EnqueueResetExpiration(SendSendReset(G, x, code, "Library"), x), x)

\* Recv::release_connection_capacity(n, task)
ReleaseConnCapacity(G, n, wake) ==
    LET G1 == [G EXCEPT !.cn.cinfl = @ - n, !.cn.cavailR = @ + n]
    IN IF wake /\ Unclaimed(G1.cn.cwinR, G1.cn.cavailR) > 0 THEN WakeConn(G1) ELSE G1
\* Recv::clear_recv_buffer: every queued event is dropped, the DATA among them (at most in_flight_recv_data) goes back to the connection
RECURSIVE SumData(_)
SumData(q) == IF q = <<>> THEN 0 ELSE (IF Head(q).k = "D" THEN Head(q).n ELSE 0) + SumData(Tail(q))
ClearRecvBuffer(G, x) ==
    LET n == Min(SumData(G.s[x].rq), G.s[x].infl)
        G1 == [G EXCEPT !.s[x].rq = <<>>]
    IN IF n > 0 THEN ReleaseConnCapacity([G1 EXCEPT !.s[x].infl = @ - n], n, TRUE) ELSE G1
\* Recv::release_closed_capacity (ref_count = 0): in-flight data back to the connection, receive buffer cleared
ReleaseClosedCapacity(G, x) ==
    LET n == G.s[x].infl
        G1 == IF n # 0 THEN [ReleaseConnCapacity(G, n, TRUE) EXCEPT !.s[x].infl = 0] ELSE G
    IN ClearRecvBuffer(G1, x)
\* maybe_cancel
MaybeCancel(G, x) ==
    IF G.s[x].refs = 0 /\ ~IsClosedSt(G.s[x].state)
    THEN LET reason == IF x \in Remote /\ IsSendClosedSt(G.s[x].state) /\ IsRecvStreamingSt(G.s[x].state) THEN NO_ERROR ELSE CANCEL   \* (server: early response)
         IN EnqueueResetExpiration(ScheduleImplicitReset(G, x, reason), x)
    ELSE G
\* drop_stream_ref (OpaqueStreamRef::drop) of one handle of stream x
RECURSIVE CancelPromises(_, _)
CancelPromises(G, ps) ==
    IF ps = <<>> THEN G
    ELSE LET p == Head(ps)
             G1 == MaybeCancel([G EXCEPT !.s[p].pAcc = FALSE], p)
             G2 == IF G1.s[p].refs = 0 THEN ReleaseClosedCapacity(G1, p) ELSE G1
         IN CancelPromises(TransitionAfter(G2, p), Tail(ps))
DropStreamRef(G, x) ==
    LET D1 == [G EXCEPT !.s[x].refs = @ - 1]
        r == D1.s[x]
        D2 == IF r.refs = 0 /\ IsClosedR(r) THEN WakeConn(D1) ELSE D1
        D3 == MaybeCancel(D2, x)
        D4 == IF r.refs = 0
              THEN CancelPromises([ReleaseClosedCapacity(D3, x) EXCEPT !.s[x].ppq = <<>>], D3.s[x].ppq)
              ELSE D3
        D5 == TransitionAfter(D4, x)
    IN IF OtherRefs(D5) THEN D5 ELSE WakeConn(D5)          \* (since the fix for F-T4: `if me.refs == 1 { task.wake() }`)

\* ---- initial state -----------------------------------------------------------------------------------------
Init0(maxSend) ==
    /\ str = [x \in AllIds |-> NoStr]
    /\ cn = [task |-> TRUE, ct |-> "parked", err |-> "none", sr |-> TRUE, maxSend |-> maxSend, numSend |-> 0, numRecv |-> 0,
             cwin |-> ConnWin, cavail |-> ConnWin, ps |-> <<>>, pcq |-> <<>>, po |-> <<>>,
             cwinR |-> RecvWin, cavailR |-> RecvWin, cinfl |-> 0, pwu |-> <<>>, pa |-> <<>>,
             initWin |-> InitWin, nextId |-> 1, nextRecvId |-> IF Remote = {} THEN 2 ELSE 1, maxId |-> 1000,
             infl |-> [s |-> 0, n |-> 0, eos |-> FALSE]]          \* in_flight_data_frame: the unwritten rest of a DATA frame handed to the codec
    /\ tk = [t \in Tasks |-> IdleTk]
    /\ app = [x \in AllIds |-> [send |-> FALSE, recv |-> FALSE, push |-> FALSE, resp |-> FALSE, ss |-> FALSE]]
    /\ srp = -1
    /\ inbox = <<>> /\ evs = <<>>

ConnAlive == cn.ct # "done"

\* =====================================================================================================
\* Calls that can park: Poll*(G, t, x) = the critical section; Park / Ready fix the task's status + API result
\* =====================================================================================================
Park(G, t, call, x) == Emit([G EXCEPT !.tk[t] = [call |-> call, sid |-> x, woken |-> FALSE]], ApiEv(t, call, x, "pending", 0))
Ready(G, t, call, x, res, v) == Emit([G EXCEPT !.tk[t] = IdleTk], ApiEv(t, call, x, res, v))

\* Send::poll_capacity
CapacityReady(r) == ~IsSendStreamingSt(r.state) \/ (r.capInc /\ Capacity(r) > 0)
PollCapacity(G, t, x) ==
    LET r == G.s[x] IN
    IF ~IsSendStreamingSt(r.state) THEN Ready(G, t, "poll_capacity", x, "none", 0)
    ELSE IF ~r.capInc THEN Park([G EXCEPT !.s[x].sendTask = t], t, "poll_capacity", x)                 \* wait_send
    ELSE IF Capacity(r) = 0 THEN Park([G EXCEPT !.s[x].capInc = FALSE, !.s[x].sendTask = t], t, "poll_capacity", x)
    ELSE Ready([G EXCEPT !.s[x].capInc = FALSE], t, "poll_capacity", x, "ok", Capacity(r))
\* Send::poll_reset (PollReset::Streaming)
ResetReady(r) == ReasonSt(r.state) # "none"
PollReset(G, t, x) ==
    LET r == G.s[x] IN
    IF ReasonSt(r.state) = "ok" THEN Ready(G, t, "poll_reset", x, "ok", r.state.code)
    ELSE IF ReasonSt(r.state) = "err" THEN Ready(G, t, "poll_reset", x, "err", 0)
    ELSE Park([G EXCEPT !.s[x].sendTask = t], t, "poll_reset", x)                                      \* wait_send
\* Streams::poll_pending_open (SendRequest::poll_ready); p = SendRequest.pending (0: none)
ReadyReady(G, p) == G.cn.err # "none" \/ p = 0 \/ ~G.s[p].pOpen
\* (Ready: `self.pending = None` drops the clone of the pending stream - drop_stream_ref, a second lock hold folded in here;
\*  Err: the application drops the handle)
PollReady(G, t, p) ==
    IF G.cn.err # "none" THEN Ready(StreamsDrop(IF p # 0 THEN DropStreamRef(G, p) ELSE G, FALSE), t, "poll_ready", p, "err", 0)
    ELSE IF p # 0 /\ G.s[p].pOpen THEN Park([G EXCEPT !.s[p].openTask = t], t, "poll_ready", p)        \* wait_open on the pending stream (its own slot since 324faa6)
    ELSE Ready(StreamsDrop(IF p # 0 THEN DropStreamRef(G, p) ELSE G, FALSE), t, "poll_ready", p, "ok", 0)
\* Recv::poll_response
ResponseReady(r) == r.rq # <<>> \/ RecvOpenSt(r.state) # "open"
PollResponse(G, t, x) ==
    LET r == G.s[x] IN
    IF r.rq # <<>> /\ Head(r.rq).k = "H" THEN Ready([G EXCEPT !.s[x].rq = Tail(@)], t, "poll_response", x, "ok", 0)
    ELSE IF RecvOpenSt(r.state) # "open" THEN Ready(G, t, "poll_response", x, "err", 0)
    ELSE Park([G EXCEPT !.s[x].recvTask = t], t, "poll_response", x)
\* Recv::poll_data
DataReady(r) == r.rq # <<>> \/ RecvOpenSt(r.state) # "open"
PollData(G, t, x) ==
    LET r == G.s[x] IN
    IF r.rq # <<>> /\ Head(r.rq).k = "D" THEN Ready([G EXCEPT !.s[x].rq = Tail(@)], t, "poll_data", x, "some", Head(r.rq).n)
    ELSE IF r.rq # <<>> THEN Ready(NotifyRecv(G, x), t, "poll_data", x, "none", 0)                      \* trailers next: notify_recv "just in case"
    ELSE IF RecvOpenSt(r.state) = "err" THEN Ready(G, t, "poll_data", x, "err", 0)
    ELSE IF RecvOpenSt(r.state) = "ended" THEN Ready(G, t, "poll_data", x, "none", 0)
    ELSE Park([G EXCEPT !.s[x].recvTask = t], t, "poll_data", x)
\* Recv::poll_trailers
TrailersReady(r) == (r.rq # <<>> /\ Head(r.rq).k = "T") \/ (r.rq = <<>> /\ RecvOpenSt(r.state) # "open")
PollTrailers(G, t, x) ==
    LET r == G.s[x] IN
    IF r.rq # <<>> /\ Head(r.rq).k = "T" THEN Ready([G EXCEPT !.s[x].rq = Tail(@)], t, "poll_trailers", x, "some", 0)
    ELSE IF r.rq # <<>> THEN Park([G EXCEPT !.s[x].recvTask = t], t, "poll_trailers", x)              \* data still queued
    ELSE IF RecvOpenSt(r.state) = "err" THEN Ready(G, t, "poll_trailers", x, "err", 0)
    ELSE IF RecvOpenSt(r.state) = "ended" THEN Ready(G, t, "poll_trailers", x, "none", 0)
    ELSE Park([G EXCEPT !.s[x].recvTask = t], t, "poll_trailers", x)
\* Recv::poll_pushed (PushPromises::poll_push_promise): a promise pops the promised stream's request HEADERS
PushReady(r) == r.ppq # <<>> \/ RecvOpenSt(r.state) # "open"
PollPushed(G, t, x) ==
    LET r == G.s[x] IN
    IF r.ppq # <<>>
    THEN LET p == Head(r.ppq)
         IN Ready([G EXCEPT !.s[x].ppq = Tail(@), !.s[p].pAcc = FALSE, !.s[p].rq = Tail(@), !.s[p].refs = @ + 1], t, "poll_push", x, "some", p)
    ELSE IF RecvOpenSt(r.state) = "err" THEN Ready(G, t, "poll_push", x, "err", 0)
    ELSE IF RecvOpenSt(r.state) = "ended" THEN Ready(G, t, "poll_push", x, "none", 0)
    ELSE Park([G EXCEPT !.s[x].pushTask = t], t, "poll_push", x)

\* the critical section of call c for task t on stream x
PollCall(G, t, c, x) ==
    CASE c = "poll_capacity" -> PollCapacity(G, t, x)
      [] c = "poll_reset" -> PollReset(G, t, x)
      [] c = "poll_ready" -> PollReady(G, t, x)
      [] c = "poll_response" -> PollResponse(G, t, x)
      [] c = "poll_data" -> PollData(G, t, x)
      [] c = "poll_trailers" -> PollTrailers(G, t, x)
      [] c = "poll_push" -> PollPushed(G, t, x)
\* the call's readiness condition evaluated on a state (C06)
WouldBeReady(G, c, x) ==
    CASE c = "poll_capacity" -> CapacityReady(G.s[x])
      [] c = "poll_reset" -> ResetReady(G.s[x])
      [] c = "poll_ready" -> ReadyReady(G, x)
      [] c = "poll_response" -> ResponseReady(G.s[x])
      [] c = "poll_data" -> DataReady(G.s[x])
      [] c = "poll_trailers" -> TrailersReady(G.s[x])
      [] c = "poll_push" -> PushReady(G.s[x])
\* the waker slot a parked call waits in
SlotOf(G, c, x) ==
    CASE c \in {"poll_capacity", "poll_reset"} -> G.s[x].sendTask
      [] c = "poll_ready" -> G.s[x].openTask
      [] c \in {"poll_response", "poll_data", "poll_trailers"} -> G.s[x].recvTask
      [] c = "poll_push" -> G.s[x].pushTask

\* the handle a call needs
HasHandle(t, c, x) ==
    CASE c = "poll_capacity" -> t = W(x) /\ (IF x \in Remote THEN app[x].ss ELSE app[x].send)
      [] c = "poll_reset" -> t = W(x) /\ app[x].send
      [] c = "poll_response" -> t = R(x) /\ app[x].recv /\ ~app[x].resp
      [] c \in {"poll_data", "poll_trailers"} -> t = R(x) /\ app[x].recv /\ app[x].resp
      [] c = "poll_push" -> t = P(x) /\ app[x].push
      [] c = "poll_ready" -> t = SR /\ x = srp /\ srp >= 0

\* a task enters a call that can park
AppEffects(t, c, x, G2) ==
    \* handles created / consumed by a Ready result
    LET res == G2.out[Len(G2.out)].res IN
    /\ app' = IF c = "poll_response" /\ res = "ok" THEN [app EXCEPT ![x].resp = TRUE]
              ELSE IF c = "poll_push" /\ res = "some" THEN [app EXCEPT ![G2.out[Len(G2.out)].v].recv = TRUE]
              ELSE app
    /\ srp' = IF c = "poll_ready" /\ res \in {"ok", "err"} THEN -1 ELSE srp      \* the handle is dropped after poll_ready returned
Call(t, c, x) ==
    /\ tk[t].call = "none" /\ HasHandle(t, c, x)
    /\ LET G2 == PollCall(Cur, t, c, x) IN Commit(G2) /\ AppEffects(t, c, x, G2)
    /\ UNCHANGED inbox
\* a parked task whose waker fired polls its call again
Repoll(t) ==
    /\ tk[t].call # "none" /\ tk[t].woken
    /\ LET c == tk[t].call
           x == tk[t].sid
           G2 == PollCall(Cur, t, c, x)
       IN Commit(G2) /\ AppEffects(t, c, x, G2)
    /\ UNCHANGED inbox

\* =====================================================================================================
\* Calls that cannot park (they may wake)
\* =====================================================================================================
\* Streams::send_request. keep = TRUE: through the SR handle, which remembers the stream as `pending` when it is pending open and the
\* limit is reached (client.rs) and will call poll_ready; keep = FALSE: through a clone that is dropped at once (its `pending` with it)
SendRequest(x, eos, keep) ==
    /\ x \in Streams /\ x = cn.nextId /\ cn.sr
    /\ keep => (tk[SR].call = "none" /\ srp = -1)
    /\ IF cn.err # "none"
       THEN \* ensure_no_conn_error
            /\ Commit(Emit(Cur, ApiEv(W(x), "send_request", x, "err", 0)))
            /\ UNCHANGED <<app, srp>>
       ELSE LET G0 == [Cur EXCEPT !.s[x] = [NewStr(cn.initWin) EXCEPT !.state = IF eos THEN StHCL("AH") ELSE StOpen("S", "AH"),
                                                                      !.pOpen = TRUE,
                                                                      !.q = <<FHdr(eos)>>],
                                  !.cn.po = Append(@, x), !.cn.nextId = x + 2]
                \* send_headers: queue_open; queue_frame (not send-ready: not scheduled); the connection is notified for pending_open
                G1 == WakeConn(G0)
                pend == keep /\ G1.cn.maxSend <= G1.cn.numSend + 1        \* is_pending_open() && next_send_stream_will_reach_capacity()
                \* StreamRef + ResponseFuture (+ the `pending` clone)
                G2 == [G1 EXCEPT !.s[x].refs = IF pend THEN 3 ELSE 2]
            IN /\ Commit(Emit(G2, ApiEv(W(x), "send_request", x, "ok", 0)))
               /\ app' = [app EXCEPT ![x].send = TRUE, ![x].recv = TRUE]
               /\ srp' = IF pend THEN x ELSE IF keep THEN 0 ELSE srp
    /\ UNCHANGED inbox

\* the application drops its last SendRequest handle apart from SR (Drop for Streams): no request can follow
DropSr ==
    /\ cn.sr /\ Streams # {}
    /\ Commit(StreamsDrop([Cur EXCEPT !.cn.sr = FALSE], srp >= 0))
    /\ UNCHANGED <<app, srp, inbox>>

\* ResponseFuture::push_promises (a clone of the OpaqueStreamRef)
HoldPush(x) ==
    /\ app[x].recv /\ ~app[x].resp /\ ~app[x].push /\ tk[R(x)].call = "none"
    /\ Commit([Cur EXCEPT !.s[x].refs = @ + 1])
    /\ app' = [app EXCEPT ![x].push = TRUE]
    /\ UNCHANGED <<srp, inbox>>

\* SendStream::reserve_capacity (+ the unconditional wake of the connection task)
HasSendStream(x) == IF x \in Remote THEN app[x].ss ELSE app[x].send
ReserveCapacity(x, n) ==
    /\ HasSendStream(x) /\ tk[W(x)].call = "none"
    /\ Commit(Emit(WakeConn(Reserve(Cur, x, n)), ApiEv(W(x), "reserve", x, "ok", n)))
    /\ UNCHANGED <<app, srp, inbox>>

\* SendStream::send_data
SendData(x, n, eos) ==
    /\ HasSendStream(x) /\ tk[W(x)].call = "none"
    /\ LET G == Cur
           r == G.s[x]
       IN IF ~IsSendStreamingSt(r.state)
          THEN Commit(Emit(G, ApiEv(W(x), "send_data", x, "err", n)))
          ELSE LET G0 == [G EXCEPT !.s[x].buf = @ + n]
                   G1 == IF G0.s[x].req < G0.s[x].buf THEN TryAssign([G0 EXCEPT !.s[x].req = G0.s[x].buf], x) ELSE G0
                   G2 == IF eos THEN Reserve([G1 EXCEPT !.s[x].state = SendCloseSt(r.state)], x, 0) ELSE G1
                   G3 == IF G2.s[x].avail > 0 \/ G2.s[x].buf = 0
                         THEN QueueFrame(G2, x, FData(n, eos))
                         ELSE [G2 EXCEPT !.s[x].q = Append(@, FData(n, eos))]            \* saved, the connection is NOT notified
               IN Commit(Emit(TransitionAfter(G3, x), ApiEv(W(x), "send_data", x, "ok", n)))
    /\ UNCHANGED <<app, srp, inbox>>

\* SendStream::send_reset (Initiator::User)
SendReset(x) ==
    /\ app[x].send /\ tk[W(x)].call = "none"
    /\ Commit(Emit(ActionsSendReset(Cur, x, CANCEL, "User"), ApiEv(W(x), "send_reset", x, "ok", CANCEL)))
    /\ UNCHANGED <<app, srp, inbox>>

\* FlowControl::release_capacity
ReleaseCapacity(x, n) ==
    /\ app[x].recv /\ app[x].resp /\ tk[R(x)].call = "none"
    /\ LET G == Cur IN
       IF n > G.s[x].infl THEN Commit(Emit(G, ApiEv(R(x), "release", x, "err", n)))
       ELSE LET G1 == [ReleaseConnCapacity(G, n, TRUE) EXCEPT !.s[x].infl = @ - n, !.s[x].ravail = @ + n]
                G2 == IF Unclaimed(G1.s[x].rwin, G1.s[x].ravail) > 0 THEN WakeConn(PushWU(G1, x)) ELSE G1
            IN Commit(Emit(G2, ApiEv(R(x), "release", x, "ok", n)))
    /\ UNCHANGED <<app, srp, inbox>>

\* a handle is dropped (the task that owns it is outside a call)
TaskOf(h, x) == CASE h = "send" -> W(x) [] h = "recv" -> R(x) [] h = "push" -> P(x)
\* (Drop for RecvStream first runs OpaqueStreamRef::clear_recv_buffer - is_recv = false, the buffered DATA goes back to the
\*  connection - in a lock hold of its own, folded in here)
DropHandle(x, h) ==
    /\ app[x][h] /\ tk[TaskOf(h, x)].call = "none"
    /\ LET G0 == IF h = "recv" /\ app[x].resp THEN ClearRecvBuffer([Cur EXCEPT !.s[x].isRecv = FALSE], x) ELSE Cur
           G1 == IF h = "send" /\ app[x].ss THEN DropStreamRef(G0, x) ELSE G0         \* server: the SendStream, then the SendResponse
       IN Commit(Emit(DropStreamRef(G1, x), ApiEv(TaskOf(h, x), "drop_" \o h, x, "ok", 0)))
    /\ app' = IF h = "send" THEN [app EXCEPT ![x].send = FALSE, ![x].ss = FALSE] ELSE [app EXCEPT ![x][h] = FALSE]
    /\ UNCHANGED <<srp, inbox>>

\* ---- server role ----
\* server::Connection::poll_accept: Streams::next_incoming (+ take_request, clone_to_opaque): SendResponse + RecvStream
Accept ==
    /\ ConnAlive /\ cn.pa # <<>>
    /\ LET x == Head(cn.pa)
           G == [Cur EXCEPT !.cn.pa = Tail(@), !.s[x].pAcc = FALSE, !.s[x].rq = Tail(@), !.s[x].refs = @ + 2]
       IN /\ Commit(Emit(G, ApiEv(W(x), "accept", x, "some", 0)))
          /\ app' = [app EXCEPT ![x].send = TRUE, ![x].recv = TRUE, ![x].resp = TRUE]
    /\ UNCHANGED <<srp, inbox>>
\* SendResponse::send_response -> StreamRef::send_response (Send::send_headers inside counts.transition); on success a SendStream
SendResponse(x, eos) ==
    /\ x \in Remote /\ app[x].send /\ ~app[x].ss /\ tk[W(x)].call = "none"
    /\ LET G == Cur
           st == G.s[x].state
           okOpen == st.k \in {"Open", "HCR"} /\ st.l = "AH"                                   \* State::send_open
           st2 == IF st.k = "Open" THEN (IF eos THEN StHCL(st.r) ELSE StOpen("S", st.r)) ELSE (IF eos THEN StClosedES ELSE StHCR("S"))
       IN IF okOpen
          THEN /\ Commit(Emit([TransitionAfter(QueueFrame([G EXCEPT !.s[x].state = st2], x, FHdr(eos)), x) EXCEPT !.s[x].refs = @ + 1],
                               ApiEv(W(x), "send_response", x, "ok", 0)))
               /\ app' = [app EXCEPT ![x].ss = TRUE]
          ELSE /\ Commit(Emit(G, ApiEv(W(x), "send_response", x, "err", 0)))
               /\ UNCHANGED app
    /\ UNCHANGED <<srp, inbox>>

\* =====================================================================================================
\* The peer (frames arrive; the socket's read waker wakes the connection task - not an h2 waker slot)
\* =====================================================================================================
Frame(ty, x, n, eos, code) == [ty |-> ty, sid |-> x, n |-> n, eos |-> eos, code |-> code]
OnWire(x) == str[x].inStore /\ str[x].linked /\ ~str[x].pOpen            \* the stream's HEADERS were written, the store knows it
PeerSend(f) ==
    /\ ConnAlive /\ inbox = <<>>
    /\ inbox' = <<f>>
    /\ cn' = [cn EXCEPT !.ct = "active"]
    /\ evs' = <<>>
    /\ UNCHANGED <<str, tk, app, srp>>
\* what a cooperating peer may send in the current state
PeerMay(f) ==
    CASE f.ty = "WU" -> IF f.sid = 0 THEN TRUE ELSE OnWire(f.sid)
      [] f.ty = "SET_IWS" -> TRUE
      [] f.ty = "SET_MAXC" -> TRUE
      [] f.ty = "HEADERS" -> OnWire(f.sid) /\ IsRecvHeadersSt(str[f.sid].state) /\ f.sid \in Streams
      [] f.ty = "PHEADERS" -> OnWire(f.sid) /\ str[f.sid].state.k = "ResRemote"                            \* response on a promised stream
      [] f.ty = "DATA" -> OnWire(f.sid) /\ IsRecvStreamingSt(str[f.sid].state) /\ str[f.sid].rwin >= f.n /\ cn.cwinR >= f.n
      [] f.ty = "TRAILERS" -> OnWire(f.sid) /\ IsRecvStreamingSt(str[f.sid].state)
      [] f.ty = "RST" -> OnWire(f.sid) /\ ~IsClosedSt(str[f.sid].state)
      [] f.ty = "PP" -> OnWire(f.sid) /\ f.sid \in Streams /\ str[f.sid].state.k \in {"Open", "HCL"} /\ ~str[f.n].inStore /\ f.n \in Pushed /\ f.n >= cn.nextRecvId
      [] f.ty = "REQ" -> f.sid \in Remote /\ f.sid = cn.nextRecvId /\ cn.err = "none"
      [] f.ty = "GOAWAY" -> cn.err = "none"
      [] f.ty = "EOF" -> TRUE

\* =====================================================================================================
\* The connection task
\* =====================================================================================================
\* recv.handle_error / recv_eof + send.handle_error on one stream, inside counts.transition
EndStream(G, x, st) ==
    LET G1 == IF IsClosedSt(G.s[x].state) THEN G ELSE [G EXCEPT !.s[x].state = st]
    IN TransitionAfter(ReclaimAll(ClearQueue(NotifyAll(G1, x), x), x), x)
RECURSIVE EndStreams(_, _, _)
EndStreams(G, xs, st) ==
    IF xs = {} THEN G
    ELSE LET x == CHOOSE y \in xs : \A z \in xs : y <= z IN EndStreams(EndStream(G, x, st), xs \ {x}, st)
Linked(G) == {x \in AllIds : G.s[x].inStore /\ G.s[x].linked}
\* Actions::clear_queues (recv_eof): every queue is emptied, each popped stream transitions
RECURSIVE ClearQ(_, _)
ClearQ(G, xs) ==
    IF xs = {} THEN G
    ELSE LET x == CHOOSE y \in xs : TRUE
             r == G.s[x]
             G1 == [G EXCEPT !.s[x].pSend = FALSE, !.s[x].pCap = FALSE, !.s[x].pOpen = FALSE, !.s[x].pWU = FALSE,
                             !.s[x].pAcc = IF \E i \in 1..Len(G.cn.pa) : G.cn.pa[i] = x THEN FALSE ELSE @]
             G2 == IF r.pSend /\ IsSchedSt(r.state) THEN SetReset(G1, x, "Library", r.state.code) ELSE G1   \* clear_pending_send
         IN ClearQ(TransitionAfter(G2, x), xs \ {x})
ClearQueues(G) ==
    [ClearQ(G, {x \in AllIds : G.s[x].inStore /\ (G.s[x].pSend \/ G.s[x].pCap \/ G.s[x].pOpen \/ G.s[x].pWU \/ (\E i \in 1..Len(G.cn.pa) : G.cn.pa[i] = x))})
       EXCEPT !.cn.ps = <<>>, !.cn.pcq = <<>>, !.cn.po = <<>>, !.cn.pwu = <<>>, !.cn.pa = <<>>]
\* Inner::recv_eof
RecvEofAll(G) == ClearQueues(EndStreams([G EXCEPT !.cn.err = IF @ = "none" THEN "io" ELSE @], Linked(G), StClosedErr(FALSE, "io", "-", 0)))
\* the connection future completes and is dropped
ConnDone(G) == [RecvEofAll(G) EXCEPT !.cn.ct = "done", !.cn.task = FALSE]

\* recv_frame: one frame = one critical section
RECURSIVE IncAll(_, _, _)
IncAll(G, xs, inc) ==
    IF xs = {} THEN G
    ELSE LET x == CHOOSE y \in xs : \A z \in xs : y <= z
             r == G.s[x]
         IN IF IsSendClosedSt(r.state) /\ r.buf = 0 THEN IncAll(G, xs \ {x}, inc)
            ELSE IncAll(TryAssign([G EXCEPT !.s[x].win = @ + inc], x), xs \ {x}, inc)
RECURSIVE DecAll(_, _, _, _)
DecAll(G, xs, dec, total) ==
    IF xs = {} THEN [G |-> G, total |-> total]
    ELSE LET x == CHOOSE y \in xs : \A z \in xs : y <= z
             r == G.s[x]
         IN IF IsSendClosedSt(r.state) /\ r.buf = 0 THEN DecAll(G, xs \ {x}, dec, total)
            ELSE LET w2 == r.win - dec
                     a == Clamp0(r.avail)
                     rc == IF a > Clamp0(w2) THEN a - Clamp0(w2) ELSE 0
                 IN DecAll([G EXCEPT !.s[x].win = w2, !.s[x].avail = @ - rc], xs \ {x}, dec, total + rc)

RecvFrame(G, f) ==
    LET x == f.sid IN
    CASE f.ty = "WU" ->
            IF x = 0 THEN AssignConn([G EXCEPT !.cn.cwin = @ + f.n], f.n, 0)                  \* recv_connection_window_update
            ELSE IF ~(G.s[x].inStore /\ G.s[x].linked) THEN G
            ELSE LET r == G.s[x] IN                                                            \* recv_stream_window_update
                 IF IsSendClosedSt(r.state) /\ r.buf = 0 THEN G
                 ELSE TryAssign([G EXCEPT !.s[x].win = @ + f.n], x)
      [] f.ty = "SET_IWS" ->                                                                   \* Send::apply_remote_settings
            LET old == G.cn.initWin
                G1 == [G EXCEPT !.cn.initWin = f.n]
            IN IF f.n < old THEN LET d == DecAll(G1, Linked(G1), old - f.n, 0) IN AssignConn(d.G, d.total, 0)
               ELSE IF f.n > old THEN IncAll(G1, Linked(G1), f.n - old)
               ELSE G1
      [] f.ty = "SET_MAXC" -> [G EXCEPT !.cn.maxSend = f.n]                                    \* Counts::apply_remote_settings
      [] f.ty = "REQ" ->                                                                         \* recv_headers on a vacant id: Recv::open + recv_headers
            LET G1 == [G EXCEPT !.s[x] = [NewStr(G.cn.initWin) EXCEPT !.state = IF f.eos THEN StHCR("AH") ELSE StOpen("AH", "S"),
                                                                      !.counted = TRUE, !.rq = <<[k |-> "H", n |-> 0]>>, !.pAcc = TRUE],
                              !.cn.nextRecvId = x + 2, !.cn.numRecv = @ + 1, !.cn.pa = Append(@, x)]
            IN TransitionAfter(G1, x)
      [] f.ty \in {"HEADERS", "PHEADERS"} ->
            IF ~(G.s[x].inStore /\ G.s[x].linked) \/ IsLocalErrorSt(G.s[x].state) THEN G
            ELSE LET r == G.s[x]
                     st2 == RecvOpenHdrSt(r.state, f.eos)
                     \* a promised stream is counted when its response HEADERS arrive (is_initial && !is_counted)
                     G0 == IF r.state.k = "ResRemote" /\ ~r.counted THEN [G EXCEPT !.s[x].counted = TRUE, !.cn.numRecv = @ + 1] ELSE G
                     G1 == NotifyRecv([G0 EXCEPT !.s[x].state = st2, !.s[x].rq = Append(@, [k |-> "H", n |-> 0])], x)
                     G2 == IF IsRecvEndStreamSt(st2) THEN NotifyPush(G1, x) ELSE G1
                 IN TransitionAfter(G2, x)
      [] f.ty = "TRAILERS" ->
            IF ~(G.s[x].inStore /\ G.s[x].linked) \/ IsLocalErrorSt(G.s[x].state) THEN G
            ELSE TransitionAfter(NotifyPush(NotifyRecv([G EXCEPT !.s[x].state = RecvCloseSt(@), !.s[x].rq = Append(@, [k |-> "T", n |-> 0])], x), x), x)
      [] f.ty = "DATA" ->
            IF ~(G.s[x].inStore /\ G.s[x].linked) THEN G
            ELSE LET r == G.s[x]
                     \* consume_connection_window
                     G0 == [G EXCEPT !.cn.cwinR = @ - f.n, !.cn.cavailR = @ - f.n, !.cn.cinfl = @ + f.n]
                 IN IF IsLocalErrorSt(r.state) THEN TransitionAfter(ReleaseConnCapacity(G0, f.n, FALSE), x)   \* ignore_data
                    ELSE IF ~r.isRecv                                                                    \* "no one cared about it" (issue 648)
                    THEN LET stq == IF f.eos THEN RecvCloseSt(r.state) ELSE r.state
                             Gq == ReleaseConnCapacity([G0 EXCEPT !.s[x].state = stq], f.n, FALSE)
                         IN TransitionAfter(IF IsRecvEndStreamSt(stq) THEN NotifyPush(Gq, x) ELSE Gq, x)          \* (notify_push since fix 2f90fc4)
                    ELSE LET st2 == IF f.eos THEN RecvCloseSt(r.state) ELSE r.state
                             G1 == [G0 EXCEPT !.s[x].state = st2, !.s[x].rwin = @ - f.n, !.s[x].ravail = @ - f.n, !.s[x].infl = @ + f.n]
                             G2 == IF f.n = 0 /\ ~f.eos THEN G1
                                   ELSE LET G3 == NotifyRecv([G1 EXCEPT !.s[x].rq = Append(@, [k |-> "D", n |-> f.n])], x)
                                        IN IF IsRecvEndStreamSt(st2) THEN NotifyPush(G3, x) ELSE G3
                         IN TransitionAfter(G2, x)
      [] f.ty = "RST" ->
            IF ~(G.s[x].inStore /\ G.s[x].linked) THEN G
            ELSE LET r == G.s[x]
                     queued == r.pSend \/ r.q # <<>>
                     st2 == IF IsClosedSt(r.state) /\ ~queued THEN r.state
                            ELSE StClosedErr(IsRecvEndStreamSt(r.state), "reset", "Remote", f.code)
                     G1 == NotifyAll([G EXCEPT !.s[x].state = st2], x)                              \* Recv::recv_reset
                 IN TransitionAfter(ReclaimAll(ClearQueue(G1, x), x), x)                            \* Send::handle_error
      [] f.ty = "PP" ->                                                                             \* Inner::recv_push_promise: sid = parent, n = promised id
            IF ~(G.s[x].inStore /\ G.s[x].linked) THEN G
            ELSE IF IsLocalErrorSt(G.s[x].state)
            THEN G       \* the promise is refused: RST_STREAM(CANCEL) on the promised id through a new record (abstraction: not followed)
            ELSE LET p == f.n
                     G1 == [G EXCEPT !.s[p] = [NewStr(G.cn.initWin) EXCEPT !.state = StResRemote, !.rq = <<[k |-> "H", n |-> 0]>>],
                                     !.cn.nextRecvId = p + 2]                                        \* Recv::open
                     G2 == NotifyPush(NotifyRecv(G1, p), p)                                         \* Recv::recv_push_promise (no-ops on a new record)
                     G3 == [TransitionAfter(G2, p) EXCEPT !.s[x].ppq = Append(@, p), !.s[p].pAcc = TRUE]   \* store::Queue<NextAccept>: is_pending_accept
                 IN NotifyPush(G3, x)
      [] f.ty = "GOAWAY" ->                                                                         \* Inner::recv_go_away(last = f.n)
            LET G1 == [G EXCEPT !.cn.err = "goaway", !.cn.maxId = f.n]
            IN EndStreams(G1, {y \in Linked(G1) : y > f.n /\ IsLocalInit(y)}, StClosedErr(FALSE, "goaway", "Remote", f.code))
      [] f.ty = "EOF" -> ConnDone(G)

ConnRecv ==
    /\ cn.ct = "active" /\ inbox # <<>>
    /\ Commit(RecvFrame(Cur, Head(inbox)))
    /\ inbox' = Tail(inbox)
    /\ UNCHANGED <<app, srp>>

\* Recv::buffer_pending: connection and stream WINDOW_UPDATEs that are due
RECURSIVE SendStreamWUs(_)
SendStreamWUs(G) ==
    IF G.cn.pwu = <<>> THEN G
    ELSE LET x == Head(G.cn.pwu)
             G0 == [G EXCEPT !.cn.pwu = Tail(@), !.s[x].pWU = FALSE]
             r == G0.s[x]
             u == Unclaimed(r.rwin, r.ravail)
             G1 == IF IsRecvStreamingSt(r.state) /\ u > 0
                   THEN Emit([G0 EXCEPT !.s[x].rwin = @ + u], OutEv("WINDOW_UPDATE", x, u, FALSE)) ELSE G0
         IN SendStreamWUs(TransitionAfter(G1, x))
SendWUs(G) ==
    LET u == Unclaimed(G.cn.cwinR, G.cn.cavailR)
        G1 == IF u > 0 THEN Emit([G EXCEPT !.cn.cwinR = @ + u], OutEv("WINDOW_UPDATE", 0, u, FALSE)) ELSE G
    IN SendStreamWUs(G1)
\* Prioritize::pop_pending_open (+ push_front + try_assign_capacity in buffer_pending)
PopPendingOpen(G) ==
    IF G.cn.maxSend > G.cn.numSend /\ G.cn.po # <<>>
    THEN LET x == Head(G.cn.po)
             G1 == [G EXCEPT !.cn.po = Tail(@), !.s[x].pOpen = FALSE, !.s[x].counted = TRUE, !.cn.numSend = @ + 1]
         IN TryAssign(PushFrontPS(NotifySend(G1, x), x), x)                     \* stream.notify_send(): the poll_ready waiter
    ELSE G
\* Prioritize::pop_frame: returns the machine with .popped = TRUE if a frame was written
RECURSIVE PopLoop(_)
PopLoop(G) ==
    IF G.cn.ps = <<>> THEN [G |-> G, popped |-> FALSE]
    ELSE LET x == Head(G.cn.ps)
             G0 == [G EXCEPT !.cn.ps = Tail(@), !.s[x].pSend = FALSE]
             r == G0.s[x]
         IN IF r.q # <<>>
            THEN LET f == Head(r.q) IN
                 IF f.k = "D" /\ IsSchedSt(r.state) /\ r.state.code # NO_ERROR
                 THEN PopLoop(PushPS(ReclaimAll(ClearQueue(G0, x), x), x))
                 ELSE IF f.k = "D" /\ f.n > 0 /\ Clamp0(r.avail) = 0 THEN PopLoop(G0)             \* "stream capacity is 0": left unscheduled
                 ELSE IF f.k = "D" /\ f.n > 0 /\ Min(f.n, Clamp0(r.avail)) > Clamp0(r.win) THEN PopLoop(G0)
                 ELSE IF f.k = "D"
                 THEN \* only up to the stream's capacity is written; the rest stays with the codec until reclaim_frame gives it back
                      LET len == Min(f.n, Clamp0(r.avail))
                          rest == f.n - len
                          prev == Capacity(r)
                          G1 == [G0 EXCEPT !.s[x].q = Tail(@), !.s[x].win = @ - len, !.s[x].avail = @ - len, !.s[x].buf = @ - len,
                                           !.s[x].req = @ - len, !.cn.cwin = @ - len,
                                           !.cn.infl = IF rest > 0 THEN [s |-> x, n |-> rest, eos |-> f.eos] ELSE @]
                          G2 == IF prev < Capacity(G1.s[x]) THEN NotifyCapacity(G1, x) ELSE G1     \* Stream::send_data
                          G3 == IF G2.s[x].q # <<>> \/ IsSchedSt(G2.s[x].state) THEN PushPS(G2, x) ELSE G2
                      IN [G |-> TransitionAfter(Emit(G3, OutEv("DATA", x, len, f.eos /\ rest = 0)), x), popped |-> TRUE]
                 ELSE LET G1 == [G0 EXCEPT !.s[x].q = Tail(@)]
                          G3 == IF G1.s[x].q # <<>> \/ IsSchedSt(G1.s[x].state) THEN PushPS(G1, x) ELSE G1
                          ty == IF f.k = "H" THEN "HEADERS" ELSE "RST_STREAM"
                      IN [G |-> TransitionAfter(Emit(G3, OutEv(ty, x, f.code, f.eos)), x), popped |-> TRUE]
            ELSE IF IsSchedSt(r.state)
                 THEN LET G1 == SetReset(G0, x, "Library", r.state.code)
                      IN [G |-> TransitionAfter(Emit(G1, OutEv("RST_STREAM", x, r.state.code, FALSE)), x), popped |-> TRUE]
                 ELSE PopLoop(TransitionAfter(G0, x))                                               \* dangling stream
\* one round of Streams::poll_complete's buffer_pending loop: window updates, one pending open, one frame;
\* when nothing is left (BufferStatus::Complete) Actions.task is registered IN THE SAME critical section and the task parks
\* (unless frames from the peer are waiting, or the connection has to close: GOAWAY received and no stream left)
\* Prioritize::reclaim_frame (Streams::poll_complete after the flush - its own lock hold): the rest of a partly written DATA frame
\* goes back to the front of the stream's queue; the stream is scheduled if it still has capacity
Reclaim(G) ==
    LET x == G.cn.infl.s
        G1 == [G EXCEPT !.cn.infl = NoInfl, !.s[x].q = <<FData(G.cn.infl.n, G.cn.infl.eos)>> \o @]
    IN IF G1.s[x].avail > 0 THEN PushPS(G1, x) ELSE G1
\* client::Connection::poll: no SendRequest, no stream handle, no counted stream: the connection says GOAWAY(NO_ERROR) and ends
NoRefs(G) == Streams # {} /\ ~OtherRefs(G) /\ srp < 0 /\ G.cn.numSend = 0 /\ G.cn.numRecv = 0
ConnPop ==
    /\ cn.ct = "active" /\ inbox = <<>>
    /\ LET PL == PopLoop(PopPendingOpen(SendWUs(Cur)))
           G == PL.G
       IN IF cn.infl.s # 0 THEN Commit(Reclaim(Cur))
          ELSE IF PL.popped THEN Commit(G)
          ELSE IF G.cn.err = "goaway" /\ G.cn.numSend = 0 /\ G.cn.numRecv = 0
          THEN Commit(ConnDone(G))                                               \* go_away_now(NO_ERROR) .. handle_go_away .. Drop
          ELSE IF NoRefs(G)
          THEN Commit(ConnDone(G))                                               \* client: maybe_close_connection_if_no_streams / "wake again"
          ELSE Commit([G EXCEPT !.cn.task = TRUE, !.cn.ct = "parked"])
    /\ UNCHANGED <<app, srp, inbox>>

\* =====================================================================================================
\* Invariants (see MC_Tasks)
\* =====================================================================================================
Parked(t) == tk[t].call # "none"
Quiescent == cn.ct # "active" /\ \A t \in Tasks : ~tk[t].woken
\* (C06) no lost wake-up of an application task: at a quiescence no task is parked in a call that would return Ready now
NoLostWakeup == Quiescent => \A t \in Tasks : Parked(t) => ~WouldBeReady(Cur, tk[t].call, tk[t].sid)
\* (C06) the connection task is not parked while it has work it could do
ConnWork == \/ \E i \in 1..Len(cn.ps) : LET r == str[cn.ps[i]] IN
                   r.q = <<>> \/ Head(r.q).k # "D" \/ Head(r.q).n = 0 \/ (Clamp0(r.avail) > 0 /\ Clamp0(r.win) > 0) \/ IsSchedSt(r.state)
            \/ (cn.po # <<>> /\ cn.maxSend > cn.numSend)
            \/ Unclaimed(cn.cwinR, cn.cavailR) > 0
            \/ NoRefs(Cur)                                                        \* it has to close
            \/ \E i \in 1..Len(cn.pwu) : LET r == str[cn.pwu[i]] IN IsRecvStreamingSt(r.state) /\ Unclaimed(r.rwin, r.ravail) > 0
ConnNotIdleWithWork == (cn.ct = "parked" /\ Quiescent) => ~ConnWork
\* ... because whoever gives it work takes the registered waker: parked with work => already woken
ConnRegistered == cn.ct = "parked" => cn.task
\* frames that could be sent are scheduled (nothing sendable is forgotten outside the queues)
Sendable(r) == r.q # <<>> /\ ~r.pOpen /\ (Head(r.q).k # "D" \/ Head(r.q).n = 0 \/ (Clamp0(r.avail) > 0 /\ Clamp0(r.win) > 0))
NoLostSchedule == \A x \in AllIds : str[x].inStore /\ Sendable(str[x]) => str[x].pSend
\* (C07) after the connection ended nothing stays parked
\* (excused: poll_trailers while DATA is still queued waits for the application itself - the same handle - to read the data)
Excused(t) == tk[t].call = "poll_trailers" /\ str[tk[t].sid].rq # <<>>
AllResolvedAtEnd == (cn.ct = "done" /\ Quiescent) => \A t \in Tasks : Parked(t) => Excused(t)
\* (G) form: poll_reset on a stream that ended without a reset is known to wait for ever (finding F-T2)
ResetOnCleanEnd(t) == tk[t].call = "poll_reset" /\ IsClosedSt(str[tk[t].sid].state) /\ str[tk[t].sid].state.cause = "ES"
AllResolvedAtEndG == (cn.ct = "done" /\ Quiescent) => \A t \in Tasks : Parked(t) => Excused(t) \/ ResetOnCleanEnd(t)
\* (C08) waker slots: a parked task that has not been woken sits in the slot its call registered in (nobody overwrote it) ...
SlotHeld == \A t \in Tasks : Parked(t) /\ ~tk[t].woken => SlotOf(Cur, tk[t].call, tk[t].sid) = t
\* ... and a slot holds only a task parked in a call that waits in this slot (no stale waker is ever woken)
SlotsFresh == \A x \in AllIds : str[x].inStore =>
                 /\ str[x].sendTask # NoTask => Parked(str[x].sendTask) /\ tk[str[x].sendTask].sid = x /\ tk[str[x].sendTask].call \in {"poll_capacity", "poll_reset"}
                 /\ str[x].openTask # NoTask => Parked(str[x].openTask) /\ tk[str[x].openTask].sid = x /\ tk[str[x].openTask].call = "poll_ready"
                 /\ str[x].recvTask # NoTask => Parked(str[x].recvTask) /\ tk[str[x].recvTask].sid = x /\ tk[str[x].recvTask].call \in {"poll_response", "poll_data", "poll_trailers"}
                 /\ str[x].pushTask # NoTask => Parked(str[x].pushTask) /\ tk[str[x].pushTask].sid = x /\ tk[str[x].pushTask].call = "poll_push"
\* structure
QueuesConsistent ==
    /\ \A x \in AllIds : /\ str[x].pSend = (\E i \in 1..Len(cn.ps) : cn.ps[i] = x)
                         /\ str[x].pCap = (\E i \in 1..Len(cn.pcq) : cn.pcq[i] = x)
                         /\ str[x].pOpen = (\E i \in 1..Len(cn.po) : cn.po[i] = x)
                         /\ str[x].pWU = (\E i \in 1..Len(cn.pwu) : cn.pwu[i] = x)
                         /\ ~str[x].inStore => str[x] = NoStr
    /\ cn.numSend = Cardinality({x \in Streams : str[x].counted})
    /\ cn.numRecv = Cardinality({x \in Pushed \cup Remote : str[x].counted})
    /\ \A x \in AllIds : str[x].refs = Cardinality({h \in {"send", "recv", "push", "ss"} : app[x][h]}) + (IF srp = x THEN 1 ELSE 0)
FlowSane == /\ \A x \in AllIds : str[x].avail >= 0 /\ str[x].buf >= 0 /\ str[x].infl >= 0
            /\ cn.cavail >= 0 /\ cn.cinfl >= 0
=============================================================================
