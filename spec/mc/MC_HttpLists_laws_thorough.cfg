SPECIFICATION Spec
CONSTANTS
  MaxLen = 4
  FullLen = 0
INVARIANT Cached
INVARIANT GrammarAgrees
INVARIANT Exclusive
INVARIANT Inclusions
INVARIANT Anatomy
PROPERTY Persist
PROPERTY AppendLaws
CHECK_DEADLOCK FALSE
