----------------------------- MODULE MC_IoChunk -----------------------------
(***************************************************************************)
(* Bounded configurations of IoChunk (see the .cfg files):                 *)
(*  MC_IoChunk_nv / _v   exhaustive invariant check, non-vectored (chain   *)
(*                       threshold 1024) / vectored (256) transport        *)
(*  MC_IoChunk_exp*      the same with Record = TRUE: one exported case    *)
(*                       per terminal state = (items, write-accept pattern,*)
(*                       read-chunk pattern), printed as JSON              *)
(***************************************************************************)
EXTENDS IoChunk, Json

M == MaxSend
T == Threshold
It(k, n) == [k |-> k, n |-> n]

\* sizes below / at / above the chain threshold and the frame-size limit;
\* header blocks needing 0, 1, 2 CONTINUATION frames; PUSH_PROMISE at the 4-octet boundary
KindsFull == { It("ctl", 8),
               It("data", 0), It("data", T - 1), It("data", T), It("data", T + 1), It("data", M), It("data", M + 1),
               It("hdr", 10), It("hdr", M), It("hdr", M + 1), It("hdr", 2 * M + 1),
               It("pp", M - 4), It("pp", M - 3) }
KindsSmall == { It("ctl", 8), It("data", T - 1), It("data", T), It("data", M), It("hdr", M + 1), It("pp", M - 3) }
\* enough small frames to exhaust has_capacity (16384 - len >= threshold + 9)
KindsFill == { It("data", T - 1), It("hdr", M - 1500), It("data", T) }

CaseOf == [vectored |-> Vectored, max_send |-> MaxSend, max_recv |-> MaxRecv,
           items |-> items, staged |-> staged, hist |-> hist,
           wire_len |-> LenB(wire), werr |-> werr, rerr |-> rerr, nout |-> Len(out),
           decl |-> [j \in 1..Len(hdl) |-> hdl[j].len]]

\* the largest legal frame size (2^24-1): sizes only, a handful of items
KindsBig == { It("ctl", 8), It("data", M), It("data", M + 1), It("hdr", M + 1) }
\* receive limit below the send limit: frames the reader must refuse
KindsOver == { It("ctl", 8), It("data", MaxRecv), It("data", MaxRecv + 1), It("data", M), It("hdr", MaxRecv + 1), It("hdr", M + 1) }
ExportInv == (Record /\ Terminal) => PrintT(ToJson(CaseOf))
=============================================================================
