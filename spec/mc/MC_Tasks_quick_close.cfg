SPECIFICATION MCSpec
VIEW View
CONSTANTS
  Streams = {1, 3}
  Pushed = {}
  Remote = {}
  InitWin = 1
  ConnWin = 2
  RecvWin = 4
  MaxBuf = 4
  MaxSend0 = 1
  NCall = 1
  NApp = 1
  NPeer = 2
  MaxData = 1
  CallKinds = {"poll_ready", "poll_response"}
  AppKinds = {"request", "request_keep", "drop_sr", "send_reset", "send_data", "drop_send", "drop_recv"}
  PeerKinds = {"SET_MAXC", "HEADERS", "RST"}
  IwsVals = {}
  MaxcVals = {0, 1}
  ReqEos = {FALSE, TRUE}
  Allow = {"shared_slot", "push_after_recv_drop", "cancel_pending_open"}
  ExportLen = 0
INVARIANT InvC06
INVARIANT InvC06conn
INVARIANT InvConnRegistered
INVARIANT InvSchedule
INVARIANT InvC07
INVARIANT InvC08
INVARIANT InvC08fresh
INVARIANT InvStructure
CHECK_DEADLOCK FALSE
