SPECIFICATION MCSpec
CONSTANTS
  Streams = {1, 3, 5}
  Pushed = {}
  Remote = {}
  InitWin = 1
  ConnWin = 3
  RecvWin = 6
  MaxBuf = 18
  MaxSend0 = 1
  NCall = 12
  NApp = 12
  NPeer = 10
  MaxData = 2
  CallKinds = {"poll_response", "poll_data", "poll_trailers", "poll_capacity", "poll_reset", "poll_ready"}
  AppKinds = {"request", "request_keep", "reserve", "send_data", "drop_recv", "drop_send", "drop_sr"}
  PeerKinds = {"HEADERS", "DATA", "WU", "SET_MAXC", "GOAWAY", "EOF"}
  IwsVals = {0, 1, 2}
  MaxcVals = {0, 1, 2}
  ReqEos = {FALSE, TRUE}
  Allow = {"shared_slot", "reset_after_end", "push_after_recv_drop", "cancel_pending_open"}
  ExportLen = 30
ACTION_CONSTRAINT Drained
ACTION_CONSTRAINT LateEnd
ACTION_CONSTRAINT Bias
ACTION_CONSTRAINT NoReqAfterErr
CONSTRAINT ExportStop
INVARIANT ExportInv
INVARIANT InvStructure
CHECK_DEADLOCK FALSE
