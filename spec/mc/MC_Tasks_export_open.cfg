SPECIFICATION MCSpec
CONSTANTS
  Streams = {1, 3, 5}
  Pushed = {}
  Remote = {}
  InitWin = 1
  ConnWin = 3
  RecvWin = 6
  MaxBuf = 18
  MaxSend0 = 1
  NCall = 14
  NApp = 12
  NPeer = 10
  MaxData = 2
  CallKinds = {"poll_ready", "poll_reset", "poll_capacity"}
  AppKinds = {"request_keep", "request", "send_data", "send_reset", "drop_send", "drop_recv"}
  PeerKinds = {"SET_MAXC", "HEADERS", "RST"}
  IwsVals = {0, 1, 2}
  MaxcVals = {0, 1, 2}
  ReqEos = {FALSE, TRUE}
  Allow = {"shared_slot", "reset_after_end", "push_after_recv_drop", "cancel_pending_open"}
  ExportLen = 40
ACTION_CONSTRAINT Drained
ACTION_CONSTRAINT LateEnd
ACTION_CONSTRAINT Bias
ACTION_CONSTRAINT NoReqAfterErr
CONSTRAINT ExportStop
INVARIANT ExportInv
INVARIANT InvStructure
CHECK_DEADLOCK FALSE
