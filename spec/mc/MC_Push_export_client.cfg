SPECIFICATION MCSpec
CONSTANTS
  Role = "c"
  Parents = {1, 3}
  NPush = 3
  InitMaxSend = 1000
  InitMaxRecv = 2
  ResetMax = 1
  ErrorResetMax = 3
  LazyClient = TRUE
  OldPushBugs = FALSE
  OldIdleCheck = FALSE
  NPeer = 12
  NAppX = 0
  NTick = 0
  NIdle = 3
  PeerKinds = {"pp", "resp", "data", "rst", "wu"}
  LimitVals = {}
  AllowNoPush = FALSE
  AllowEof = TRUE
  AllowGoAway = FALSE
  AllowMalformedPush = FALSE
  AllowBlock = FALSE
  ExportLen = 20
  HasFiller = FALSE
  SimDrops = TRUE
ACTION_CONSTRAINT StepsOk
CONSTRAINT ExportStop
INVARIANT ExportInv
INVARIANT InvStructure
CHECK_DEADLOCK FALSE
