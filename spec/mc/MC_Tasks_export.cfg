SPECIFICATION MCSpec
CONSTANTS
  Streams = {1, 3}
  Pushed = {}
  Remote = {}
  InitWin = 1
  ConnWin = 3
  RecvWin = 6
  MaxBuf = 18
  MaxSend0 = 2
  NCall = 14
  NApp = 18
  NPeer = 24
  MaxData = 1
  CallKinds = {"poll_capacity"}
  AppKinds = {"request", "reserve", "send_data", "send_reset", "drop_send"}
  PeerKinds = {"WU", "SET_IWS", "RST"}
  IwsVals = {0, 2}
  MaxcVals = {0, 1, 2}
  ReqEos = {FALSE}
  Allow = {"shared_slot", "reset_after_end", "push_after_recv_drop", "cancel_pending_open"}
  ExportLen = 36
ACTION_CONSTRAINT Drained
ACTION_CONSTRAINT LateEnd
ACTION_CONSTRAINT Bias
ACTION_CONSTRAINT NoReqAfterErr
CONSTRAINT ExportStop
INVARIANT ExportInv
INVARIANT InvStructure
CHECK_DEADLOCK FALSE
