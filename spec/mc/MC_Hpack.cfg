SPECIFICATION Spec
CONSTANTS
  Fields <- MCFields
  Sizes <- MCSizes
  InitSize = 80
  MaxHist = 14
VIEW view
INVARIANT SyncInv
CONSTRAINT HistBound
ACTION_CONSTRAINT Export
CHECK_DEADLOCK FALSE
