SPECIFICATION Spec
CONSTANTS
  MaxBlk = 4
  MaxPre = 5
VIEW View
ACTION_CONSTRAINT Export
INVARIANT Inv
CHECK_DEADLOCK FALSE
