------------------------------ MODULE MC_Tasks ------------------------------
(* Bounded configurations of the wake-up model (H2Tasks).
   The application: every task may enter any call its handle allows, in any order, any number of times within the
   budgets (NCall parking calls, NApp non-parking calls); a task whose waker fired polls again at any later moment;
   handles are dropped at any moment.  The peer cooperates but is otherwise free (NPeer frames of the kinds in PeerKinds).
   The connection task runs when woken, one critical section at a time, interleaved with everything else.
   Invariants: see the end of H2Tasks and below.  (G) = holds for the code as it is; (S) = the strict form, violated by
   the code - MC_Tasks_findings.cfg shows the counterexamples (notes/tasks_model.md, findings).
   Export mode (ExportLen > 0): TLC -simulate prints behaviours under schedules the simulator reproduces: a new
   call / peer frame only at a quiescence, the connection task first, then the woken tasks. *)
EXTENDS H2Tasks, Json

CONSTANTS MaxSend0,        \* the peer's SETTINGS_MAX_CONCURRENT_STREAMS at the start
          NCall, NApp, NPeer,
          MaxData,         \* send_data / DATA sizes 0..MaxData, reserve_capacity 0..MaxData + 1
          CallKinds,       \* subset of {"poll_capacity", "poll_reset", "poll_ready", "poll_response", "poll_data", "poll_trailers", "poll_push"}
          AppKinds,        \* subset of {"request", "request_keep", "reserve", "send_data", "send_reset", "release", "drop_send", "drop_recv", "drop_push", "hold_push"}
          PeerKinds,       \* subset of {"WU", "SET_IWS", "SET_MAXC", "HEADERS", "PHEADERS", "DATA", "TRAILERS", "RST", "PP", "GOAWAY", "EOF"}
          IwsVals, MaxcVals, ReqEos,
          Allow,           \* situations in which the code loses a wake-up (findings, notes/tasks_model.md): the environment avoids them unless listed
                           \*  "shared_slot": SendRequest::poll_ready and the pending stream's own SendStream wait at the same time (one send_task)
                           \*  "reset_after_end": poll_reset is entered on a stream that ended without a reset
                           \*  "push_after_recv_drop": the RecvStream is dropped while the PushPromises handle of the stream is alive
                           \*  "cancel_pending_open": the last handle of a request that is still pending open (not yet sent) is dropped
          ExportLen

VARIABLES bud, hist,
          todo     \* export: calls the simulator's tasks make by themselves right after the last step (see Forced)
mvars == <<tvars, bud, hist, todo>>

MCInit == Init0(MaxSend0) /\ bud = [call |-> NCall, app |-> NApp, peer |-> NPeer, drop |-> NApp] /\ hist = <<>> /\ todo = <<>>

Use(k) == IF todo # <<>> THEN UNCHANGED bud ELSE bud[k] > 0 /\ bud' = [bud EXCEPT ![k] = bud[k] - 1]
Export == ExportLen > 0
AllCalls == {"poll_capacity", "poll_reset", "poll_ready", "poll_response", "poll_data", "poll_trailers", "poll_push"}

ParkedSet == {[task |-> t, call |-> tk[t].call, sid |-> tk[t].sid] : t \in {u \in Tasks : Parked(u)}}
\* what the simulator's application tasks do in the same breath (export mode only):
\*  - poll_response failed: the ResponseFuture task drops the future;
\*  - ResponseFuture::push_promises(): the push poller task starts polling, the response task polls the response;
\*  - poll_push_promise returned a promise: the poller polls again, a new task polls the pushed response;
\*  - poll_push_promise returned None / an error: the poller drops its handle
Forced(x, ev) ==
    IF ~Export THEN <<>>
    ELSE IF x[1] \in {"call", "repoll"} /\ x[3] = "poll_response" /\ ev[Len(ev)].res = "err" THEN << <<"drop", x[4], "recv">> >>
    ELSE IF x[1] = "hold_push" THEN << <<"call", R(x[2]), "poll_response", x[2]>>, <<"call", P(x[2]), "poll_push", x[2]>> >>
    ELSE IF x[1] \in {"call", "repoll"} /\ x[3] = "poll_push" /\ ev[Len(ev)].res = "some"
         THEN << <<"call", P(x[4]), "poll_push", x[4]>>, <<"call", R(ev[Len(ev)].v), "poll_response", ev[Len(ev)].v>> >>
    ELSE IF x[1] \in {"call", "repoll"} /\ x[3] = "poll_push" /\ ev[Len(ev)].res \in {"none", "err"} THEN << <<"drop", x[4], "push">> >>
    ELSE <<>>
H(x) == /\ (IF todo = <<>> THEN TRUE ELSE Head(todo) = x)
        /\ todo' = (IF todo = <<>> THEN todo ELSE Tail(todo)) \o Forced(x, evs')
        /\ hist' = IF Export THEN Append(hist, [a |-> x, ev |-> evs', q |-> Quiescent', parked |-> ParkedSet', done |-> cn'.ct = "done",
                                              act |-> cn'.ct = "active", forced |-> todo # <<>>, todo |-> todo' # <<>>]) ELSE hist

PeerFrames ==
    {Frame("WU", x, n, FALSE, 0) : x \in {0} \cup Streams \cup Remote, n \in 1..MaxData} \cup
    {Frame("REQ", x, 0, e, 0) : x \in Remote, e \in BOOLEAN} \cup
    {Frame("SET_IWS", 0, n, FALSE, 0) : n \in IwsVals} \cup
    {Frame("SET_MAXC", 0, n, FALSE, 0) : n \in MaxcVals} \cup
    {Frame("HEADERS", x, 0, e, 0) : x \in Streams, e \in BOOLEAN} \cup
    {Frame("PHEADERS", x, 0, e, 0) : x \in Pushed, e \in BOOLEAN} \cup
    {Frame("DATA", x, n, e, 0) : x \in AllIds, n \in 0..MaxData, e \in BOOLEAN} \cup
    {Frame("TRAILERS", x, 0, TRUE, 0) : x \in AllIds} \cup
    {Frame("RST", x, 0, FALSE, CANCEL) : x \in AllIds} \cup
    {Frame("PP", x, p, FALSE, 0) : x \in Streams, p \in Pushed} \cup
    {Frame("GOAWAY", 0, n, FALSE, NO_ERROR) : n \in {0} \cup Streams} \cup
    {Frame("EOF", 0, 0, FALSE, 0)}

\* the two uses of a stream's send_task by DIFFERENT tasks (finding F-T1) are kept apart unless SharedSlot
SlotRule(t, c, x) ==
    IF "shared_slot" \in Allow THEN TRUE
    ELSE IF c \in {"poll_capacity", "poll_reset"} THEN ~(Parked(SR) /\ tk[SR].sid = x)
    ELSE IF c = "poll_ready" /\ x # 0 THEN ~Parked(W(x))
    ELSE TRUE
\* poll_reset on a stream that ended without a reset waits for ever (finding F-T2): not entered unless PollResetAfterEnd
ResetRule(c, x) ==
    IF "reset_after_end" \in Allow \/ c # "poll_reset" \/ x = 0 THEN TRUE
    ELSE ~(IsClosedSt(str[x].state) /\ str[x].state.cause = "ES")

DropRule(x, h) == /\ (IF "push_after_recv_drop" \in Allow \/ h # "recv" THEN TRUE ELSE ~(app[x].resp /\ app[x].push))
                  /\ (IF "cancel_pending_open" \in Allow THEN TRUE ELSE ~(str[x].pOpen /\ str[x].refs = 1))

MCNext ==
    \* ---- the application: calls that can park ----
    \/ \E t \in Tasks, c \in AllCalls, x \in AllIds \cup {0} :
          /\ (IF todo = <<>> THEN c \in CallKinds ELSE TRUE)
          /\ (IF x = 0 THEN c = "poll_ready" ELSE TRUE) /\ SlotRule(t, c, x) /\ ResetRule(c, x)
          \* (export: the simulator's response writer can call poll_reset only on the SendStream)
          /\ (IF Export /\ c = "poll_reset" /\ x \in Remote THEN app[x].ss ELSE TRUE)
          /\ Use("call") /\ Call(t, c, x) /\ H(<<"call", t, c, x>>)
    \/ \E t \in Tasks : Repoll(t) /\ UNCHANGED bud /\ H(<<"repoll", t, tk[t].call, tk[t].sid>>)
    \* ---- the application: calls that cannot park ----
    \/ \E x \in Streams, e \in ReqEos : "request" \in AppKinds /\ SendRequest(x, e, FALSE) /\ UNCHANGED bud /\ H(<<"request", x, e, FALSE>>)
    \/ \E x \in Streams, e \in ReqEos : "request_keep" \in AppKinds /\ SendRequest(x, e, TRUE) /\ UNCHANGED bud /\ H(<<"request", x, e, TRUE>>)
    \/ \E x \in AllIds, n \in 0..(MaxData + 1) : "reserve" \in AppKinds /\ Use("app") /\ ReserveCapacity(x, n) /\ H(<<"reserve", x, n>>)
    \/ \E x \in AllIds, n \in 0..MaxData, e \in BOOLEAN : "send_data" \in AppKinds /\ Use("app") /\ SendData(x, n, e) /\ H(<<"send_data", x, n, e>>)
    \/ \E x \in AllIds : "send_reset" \in AppKinds /\ Use("app") /\ SendReset(x) /\ H(<<"send_reset", x>>)
    \/ \E x \in AllIds, n \in 1..MaxData : "release" \in AppKinds /\ Use("app") /\ n <= str[x].infl /\ ReleaseCapacity(x, n) /\ H(<<"release", x, n>>)
    \/ \E x \in AllIds, h \in {"send", "recv", "push"} : (IF todo = <<>> THEN ("drop_" \o h) \in AppKinds ELSE TRUE) /\ DropRule(x, h) /\ Use("drop") /\ DropHandle(x, h) /\ H(<<"drop", x, h>>)
    \/ "drop_sr" \in AppKinds /\ DropSr /\ UNCHANGED bud /\ H(<<"drop_sr">>)
    \/ "accept" \in AppKinds /\ Accept /\ UNCHANGED bud /\ H(<<"accept", Head(cn.pa)>>)
    \/ \E x \in Remote, e \in BOOLEAN : "send_response" \in AppKinds /\ SendResponse(x, e) /\ UNCHANGED bud /\ H(<<"send_response", x, e>>)
    \/ \E x \in Streams : "hold_push" \in AppKinds /\ HoldPush(x) /\ UNCHANGED bud /\ H(<<"hold_push", x>>)
    \* ---- the peer ----
    \/ \E f \in PeerFrames : f.ty \in PeerKinds /\ PeerMay(f) /\ Use("peer") /\ PeerSend(f) /\ H(<<"peer", f>>)
    \* ---- the connection task ----
    \/ ConnRecv /\ UNCHANGED bud /\ H(<<"conn_recv">>)
    \/ ConnPop /\ UNCHANGED bud /\ H(<<"conn_pop">>)

MCSpec == MCInit /\ [][MCNext]_mvars

View == <<str, cn, tk, app, srp, inbox, bud, todo>>

\* ---- invariants ---------------------------------------------------------------------------------------------------------
InvC06 == NoLostWakeup                  \* (G) no task parked at a quiescence in a call that would return Ready
InvC06conn == ConnNotIdleWithWork       \* (G) the connection task is not parked with work it could do
InvConnRegistered == ConnRegistered     \* (G) a parked connection task is registered in Actions.task
InvSchedule == NoLostSchedule           \* (G) whatever can be sent is scheduled
InvC07 == AllResolvedAtEndG             \* (G) after the connection ended nothing stays parked (except F-T2: poll_reset on a cleanly ended stream)
InvC07strict == AllResolvedAtEnd        \* (S) ... nothing at all
InvC08 == SlotHeld                      \* (G with SharedSlot = FALSE; (S) otherwise) nobody overwrote the slot of a parked task
InvC08fresh == SlotsFresh               \* (G) a slot only holds a task parked in a call that waits in this slot
InvStructure == QueuesConsistent /\ FlowSane
\* the latent form of C06: a parked, not yet woken task is reachable by the notifier of the event it waits for

\* ---- export for replay ----------------------------------------------------------------------------------------------------
LastA == hist'[Len(hist')].a[1]
IsSys == LastA \in {"repoll", "conn_recv", "conn_pop"}
\* a new call / a peer frame only at a quiescence; the connection task first (it is the first task of the simulator's FIFO scheduler);
\* the forced follow-up calls come at once
Drained == IF todo # <<>> THEN TRUE
           ELSE (~Quiescent => IsSys) /\ (cn.ct = "active" => LastA \in {"conn_recv", "conn_pop"})
\* (bias of the random simulation) calls that can only fail, drops and resets are thinned out
Bias == LET a == hist'[Len(hist')].a IN
    /\ a[1] \in {"send_data", "reserve"} => (IsSendStreamingSt(str[a[2]].state) \/ Len(hist) % 7 = 0)
    /\ a[1] \in {"drop", "send_reset"} => (Len(hist) % 3 = 0 \/ todo # <<>>)
    /\ (a[1] = "call" /\ a[3] = "poll_capacity") => (IsSendStreamingSt(str[a[4]].state) \/ Len(hist) % 7 = 0)
    /\ (a[1] = "send_data" /\ a[3] = 0) => a[4]
    /\ (a[1] = "peer" /\ a[2].ty = "WU" /\ a[2].sid # 0) => (str[a[2].sid].req > str[a[2].sid].avail \/ Len(hist) % 5 = 0)
    /\ (a[1] = "peer" /\ a[2].ty = "WU" /\ a[2].sid = 0) => (cn.pcq # <<>> \/ Len(hist) % 5 = 0)

    /\ (a[1] = "peer" /\ a[2].ty = "RST") => Len(hist) % 3 = 0
    /\ (a[1] = "peer" /\ a[2].ty \in {"SET_IWS", "SET_MAXC"}) => Len(hist) % 2 = 0
\* no request after the connection failed (the replay numbers its requests in advance)
NoReqAfterErr == LastA = "request" => cn.err = "none"
\* (bias) the end of the connection comes late
LateEnd == /\ (LastA = "peer" /\ hist'[Len(hist')].a[2].ty \in {"EOF", "GOAWAY"}) => Len(hist) + 10 >= ExportLen
           /\ LastA = "drop_sr" => Len(hist) + 16 >= ExportLen
Finished == Len(hist) >= ExportLen /\ todo = <<>>
ExportInv == (Finished /\ Quiescent) =>
                 PrintT(<<"REPLAY", ToJson([maxsend |-> MaxSend0, initwin |-> InitWin, recvwin |-> RecvWin, server |-> Remote # {}, hist |-> hist])>>)
ExportStop == ~(Finished /\ Quiescent)
=============================================================================
