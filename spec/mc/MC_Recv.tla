------------------------------ MODULE MC_Recv ------------------------------
(* Bounded configuration of the receive-side implementation model composed with
   the wire contract: a LEGAL peer (it never sends more than the windows it has been
   told about - the monitor's ledger is its knowledge) sends DATA padded or not, on
   live / locally reset / handle-dropped streams, exhausting windows exactly; the
   application reads, releases, drops, resets, changes the target window and the
   initial window (applied only at the peer's ACK). Checked in every state: the
   over-credit rules; at every state where the connection task has nothing left to
   do (quiescence): the leak rules of C03. *)
EXTENDS H2Recv, Json

CONSTANTS IW, CW, DataSizes, Pads, RelSizes, Targets, SetVals,
          NData, NRel, NDrop, NRst, NTarget, NSet, ExportLen

W == INSTANCE H2Wire

VARIABLES wm, bud, hist
mvars == <<rvars, wm, bud, hist>>

Cfg == [conn_win |-> CW]
RECURSIVE FeedW(_, _)
FeedW(m, es) == IF es = <<>> THEN m ELSE FeedW(W!Step(m, Head(es), 0), Tail(es))
HeadersF(s) == [BaseFrame EXCEPT !.ty = "HEADERS", !.sid = s, !.len = 1, !.eh = TRUE, !.hb = TRUE, !.bt = "HEADERS"]
SeqOf(S) == LET F[T \in SUBSET S] == IF T = {} THEN <<>> ELSE LET t == CHOOSE t \in T : \A u \in T : t <= u IN <<t>> \o F[T \ {t}] IN F[S]
InitEvents == <<Out(SetF(IW)), In(SetAckF)>> \o [i \in 1..Cardinality(Streams) |-> In(HeadersF(SeqOf(Streams)[i]))] \o
              [i \in 1..Cardinality(Streams) |-> [BaseApi EXCEPT !.call = "accept", !.res = "some", !.sid = SeqOf(Streams)[i]]]

MCInit ==
    /\ Init0(IW, CW)
    /\ wm = FeedW([W!Init("s", Cfg) EXCEPT !.rcw = CW, !.maxTarget = CW], InitEvents)
    /\ bud = [data |-> NData, rel |-> NRel, drop |-> NDrop, rst |-> NRst, target |-> NTarget, set |-> NSet]
    /\ hist = <<>>

Mon == wm' = FeedW(wm, evs')
Use(k) == bud[k] > 0 /\ bud' = [bud EXCEPT ![k] = bud[k] - 1]
Proj == [rwin |-> rwin, ravail |-> ravail, infl |-> infl, cwin |-> cwinR, cavail |-> cavailR, cinfl |-> cinfl]
H(x) == hist' = IF ExportLen > 0 THEN Append(hist, [a |-> x, ev |-> evs', p |-> Proj']) ELSE hist

\* what the peer may still send: its knowledge is the monitor's ledger
PeerStreamWin(s) == SatAdd(wm.la.iws, W!S(wm, s).rsw)
PeerConnWin == wm.rcw

MCNext ==
    \/ \E s \in Streams, n \in DataSizes, p \in Pads, e \in BOOLEAN :
          /\ n + p > 0 \/ e
          /\ n + p <= PeerStreamWin(s) /\ n + p <= PeerConnWin
          /\ Use("data") /\ RecvData(s, n, p, e) /\ H(<<"data", s, n, p, e>>) /\ Mon
    \/ \E s \in Streams : PollData(s) /\ H(<<"poll_data", s>>) /\ UNCHANGED bud /\ Mon
    \/ \E s \in Streams, n \in RelSizes : n <= infl[s] /\ Use("rel") /\ Release(s, n) /\ H(<<"release", s, n>>) /\ Mon
    \/ \E s \in Streams : Use("drop") /\ DropRecv(s) /\ H(<<"drop_recv", s>>) /\ Mon
    \/ \E s \in Streams : Use("rst") /\ LocalReset(s) /\ H(<<"send_reset", s>>) /\ Mon
    \/ \E s \in Streams : Use("rst") /\ RecvRst(s) /\ H(<<"recv_rst", s>>) /\ Mon
    \/ \E t \in Targets : Use("target") /\ SetTarget(t) /\ H(<<"target", t>>) /\ Mon
    \/ \E v \in SetVals : Use("set") /\ SetInitialWindow(v) /\ H(<<"set_initial_window", v>>) /\ Mon
    \/ RecvSettingsAck /\ H(<<"settings_ack">>) /\ UNCHANGED bud /\ Mon
    \/ ConnWU /\ H(<<"conn_wu">>) /\ UNCHANGED bud /\ Mon
    \/ StreamWU /\ H(<<"stream_wu">>) /\ UNCHANGED bud /\ Mon

MCSpec == MCInit /\ [][MCNext]_mvars

WmView == [rcw |-> wm.rcw, cz |-> wm.czeroed, la |-> wm.la.iws, sent |-> Len(wm.sentSet), mt |-> wm.maxTarget,
           s |-> [x \in Streams |-> LET r == W!S(wm, x) IN <<r.rsw, r.zeroed, r.rcvd, r.dlv, r.rel, r.rdead, r.i, r.o>>]]
View == <<rs, rwin, ravail, infl, isRecv, pbuf, pwu, cwinR, cavailR, cinfl, initWinR, localSet, okR, WmView, bud>>

\* ---- invariants ----
WireContract == wm.v = <<>>
QEv == [t |-> "q", n |-> 0, out |-> <<>>, conn |-> [c |-> "none", s |-> "pending"], wblocked |-> [c |-> FALSE, s |-> FALSE], sr_alive |-> FALSE]
\* C03 leak rules hold whenever the connection task has nothing left to do
QuiescentNoLeak == ConnIdle => W!StepQ(wm, QEv, 0).v = <<>>
InvAssert == NoAssertR
InvConn == ConnConservation

\* ---- export for replay ----
ConnBusy == ~ConnIdle
IsConnStep == hist' # hist /\ hist'[Len(hist')].a[1] \in {"conn_wu", "stream_wu"}
Drained == ConnBusy => IsConnStep
ExportInv == (Len(hist) >= ExportLen /\ ~ConnBusy) => PrintT(<<"REPLAY", ToJson([iw |-> IW, cw |-> CW, hist |-> hist])>>)
ExportStop == Len(hist) < ExportLen \/ ConnBusy
=============================================================================
