--------------------------- MODULE MC_HpackTable ---------------------------
(***************************************************************************)
(* Bounded configurations of HpackTable (property C10, implementation       *)
(* side).  Names carry their hash class, so collisions, robin-hood          *)
(* displacement, wrap-around probing and eviction during insertion are      *)
(* explored exhaustively.  One history is exported per explored edge; the   *)
(* engine maps name ids to real header names of the same hash class and     *)
(* replays the history on the real h2 Encoder.                              *)
(***************************************************************************)
EXTENDS HpackTable, Json

\* configuration A: small limits (0..3 entries): eviction during insertion, prev_idx, resize(0)
\* classes 0 and 8 collide under mask 7; 7 and 15 probe around the end of `indices`
HashA == <<0, 8, 0, 7, 15>>
\* configuration B: no small limit: 7 insertions trigger grow 8 -> 16, then evictions at 8 entries
HashB == <<0, 8, 8, 15>>
\* 7 distinct headers: the 7th insertion finds 6 slots = usable capacity of 8 buckets and grows to 16
HeadersB == {Hd(n, v, FALSE) : n \in 1..3, v \in {1, 2}} \cup {Hd(4, 1, FALSE), Hd(1, 1, TRUE)}
\* export only the edges on which the index is rebuilt (grow), and after that those that evict
ExportB == ((Cap(t) = 8 /\ Cap(t') = 16) \/ (Cap(t) = 16 /\ Len(t'.slots) <= Len(t.slots) /\ t'.slots # t.slots))
           => PrintT(ToJson([names |-> NameHash, h |-> hist']))

HeadersBq == {Hd(n, v, FALSE) : n \in 1..3, v \in {1, 2}} \cup {Hd(4, 1, FALSE)}
\* quick tier: the same edges, shortest histories only
ExportBq == (Len(hist') <= 10 /\ ((Cap(t) = 8 /\ Cap(t') = 16 /\ Len(hist') <= 8)
                                 \/ (Cap(t) = 16 /\ Len(t'.slots) <= Len(t.slots) /\ t'.slots # t.slots)))
            => PrintT(ToJson([names |-> NameHash, h |-> hist']))

Export == PrintT(ToJson([names |-> NameHash, h |-> hist']))
=============================================================================
