SPECIFICATION MCSpec
VIEW View
CONSTANTS
  Streams = {1}
  Pushed = {2}
  Remote = {}
  InitWin = 1
  ConnWin = 2
  RecvWin = 4
  MaxBuf = 4
  MaxSend0 = 1
  NCall = 4
  NApp = 1
  NPeer = 4
  MaxData = 1
  CallKinds = {"poll_response", "poll_push", "poll_data"}
  AppKinds = {"request", "hold_push", "drop_recv", "drop_push", "drop_send"}
  PeerKinds = {"HEADERS", "PHEADERS", "PP", "DATA", "RST", "GOAWAY"}
  IwsVals = {}
  MaxcVals = {}
  ReqEos = {TRUE}
  Allow = {"shared_slot", "push_after_recv_drop", "cancel_pending_open"}
  ExportLen = 0
INVARIANT InvC06
INVARIANT InvC06conn
INVARIANT InvConnRegistered
INVARIANT InvSchedule
INVARIANT InvC07
INVARIANT InvC08
INVARIANT InvC08fresh
INVARIANT InvStructure
CHECK_DEADLOCK FALSE
