SPECIFICATION MCSpec
VIEW View
CONSTANTS
  Streams = {1}
  Pushed = {2}
  Remote = {}
  InitWin = 1
  ConnWin = 2
  RecvWin = 4
  MaxBuf = 4
  MaxSend0 = 1
  NCall = 3
  NApp = 1
  NPeer = 3
  MaxData = 1
  CallKinds = {"poll_response", "poll_push"}
  AppKinds = {"request", "hold_push", "drop_recv"}
  PeerKinds = {"HEADERS", "DATA"}
  IwsVals = {}
  MaxcVals = {}
  ReqEos = {TRUE}
  Allow = {"push_after_recv_drop"}
  ExportLen = 0
\* F-T3 (S): END_STREAM on a DATA frame after the RecvStream was dropped (is_recv = false) returns early: no notify_push
INVARIANT InvC06
CHECK_DEADLOCK FALSE
