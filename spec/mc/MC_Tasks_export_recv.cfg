SPECIFICATION MCSpec
CONSTANTS
  Streams = {1, 3}
  Pushed = {}
  Remote = {}
  InitWin = 1
  ConnWin = 3
  RecvWin = 6
  MaxBuf = 18
  MaxSend0 = 3
  NCall = 10
  NApp = 12
  NPeer = 14
  MaxData = 2
  CallKinds = {"poll_response", "poll_data", "poll_trailers", "poll_capacity"}
  AppKinds = {"request", "release", "send_data", "send_reset", "drop_send", "drop_recv"}
  PeerKinds = {"HEADERS", "DATA", "TRAILERS", "RST", "WU"}
  IwsVals = {0, 1, 2}
  MaxcVals = {0, 1, 2}
  ReqEos = {FALSE, TRUE}
  Allow = {"shared_slot", "reset_after_end", "push_after_recv_drop", "cancel_pending_open"}
  ExportLen = 36
ACTION_CONSTRAINT Drained
ACTION_CONSTRAINT LateEnd
ACTION_CONSTRAINT Bias
ACTION_CONSTRAINT NoReqAfterErr
CONSTRAINT ExportStop
INVARIANT ExportInv
INVARIANT InvStructure
CHECK_DEADLOCK FALSE
