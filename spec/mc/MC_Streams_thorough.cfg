SPECIFICATION MCSpec
VIEW View
CONSTANTS
  Streams = {1, 3}
  NTomb = 2
  MaxConc = 1
  ResetMax = 1
  PendingAcceptResetMax = 1
  ErrorResetMax = 2
  NPeer = 3
  NAppX = 2
  NTick = 1
  NIdle = 0
  AllowEof = TRUE
  AllowBlock = FALSE
  ExportLen = 0
  SimDrops = FALSE
  C18Extra = 0
INVARIANT InvAssert
INVARIANT InvStructure
INVARIANT InvBounded
INVARIANT InvKept
INVARIANT InvCountersWeak
INVARIANT InvOrphanKind
INVARIANT InvIdle
INVARIANT InvDropped
INVARIANT InvC05
INVARIANT InvC18
INVARIANT InvC18strayKinds
CHECK_DEADLOCK FALSE
