SPECIFICATION MCSpec
CONSTANTS
  Streams = {1, 3, 5}
  Role = "client"
  Bud <- BudExport
  MaxInq = 4
  MaxBurst = 2
  SetVals = {0, 1, 2}
  PingVals = {1, 2}
  AckVals = {100, 101, 102}
  GoAwayIds = {0, 1, 2147483647}
  Codes = {0, 11}
  AbruptCodes = {}
  AllowEof = TRUE
  LocalVals = {1, 2}
  HarnessPing = TRUE
  Atomic = FALSE
  ExportLen = 16
ACTION_CONSTRAINT Drained
ACTION_CONSTRAINT LateEnd
CONSTRAINT ExportStop
INVARIANT ExportInv
INVARIANT InvAssert
INVARIANT InvC14Acks
INVARIANT InvC14Local
INVARIANT InvC15Ids
INVARIANT InvResult
INVARIANT InvParked
INVARIANT InvGraceful
INVARIANT InvCutoff
INVARIANT InvIdleClient
CHECK_DEADLOCK FALSE
