\* The strict (S) invariants the code (after the repairs of P1 / P2 / P3 / P6 / P9) still violates (see notes/push_model.md, findings). TLC stops at the first violated
\* invariant: keep ONE INVARIANT line at a time to see each counterexample.
SPECIFICATION MCSpec
VIEW View
CONSTANTS
  Role = "s"
  Parents = {1}
  NPush = 2
  InitMaxSend = 1
  InitMaxRecv = 1000
  ResetMax = 1
  ErrorResetMax = 1
  LazyClient = FALSE
  OldPushBugs = FALSE
  OldIdleCheck = FALSE
  NPeer = 2
  NAppX = 1
  NTick = 1
  NIdle = 0
  PeerKinds = {"rst", "wu", "headers", "data", "settings", "nopush", "goaway"}
  LimitVals = {0, 1}
  AllowNoPush = TRUE
  AllowEof = FALSE
  AllowGoAway = TRUE
  AllowMalformedPush = TRUE
  AllowBlock = FALSE
  ExportLen = 0
  HasFiller = FALSE
  SimDrops = TRUE
INVARIANT InvAssert
INVARIANT InvC09strict
INVARIANT InvC04strict
INVARIANT InvC05strict
INVARIANT InvC17resolved
INVARIANT InvIdle
INVARIANT InvC18
CHECK_DEADLOCK FALSE
