SPECIFICATION Spec
CONSTANTS
  Vectored = FALSE
  MaxSend = 16384
  MaxRecv = 16384
  ItemKinds <- KindsFull
  NItems = 2
  WBudget = 3
  RBudget = 2
  Record = FALSE
INVARIANT InvPrefix
INVARIANT InvComplete
INVARIANT InvHeads
INVARIANT InvMaxSize
INVARIANT InvRefuse
INVARIANT InvDataEmpty
INVARIANT InvStaging
INVARIANT InvLast
INVARIANT InvReadPrefix
INVARIANT InvReadAll
INVARIANT InvAligned
INVARIANT InvOversize
CHECK_DEADLOCK FALSE
