SPECIFICATION MCSpec
CONSTANTS
  Role = "c"
  Parents = {1}
  NPush = 3
  InitMaxSend = 1000
  InitMaxRecv = 1
  ResetMax = 1
  ErrorResetMax = 3
  LazyClient = TRUE
  OldPushBugs = FALSE
  OldIdleCheck = FALSE
  NPeer = 9
  NAppX = 0
  NTick = 0
  NIdle = 3
  PeerKinds = {"pp", "resp", "data", "rst"}
  LimitVals = {}
  AllowNoPush = FALSE
  AllowEof = TRUE
  AllowGoAway = FALSE
  AllowMalformedPush = FALSE
  AllowBlock = FALSE
  ExportLen = 16
  HasFiller = FALSE
  SimDrops = TRUE
ACTION_CONSTRAINT StepsOk
CONSTRAINT ExportStop
INVARIANT ExportInv
INVARIANT InvStructure
CHECK_DEADLOCK FALSE
