SPECIFICATION Spec
CONSTANTS
  MaxBlk = 2
  MaxPre = 3
VIEW View
ACTION_CONSTRAINT Export
INVARIANT Inv
CHECK_DEADLOCK FALSE
