SPECIFICATION Spec
CONSTANTS
  Vectored = FALSE
  MaxSend = 16384
  MaxRecv = 16384
  ItemKinds <- KindsFull
  NItems = 2
  WBudget = 2
  RBudget = 1
  Record = TRUE
INVARIANT InvPrefix
INVARIANT InvComplete
INVARIANT InvHeads
INVARIANT InvMaxSize
INVARIANT InvReadPrefix
INVARIANT InvReadAll
INVARIANT ExportInv
CHECK_DEADLOCK FALSE
