------------------------------- MODULE MC_Conn -------------------------------
(* Bounded configurations of the connection-control implementation model (H2Conn), both roles (constant Role).
   The peer is arbitrary within the frame alphabet of H2Conn: SETTINGS (with / without the initial-window field), SETTINGS ACK
   (expected or stray), PING, PING ACK (shutdown / user / stray payload), GOAWAY (any last id of GoAwayIds, any code of Codes,
   repeated, increasing), server role: HEADERS opening a fresh stream, RST_STREAM (open, closed, idle stream); client role: the
   response to / a reset of a request; clean EOF - at any moment between two polls, within the budgets Bud.peer / MaxInq.
   The application calls graceful_shutdown, abrupt_shutdown (server), set_initial_window_size, takes the ping handle, sends user
   pings, answers / fills / ends streams (server), sends requests, drops its handles and the SendRequest (client); the socket
   blocks and unblocks.  The connection task runs poll by poll (Atomic) or step by step.
   Export mode (ExportLen > 0): TLC -simulate prints behaviours under the schedule of the simulator: one environment step per
   quiescence (the peer may put a second frame right behind the first), then the connection task and the tasks it wakes run
   until nothing is runnable.
   Configurations: MC_Conn_quick / _thorough / _steps (server), MC_Conn_client_quick / _thorough / _steps (client): exhaustive;
   MC_Conn_export / MC_Conn_export_client: simulation for bin/conform_conn.py.  notes/conn_model.md has the numbers. *)
EXTENDS H2Conn, Json

CONSTANTS Bud,            \* budgets: [peer, app, block]
          MaxInq,         \* frames delivered and not yet read
          MaxBurst,       \* environment steps between the wake-up of the connection task and its poll
          SetVals,        \* initial-window fields of the peer's SETTINGS (0 = absent)
          PingVals,       \* payloads of the peer's PINGs
          AckVals,        \* payloads of the peer's PING ACKs
          GoAwayIds, Codes,   \* last ids / error codes of the peer's GOAWAY frames
          AbruptCodes,    \* codes the application passes to abrupt_shutdown
          AllowEof,
          LocalVals,      \* values the application passes to set_initial_window_size
          HarnessPing,    \* TRUE: user pings the way the simulator issues them (handle taken without a poll, then send_ping)
          Atomic,         \* TRUE: one call of Connection::poll is one step; FALSE: step by step
          ExportLen       \* 0: model checking; > 0: record the history, export behaviours of about this many environment steps

VARIABLES bud, hist
mvars == <<cvars, bud, hist>>

\* budgets: peer frames, application calls, times the socket blocks; MaxInq bounds the frames delivered and not yet read
BudQuick == [peer |-> 3, app |-> 2, block |-> 1, nb |-> 0]
\* MC_Conn_steps.cfg: every step of a poll is a TLC step (Atomic = FALSE), the per-step invariants are checked in the middle of a poll too
BudSteps == [peer |-> 2, app |-> 2, block |-> 1, nb |-> 0]
BudThorough == [peer |-> 4, app |-> 2, block |-> 1, nb |-> 0]
BudExport == [peer |-> 14, app |-> 8, block |-> 3, nb |-> 0]

MCInit ==
    /\ Init0
    /\ bud = Bud
    /\ hist = <<>>

\* bud.nb: environment steps since the task was woken (at most MaxBurst of them before it is polled: reduction)
NbNext == IF tk.woken THEN bud.nb + 1 ELSE IF tk'.woken THEN 1 ELSE 0
MayMove == ~tk.woken \/ bud.nb < MaxBurst
Export == ExportLen > 0

\* what the statistics snapshot / the trace of the real library shows
Proj == [num_streams |-> Cardinality({s \in Streams : sl.st[s] \in CountedSt}), refs |-> HasRefs(Cur),
         last_processed_id |-> sl.lastProc, recv_max |-> sl.recvMax, send_max |-> sl.sendMax,
         send_iws |-> sl.sendIws, recv_iws |-> sl.recvIws, conn_error |-> sl.connErr,
         ended |-> tk.res.k # "none", shut |-> io.shut, blocked |-> io.blocked, full |-> io.full,
         parked |-> tk.pc = "idle" /\ ~tk.woken,
         pong |-> pp.pong, remote |-> se.remote, local |-> se.local, ping |-> pp.ping, user |-> pp.user,
         pending |-> ga.pending.some, inq |-> Len(io.inq), state |-> cs.state]
H(x) == hist' = IF Export THEN Append(hist, [a |-> x, out |-> obs'.out, api |-> obs'.api, p |-> Proj']) ELSE hist

Untouched(s) ==
    /\ \A i \in 1..Len(io.inq) : ~(io.inq[i].ty \in {"HEADERS", "RST_STREAM"} /\ io.inq[i].a = s) /\ ~(io.inq[i].ty = "GOAWAY" /\ io.inq[i].a < s)
    /\ sl.fq[s] = <<>>                                                      \* (the whole request has been handed to the socket)
    /\ \A k \in 1..Len(io.wbuf) : ~(io.wbuf[k].ty = "DATA" /\ io.wbuf[k].a = s)
EnvNames == {"request", "request_big", "response", "drop_sr", "settings", "settings_ack", "ping", "ping_ack", "goaway", "headers", "rst", "eof", "block", "unblock", "graceful_shutdown",
             "abrupt_shutdown", "set_initial_window", "ping_handle", "send_ping", "user_ping", "fill", "end"}
NEnv == Cardinality({i \in 1..Len(hist) : hist[i].a[1] \in EnvNames})
Late == NEnv + 5 >= ExportLen
\* export only: an environment step that would end the connection at once is taken late in the behaviour
NotEarly(c) == ~Export \/ c \/ Late

ConnStep(A, x) == A /\ H(x) /\ bud' = [bud EXCEPT !.nb = 0]
\* Reduction: the environment moves between two polls only.  A frame arriving in the middle of a poll commutes with the steps that
\* do not read (it is the same as arriving just before the poll, or - after poll_next returned Pending - just after it); the same
\* holds for the shared-handle calls (send_ping, stream calls).  Only block / unblock in the middle of a poll is not covered.
AtRest == tk.pc \in {"idle", "done"}
Env(k, A, x) == AtRest /\ MayMove /\ bud[k] > 0 /\ A /\ bud' = [bud EXCEPT ![k] = bud[k] - 1, !.nb = NbNext] /\ H(x)
EnvFree(A, x) == AtRest /\ MayMove /\ A /\ bud' = [bud EXCEPT !.nb = NbNext] /\ H(x)
Peer(A, x) == Len(io.inq) < MaxInq /\ Env("peer", A, x)

MCNext ==
    \* ---- the connection task ----
    \/ Atomic /\ ConnStep(PollAtomic, <<"poll_atomic">>)
    \/ ~Atomic /\ ConnStep(PollStart, <<"poll">>)
    \/ ConnStep(PollGoAway, <<"poll_go_away">>)
    \/ ConnStep(SendPendingPong, <<"send_pending_pong">>)
    \/ ConnStep(SendPendingPing, <<"send_pending_ping">>)
    \/ ConnStep(SettingsPollSend, <<"settings_poll_send">>)
    \/ ConnStep(RecvFrame, <<"recv_frame">>)
    \/ ConnStep(PollComplete, <<"poll_complete">>)
    \/ ConnStep(HandlePoll2Result, <<"handle_poll2_result">>)
    \/ ConnStep(CodecShutdown, <<"codec_shutdown">>)
    \/ ConnStep(TakeError, <<"take_error">>)
    \/ ConnStep(PollPong, <<"poll_pong">>)
    \/ \E s \in Streams : ConnStep(DropRef(s), <<"drop_ref", s>>)
    \* ---- the peer ----
    \/ \E v \in SetVals : Peer(PeerSend(FSettings(v)), <<"settings", v>>)
    \/ Peer(NotEarly(se.local = "WaitingAck" /\ \A i \in 1..Len(io.inq) : io.inq[i].ty # "SETTINGS_ACK") /\ PeerSend(FSettingsAck), <<"settings_ack">>)
    \/ \E p \in PingVals : Peer(PeerSend(FPing(p)), <<"ping", p>>)
    \/ \E p \in AckVals : Peer(PeerSend(FPong(p)), <<"ping_ack", p>>)
    \/ \E l \in GoAwayIds, c \in Codes : Peer(NotEarly(HasStreamsNow /\ l <= sl.sendMax) /\ PeerSend(FGoAway(l, c)), <<"goaway", l, c>>)
    \/ \E s \in Streams : /\ Role = "server"
                          /\ \A t \in Streams : t >= s => (sl.st[t] = "idle" /\ \A i \in 1..Len(io.inq) : ~(io.inq[i].ty = "HEADERS" /\ io.inq[i].a = t))
                          /\ Peer(PeerSend(FHeaders(s, TRUE)), <<"headers", s>>)
    \/ \E s \in Streams : Peer(Role = "server" /\ NotEarly(sl.st[s] # "idle") /\ PeerSend(FRst(s)), <<"rst", s>>)
    \* (client role) the response to / a reset of a request the peer has seen, unless a frame that ends the stream is already on its way
    \/ \E s \in Streams : Peer(Role = "client" /\ sl.st[s] = "open" /\ Untouched(s) /\ PeerSend(FHeaders(s, TRUE)), <<"response", s>>)
    \/ \E s \in Streams : Peer(Role = "client" /\ sl.st[s] = "open" /\ Untouched(s) /\ PeerSend(FRst(s)), <<"rst", s>>)
    \/ AllowEof /\ Peer(PeerEof, <<"eof">>)
    \* ---- the socket ----
    \/ Env("block", Block, <<"block">>)
    \/ EnvFree(Unblock, <<"unblock">>)
    \* ---- the application ----
    \/ Env("app", GracefulShutdown, <<"graceful_shutdown">>)
    \/ \E c \in AbruptCodes : Env("app", Role = "server" /\ AbruptShutdown(c), <<"abrupt_shutdown", c>>)
    \/ \E s \in Streams : Env("app", AppRequest(s), <<"request", s>>)
    \/ \E s \in Streams : Env("app", (io.blocked \/ ~Export) /\ AppRequestBig(s), <<"request_big", s>>)
    \/ Env("app", NotEarly(HasStreamsNow \/ \E s \in Streams : sl.ref[s]) /\ DropSendRequest, <<"drop_sr">>)
    \/ \E v \in LocalVals : Env("app", SetInitialWindowSize(v), <<"set_initial_window", v>>)
    \/ ~HarnessPing /\ EnvFree(TakeUserPings(TRUE), <<"ping_handle">>)
    \/ ~HarnessPing /\ Env("app", SendPing, <<"send_ping">>)
    \/ HarnessPing /\ Env("app", UserPing, <<"user_ping">>)
    \/ \E s \in Streams : Env("app", Role = "server" /\ (io.blocked \/ ~Export) /\ AppFill(s), <<"fill", s>>)
    \/ \E s \in Streams : Env("app", Role = "server" /\ AppEnd(s), <<"end", s>>)

MCSpec == MCInit /\ [][MCNext]_mvars

View == <<cs, se, pp, ga, sl, io, tk, gh, bud>>

\* ---- invariants ----------------------------------------------------------------------------------------------------------------
InvAssert == NoAssert                    \* C08: the single-slot assert!s (and Encoder::buffer's capacity assertion) are unreachable
InvC14Acks == C14Acks
InvC14Local == C14Local
InvC15Ids == C15Ids
Last(q) == q[Len(q)]
\* C15: the connection result reports the peer's GOAWAY code; the transport has been shut down when the future completes
InvResult == ~Alive =>
    /\ io.shut
    /\ (gh.peerGoAway.some /\ gh.peerGoAway.code # NO_ERROR) => (tk.res = ResGoAway(gh.peerGoAway.code, TRUE))
    /\ tk.res.remote => (gh.peerGoAway.some /\ tk.res.code = gh.peerGoAway.code)
\* no deadlock of the connection task: when it is parked (returned Pending, no wake-up since) nothing is left that it could do
Owed == \/ ga.pending.some \/ pp.pong # 0 \/ pp.ping = "unsent" \/ se.remote >= 0 \/ se.local = "ToSend"
        \/ sl.ps # <<>> \/ sl.po # <<>> \/ io.wbuf # <<>> \/ cs.state # "Open" \/ ShouldCloseNow(Cur)
InvParked == (Parked /\ Alive) =>
    /\ Owed => (io.blocked /\ tk.ww)                                         \* only a blocked socket holds output back, and the task waits for it
    /\ (io.inq # <<>> \/ io.eof) => (io.blocked /\ tk.ww)                    \* unread input only while a reply cannot be buffered
    \* a user ping waits only for the socket - or behind the shutdown ping (send_pending_ping looks at the user state only when
    \* pending_ping is None: the user's PING is written when the shutdown ping's ACK has been read) - or its wake-up was lost
    /\ pp.user = "PendingPing" => ((io.blocked /\ tk.ww) \/ pp.ping = "sent" \/ gh.lostPing)
    /\ (~io.blocked /\ (cs.error.some \/ ShouldCloseOnIdle(Cur))) => HasStreamsNow    \* drained => closed
    \* an idle client (no stream, no handle left; or handles of closed streams about to be dropped) closes
    /\ (Role = "client" /\ ~io.blocked) => (HasStreamsNow \/ HasRefs(Cur))
\* C15 graceful shutdown, at rest with a free socket: GOAWAY(2^31-1) + PING are out; after the ACK the final GOAWAY(last processed) is out
InvGraceful == (Parked /\ Alive /\ ~io.blocked /\ ~ga.closeNow) =>
    /\ gh.graceful = "started" => (gh.goaways # <<>> /\ Last(gh.goaways) = <<MaxI, NO_ERROR>> /\ pp.ping = "sent")
    /\ gh.graceful = "acked" => (gh.goaways # <<>> /\ Last(gh.goaways) = <<sl.recvMax, NO_ERROR>> /\ sl.recvMax # MaxI /\ pp.ping = "none" /\ HasStreamsNow)
\* C15: once a GOAWAY with a real last id is out, no stream above it exists / is counted
InvCutoff == /\ Role = "server" => \A s \in Streams : (gh.goaways # <<>> /\ s > Last(gh.goaways)[1]) => sl.st[s] = "idle"
             \* ... and once the peer's GOAWAY has been read, no locally initiated stream above its last id is alive or gets started
             /\ Role = "client" => \A s \in Streams : (gh.peerGoAway.some /\ s > gh.peerGoAway.last) => sl.st[s] \in {"idle", "closed"}
\* C15: an idle client closes with GOAWAY(NO_ERROR): a client whose future completed although the peer never sent GOAWAY, the transport
\* never ended and no connection error was raised has written exactly GOAWAY(0, NO_ERROR) and reports Ok
InvIdleClient == (Role = "client" /\ ~Alive /\ ~gh.peerGoAway.some /\ ~io.eof /\ tk.res = ResOk) => gh.goaways = <<<<0, NO_ERROR>>>>

\* ---- export for replay ------------------------------------------------------------------------------------------------------------
ConnSteps == {"drop_ref", "poll", "poll_atomic", "poll_go_away", "send_pending_pong", "send_pending_ping", "settings_poll_send", "recv_frame", "poll_complete",
              "handle_poll2_result", "codec_shutdown", "take_error", "poll_pong"}
Busy == \/ Alive /\ (tk.pc # "idle" \/ tk.woken)
        \/ tk.pt = "waiting" /\ pp.user \in {"ReceivedPong", "Closed"}
        \/ \E s \in Streams : sl.ref[s] /\ sl.st[s] = "closed"
LastA == hist'[Len(hist')].a[1]
\* (simulation bias) the steps that end the connection come late; a blocked socket is unblocked before the behaviour ends
EndingNow == \/ cs.state # "Open" \/ ga.closeNow \/ tk.r.k = "goaway" \/ io.eof
             \/ ((cs.error.some \/ ShouldCloseOnIdle(Cur)) /\ ~HasStreamsNow)
LateEnd == /\ (EndingNow' /\ ~EndingNow) => Late
           /\ (NEnv >= ExportLen /\ io.blocked) => (LastA \in ConnSteps \/ LastA = "unblock")
\* everything runnable runs before the next environment step (a quiescence of the simulator)
\* ... except that the peer may send a second frame right behind the first one: both are read in one poll
FrameNames == {"settings", "settings_ack", "ping", "ping_ack", "goaway", "headers", "rst", "response"}
BurstOk == /\ tk.pc = "idle" /\ Alive /\ hist' # hist /\ LastA \in FrameNames
           /\ Len(hist) > 0 /\ hist[Len(hist)].a[1] \in FrameNames
           /\ (Len(hist) < 2 \/ hist[Len(hist) - 1].a[1] \notin FrameNames)
\* the simulator polls the connection task first (lowest slot): the user-ping task and the tasks that hold stream handles run when
\* the connection task has returned and is not woken (a threaded runtime could run them in the middle of a poll: H2Conn allows it)
TaskOrder == (hist' # hist /\ LastA \in {"poll_pong", "drop_ref"}) => (~Alive \/ (tk.pc = "idle" /\ ~tk.woken))
Drained == /\ Busy => ((hist' # hist /\ LastA \in ConnSteps) \/ BurstOk)
           /\ TaskOrder
Finished == (NEnv >= ExportLen /\ ~io.blocked) \/ (~Alive /\ NEnv >= 3)
ExportInv == (Finished /\ ~Busy) => PrintT(<<"REPLAY", ToJson([hist |-> hist])>>)
ExportStop == ~Finished \/ Busy
=============================================================================
