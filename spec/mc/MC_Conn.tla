------------------------------- MODULE MC_Conn -------------------------------
(* Bounded configurations of the connection-control implementation model (H2Conn).
   The peer is arbitrary within the frame alphabet of H2Conn: SETTINGS (with / without the initial-window field), SETTINGS ACK
   (expected or stray), PING, PING ACK (shutdown / user / stray payload), GOAWAY (any last id of GoAwayIds, any code of Codes,
   repeated, increasing), HEADERS opening a fresh stream, RST_STREAM (open, closed, idle stream), clean EOF - at any moment,
   each kind budgeted.  The application calls graceful_shutdown, abrupt_shutdown, set_initial_window_size, takes the ping handle,
   sends user pings, answers / fills / ends streams; the socket blocks and unblocks.  The connection task runs step by step.
   Export mode (ExportLen > 0): TLC -simulate prints behaviours under the schedule of the simulator: one environment step per
   quiescence, then the connection task (and the user-ping task) run until nothing is runnable.
   Configurations: MC_Conn_quick / _thorough (exhaustive), MC_Conn_export (simulation, bin/conform_conn.py).
   notes/conn_model.md has the numbers. *)
EXTENDS H2Conn, Json

CONSTANTS Bud,            \* budgets: [peer, app, block]
          MaxInq,         \* frames delivered and not yet read
          SetVals,        \* initial-window fields of the peer's SETTINGS (0 = absent)
          PingVals,       \* payloads of the peer's PINGs
          AckVals,        \* payloads of the peer's PING ACKs
          GoAwayIds, Codes,
          LocalVals,      \* values the application passes to set_initial_window_size
          HarnessPing,    \* TRUE: user pings the way the simulator issues them (handle taken without a poll, then send_ping)
          ExportLen       \* 0: model checking; > 0: record the history, export behaviours of about this many environment steps

VARIABLES bud, hist
mvars == <<cvars, bud, hist>>

\* budgets: peer frames, application calls, times the socket blocks; MaxInq bounds the frames delivered and not yet read
BudQuick == [peer |-> 4, app |-> 3, block |-> 1]
BudThorough == [peer |-> 5, app |-> 4, block |-> 1]
BudExport == [peer |-> 14, app |-> 8, block |-> 3]

MCInit ==
    /\ Init0
    /\ bud = Bud
    /\ hist = <<>>

Use(k) == bud[k] > 0 /\ bud' = [bud EXCEPT ![k] = bud[k] - 1]
Export == ExportLen > 0

\* what the statistics snapshot / the trace of the real library shows
Proj == [num_streams |-> Cardinality({s \in Streams : sl.st[s] \in CountedSt}),
         last_processed_id |-> sl.lastProc, recv_max |-> sl.recvMax, send_max |-> sl.sendMax,
         send_iws |-> sl.sendIws, recv_iws |-> sl.recvIws, conn_error |-> sl.connErr,
         ended |-> tk.res.k # "none", shut |-> io.shut, blocked |-> io.blocked, full |-> io.full,
         parked |-> tk.pc = "idle" /\ ~tk.woken,
         pong |-> pp.pong, remote |-> se.remote, local |-> se.local, ping |-> pp.ping, user |-> pp.user,
         pending |-> ga.pending.some, inq |-> Len(io.inq), state |-> cs.state]
H(x) == hist' = IF Export THEN Append(hist, [a |-> x, out |-> obs'.out, api |-> obs'.api, p |-> Proj']) ELSE hist

ConnStep(A, x) == A /\ H(x) /\ UNCHANGED bud
\* Reduction: the environment moves between two polls only.  A frame arriving in the middle of a poll commutes with the steps that
\* do not read (it is the same as arriving just before the poll, or - after poll_next returned Pending - just after it); the same
\* holds for the shared-handle calls (send_ping, stream calls).  Only block / unblock in the middle of a poll is not covered.
AtRest == tk.pc \in {"idle", "done"}
Env(k, A, x) == AtRest /\ Use(k) /\ A /\ H(x)
Peer(A, x) == Len(io.inq) < MaxInq /\ Env("peer", A, x)

MCNext ==
    \* ---- the connection task ----
    \/ ConnStep(PollStart, <<"poll">>)
    \/ ConnStep(PollGoAway, <<"poll_go_away">>)
    \/ ConnStep(SendPendingPong, <<"send_pending_pong">>)
    \/ ConnStep(SendPendingPing, <<"send_pending_ping">>)
    \/ ConnStep(SettingsPollSend, <<"settings_poll_send">>)
    \/ ConnStep(RecvFrame, <<"recv_frame">>)
    \/ ConnStep(PollComplete, <<"poll_complete">>)
    \/ ConnStep(HandlePoll2Result, <<"handle_poll2_result">>)
    \/ ConnStep(CodecShutdown, <<"codec_shutdown">>)
    \/ ConnStep(TakeError, <<"take_error">>)
    \/ ConnStep(PollPong, <<"poll_pong">>)
    \* ---- the peer ----
    \/ \E v \in SetVals : Peer(PeerSend(FSettings(v)), <<"settings", v>>)
    \/ Peer(PeerSend(FSettingsAck), <<"settings_ack">>)
    \/ \E p \in PingVals : Peer(PeerSend(FPing(p)), <<"ping", p>>)
    \/ \E p \in AckVals : Peer(PeerSend(FPong(p)), <<"ping_ack", p>>)
    \/ \E l \in GoAwayIds, c \in Codes : Peer(PeerSend(FGoAway(l, c)), <<"goaway", l, c>>)
    \/ \E s \in Streams : /\ \A t \in Streams : t >= s => (sl.st[t] = "idle" /\ \A i \in 1..Len(io.inq) : ~(io.inq[i].ty = "HEADERS" /\ io.inq[i].a = t))
                          /\ Peer(PeerSend(FHeaders(s, TRUE)), <<"headers", s>>)
    \/ \E s \in Streams : Peer(PeerSend(FRst(s)), <<"rst", s>>)
    \/ Peer(PeerEof, <<"eof">>)
    \* ---- the socket ----
    \/ Env("block", Block, <<"block">>)
    \/ AtRest /\ Unblock /\ UNCHANGED bud /\ H(<<"unblock">>)
    \* ---- the application ----
    \/ Env("app", GracefulShutdown, <<"graceful_shutdown">>)
    \/ \E c \in Codes : Env("app", AbruptShutdown(c), <<"abrupt_shutdown", c>>)
    \/ \E v \in LocalVals : Env("app", SetInitialWindowSize(v), <<"set_initial_window", v>>)
    \/ ~HarnessPing /\ AtRest /\ TakeUserPings(TRUE) /\ UNCHANGED bud /\ H(<<"ping_handle">>)
    \/ ~HarnessPing /\ Env("app", SendPing, <<"send_ping">>)
    \/ HarnessPing /\ Env("app", UserPing, <<"user_ping">>)
    \/ \E s \in Streams : Env("app", (io.blocked \/ ~Export) /\ AppFill(s), <<"fill", s>>)
    \/ \E s \in Streams : Env("app", AppEnd(s), <<"end", s>>)

MCSpec == MCInit /\ [][MCNext]_mvars

View == <<cs, se, pp, ga, sl, io, tk, gh, bud>>

\* ---- invariants ----------------------------------------------------------------------------------------------------------------
InvAssert == NoAssert                    \* C08: the single-slot assert!s (and Encoder::buffer's capacity assertion) are unreachable
InvC14Acks == C14Acks
InvC14Local == C14Local
InvC15Ids == C15Ids
Last(q) == q[Len(q)]
\* C15: the connection result reports the peer's GOAWAY code; the transport has been shut down when the future completes
InvResult == ~Alive =>
    /\ io.shut
    /\ (gh.peerGoAway.some /\ gh.peerGoAway.code # NO_ERROR) => (tk.res = ResGoAway(gh.peerGoAway.code, TRUE))
    /\ tk.res.remote => (gh.peerGoAway.some /\ tk.res.code = gh.peerGoAway.code)
\* no deadlock of the connection task: when it is parked (returned Pending, no wake-up since) nothing is left that it could do
Owed == \/ ga.pending.some \/ pp.pong # 0 \/ pp.ping = "unsent" \/ se.remote >= 0 \/ se.local = "ToSend"
        \/ sl.sq # <<>> \/ io.wbuf # <<>> \/ cs.state # "Open" \/ ShouldCloseNow(Cur)
InvParked == (Parked /\ Alive) =>
    /\ Owed => (io.blocked /\ tk.ww)                                         \* only a blocked socket holds output back, and the task waits for it
    /\ (io.inq # <<>> \/ io.eof) => (io.blocked /\ tk.ww)                    \* unread input only while a reply cannot be buffered
    \* a user ping waits only for the socket - or behind the shutdown ping (send_pending_ping looks at the user state only when
    \* pending_ping is None: the user's PING is written when the shutdown ping's ACK has been read) - or its wake-up was lost
    /\ pp.user = "PendingPing" => ((io.blocked /\ tk.ww) \/ pp.ping = "sent" \/ gh.lostPing)
    /\ (~io.blocked /\ (cs.error.some \/ ShouldCloseOnIdle(Cur))) => HasStreamsNow    \* drained => closed
\* C15 graceful shutdown, at rest with a free socket: GOAWAY(2^31-1) + PING are out; after the ACK the final GOAWAY(last processed) is out
InvGraceful == (Parked /\ Alive /\ ~io.blocked /\ ~ga.closeNow) =>
    /\ gh.graceful = "started" => (gh.goaways # <<>> /\ Last(gh.goaways) = <<MaxI, NO_ERROR>> /\ pp.ping = "sent")
    /\ gh.graceful = "acked" => (gh.goaways # <<>> /\ Last(gh.goaways) = <<sl.recvMax, NO_ERROR>> /\ sl.recvMax # MaxI /\ pp.ping = "none" /\ HasStreamsNow)
\* C15: once a GOAWAY with a real last id is out, no stream above it exists / is counted
InvCutoff == \A s \in Streams : (gh.goaways # <<>> /\ s > Last(gh.goaways)[1]) => sl.st[s] = "idle"
\* an idle client closes with GOAWAY(NO_ERROR) - client role (not in this version)

\* ---- export for replay ------------------------------------------------------------------------------------------------------------
ConnSteps == {"poll", "poll_go_away", "send_pending_pong", "send_pending_ping", "settings_poll_send", "recv_frame", "poll_complete",
              "handle_poll2_result", "codec_shutdown", "take_error", "poll_pong"}
Busy == (Alive /\ (tk.pc # "idle" \/ tk.woken)) \/ (tk.pt = "waiting" /\ pp.user \in {"ReceivedPong", "Closed"})
LastA == hist'[Len(hist')].a[1]
\* everything runnable runs before the next environment step (a quiescence of the simulator)
Drained == Busy => (hist' # hist /\ LastA \in ConnSteps)
NEnv == Cardinality({i \in 1..Len(hist) : hist[i].a[1] \notin ConnSteps})
Finished == NEnv >= ExportLen \/ (~Alive /\ NEnv >= 3)
ExportInv == (Finished /\ ~Busy) => PrintT(<<"REPLAY", ToJson([hist |-> hist])>>)
ExportStop == ~Finished \/ Busy
=============================================================================
