SPECIFICATION Spec
CONSTANTS
  MaxLen = 5
  FullLen = 3
INVARIANT GrammarAgrees
INVARIANT Exclusive
INVARIANT Anatomy
INVARIANT Export
CHECK_DEADLOCK FALSE
