------------------------------ MODULE MC_HttpCl ------------------------------
(***************************************************************************)
(* C13, content-length slice.  A message with declared content-length      *)
(* values clv is received as a head (END_STREAM or not) followed by up to  *)
(* MaxFrames DATA frames with payload lengths from Lens, ended by          *)
(* END_STREAM on the last DATA frame, by trailers, or left open.  Every    *)
(* reachable state is one behaviour of the peer = one replay case.         *)
(* TLC checks in every state that the incremental automaton of             *)
(* HttpSemantics (ClInit / ClData / ClEnd, the one the trace monitor runs) *)
(* agrees with the declarative reading of RFC 9113 8.1.1 (sum of the DATA  *)
(* payload lengths vs. the declared value), and exports the case with the  *)
(* expected verdict.                                                       *)
(***************************************************************************)
EXTENDS HttpSemantics, Json

CONSTANTS MaxFrames, Lens

\* declared content-length field values; -2 stands for an unparsable value
ClChoices == {<<>>, <<0>>, <<1>>, <<3>>, <<1, 1>>, <<1, 3>>, <<3, 1>>, <<-2>>, <<1, -2>>}
\* why the message may be exempt from the rule (8.1.1: "defined as having no content")
ExChoices == {"none", "head", "204", "304"}

VARIABLES clv, ex, hes, frames, fin
vars == <<clv, ex, hes, frames, fin>>

CInit == /\ clv \in ClChoices /\ ex \in ExChoices /\ hes \in BOOLEAN
         /\ frames = <<>> /\ fin = IF hes THEN "head" ELSE "open"
Data(n) == /\ fin = "open" /\ Len(frames) < MaxFrames
           /\ frames' = Append(frames, [n |-> n, es |-> FALSE]) /\ UNCHANGED <<clv, ex, hes, fin>>
DataEnd(n) == /\ fin = "open" /\ Len(frames) < MaxFrames
              /\ frames' = Append(frames, [n |-> n, es |-> TRUE]) /\ fin' = "data" /\ UNCHANGED <<clv, ex, hes>>
Trailers == /\ fin = "open" /\ fin' = "trailers" /\ UNCHANGED <<clv, ex, hes, frames>>
Next == (\E n \in Lens : Data(n) \/ DataEnd(n)) \/ Trailers
Spec == CInit /\ [][Next]_vars

\* numeric summary of the declared values, as the harness computes it for a received list
ClNum == IF clv = <<>> THEN -1
         ELSE IF \E i \in 1..Len(clv) : clv[i] = -2 THEN -2
         ELSE IF \A i \in 1..Len(clv) : clv[i] = clv[1] THEN clv[1] ELSE -3
IsExempt == ex # "none"

\* ---- the automaton of the monitor --------------------------------------------------
Auto == LET a0 == ClInit(IF IsExempt THEN -1 ELSE ClNum)
            a1 == ClRun(a0, frames)
        IN IF fin \in {"head", "trailers"} THEN ClEnd(a1) ELSE a1
HeadDefects == IF IsExempt THEN {} ELSE ClDefects(ClNum)
Verdict == IF HeadDefects # {} THEN "malformed_head"
           ELSE IF IsExempt THEN "exempt"
           ELSE IF Auto.st = "bad" THEN "mismatch"
           ELSE IF Auto.st = "ok" THEN "clean" ELSE "open"

\* ---- the declarative reading --------------------------------------------------------
Sum[k \in 0..Len(frames)] == IF k = 0 THEN 0 ELSE Sum[k - 1] + frames[k].n
Ended == fin # "open"
Declared == ~IsExempt /\ ClNum >= 0
Mismatch == Declared /\ ((\E k \in 0..Len(frames) : Sum[k] > ClNum) \/ (Ended /\ Sum[Len(frames)] # ClNum))

Agrees ==
    /\ (Auto.st = "bad") <=> Mismatch
    /\ (Auto.st = "ok") <=> (Ended /\ ~Mismatch)
    /\ (Auto.st = "open") <=> (~Ended /\ ~Mismatch)
    /\ (~Mismatch => Auto.got = Sum[Len(frames)])
\* once the body disagrees no later frame repairs it; a clean end is final
Sticky == [][/\ (Verdict = "mismatch" => Verdict' = "mismatch")
             /\ (Verdict = "malformed_head" => Verdict' = "malformed_head")]_vars

Export ==
    PrintT(<<"CASE", ToJson([clv |-> clv, cl |-> ClNum, ex |-> ex, hes |-> hes, frames |-> frames, fin |-> fin,
                             exp |-> Verdict, got |-> Sum[Len(frames)]])>>)
=============================================================================
