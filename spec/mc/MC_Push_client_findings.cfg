\* The strict (S) invariants: the code violates each of them (see notes/push_model.md, findings). TLC stops at the first violated
\* invariant: keep ONE INVARIANT line at a time to see each counterexample (bin: /verif/.work/push/tr.py did that while building).
SPECIFICATION MCSpec
VIEW View
CONSTANTS
  Role = "c"
  Parents = {1}
  NPush = 2
  InitMaxSend = 1000
  InitMaxRecv = 1
  ResetMax = 1
  ErrorResetMax = 2
  LazyClient = FALSE
  OldIdleCheck = FALSE
  NPeer = 4
  NAppX = 2
  NTick = 1
  NIdle = 0
  PeerKinds = {"pp", "resp", "data", "rst", "wu"}
  LimitVals = {}
  AllowNoPush = FALSE
  AllowEof = FALSE
  AllowGoAway = FALSE
  AllowMalformedPush = FALSE
  AllowBlock = FALSE
  ExportLen = 0
  HasFiller = FALSE
  SimDrops = FALSE
INVARIANT InvAssert
INVARIANT InvC09strict
CHECK_DEADLOCK FALSE
