\* The strict (S) invariants the code still violates (client role; InvAssert holds since the repair of P6: see MC_Push_client_oldbugs.cfg). TLC stops at the first violated
\* invariant: keep ONE INVARIANT line at a time to see each counterexample.
SPECIFICATION MCSpec
VIEW View
CONSTANTS
  Role = "c"
  Parents = {1}
  NPush = 2
  InitMaxSend = 1000
  InitMaxRecv = 1
  ResetMax = 1
  ErrorResetMax = 2
  LazyClient = FALSE
  OldPushBugs = FALSE
  OldIdleCheck = FALSE
  NPeer = 4
  NAppX = 2
  NTick = 1
  NIdle = 0
  PeerKinds = {"pp", "resp", "data", "rst", "wu"}
  LimitVals = {}
  AllowNoPush = FALSE
  AllowEof = FALSE
  AllowGoAway = FALSE
  AllowMalformedPush = FALSE
  AllowBlock = FALSE
  ExportLen = 0
  HasFiller = FALSE
  SimDrops = FALSE
INVARIANT InvC09strict
CHECK_DEADLOCK FALSE
