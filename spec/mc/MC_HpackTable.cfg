SPECIFICATION Spec
CONSTANTS
  NameHash <- HashA
  Values = {1, 2}
  SensNames = {1}
  Sizes = {0, 50, 80, 120}
  InitMax = 120
  EntryLen = 37
  MaxOps = 30
VIEW View
INVARIANT IndexInv
INVARIANT LookupInv
CONSTRAINT HistBound
ACTION_CONSTRAINT EdgeOK
ACTION_CONSTRAINT Export
CHECK_DEADLOCK FALSE
