SPECIFICATION Spec
CONSTANTS
  MaxFrames = 3
  Lens = {0, 1, 2, 3}
INVARIANT Agrees
INVARIANT Export
PROPERTY Sticky
CHECK_DEADLOCK FALSE
