SPECIFICATION MCSpec
VIEW View
CONSTANTS
  Streams = {1, 3}
  IW = 6
  CW = 8
  DataSizes = {0, 1, 2, 6}
  Pads = {0, 1}
  RelSizes = {1, 2, 3}
  Targets = {6, 10}
  SetVals = {1, 8}
  NData = 2
  NRel = 2
  NDrop = 1
  NRst = 1
  NTarget = 1
  NSet = 1
  ExportLen = 0
INVARIANT WireContract
INVARIANT QuiescentNoLeak
INVARIANT InvAssert
INVARIANT InvConn
CHECK_DEADLOCK FALSE
