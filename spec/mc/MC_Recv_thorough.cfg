SPECIFICATION MCSpec
VIEW View
CONSTANTS
  Streams = {1, 3}
  IW = 4
  CW = 6
  DataSizes = {0, 1, 2, 4}
  Pads = {0, 1}
  RelSizes = {1, 2}
  Targets = {4, 8}
  SetVals = {2, 6}
  NData = 3
  NRel = 2
  NDrop = 1
  NRst = 1
  NTarget = 1
  NSet = 1
  ExportLen = 0
INVARIANT WireContract
INVARIANT QuiescentNoLeak
INVARIANT InvAssert
INVARIANT InvConn
CHECK_DEADLOCK FALSE
