SPECIFICATION MCSpec
VIEW View
CONSTANTS
  Streams = {1, 3}
  Pushed = {}
  Remote = {}
  InitWin = 1
  ConnWin = 2
  RecvWin = 4
  MaxBuf = 4
  MaxSend0 = 1
  NCall = 2
  NApp = 2
  NPeer = 2
  MaxData = 1
  CallKinds = {"poll_ready", "poll_reset", "poll_response"}
  AppKinds = {"request", "request_keep", "drop_sr", "send_reset", "send_data", "drop_send", "drop_recv"}
  PeerKinds = {"SET_MAXC", "HEADERS", "RST"}
  IwsVals = {}
  MaxcVals = {0, 1}
  ReqEos = {FALSE, TRUE}
  Allow = {"cancel_pending_open"}
  ExportLen = 0
\* F-T4 (S): the last handle of a request that is still pending open is dropped after the SendRequest handles: maybe_cancel schedules
\* the reset but schedule_send does nothing (not send-ready), nobody wakes the connection task, which would now have to close
INVARIANT InvC06conn
CHECK_DEADLOCK FALSE
