SPECIFICATION MCSpec
VIEW View
CONSTANTS
  Streams = {}
  Pushed = {}
  Remote = {1, 3}
  InitWin = 1
  ConnWin = 2
  RecvWin = 4
  MaxBuf = 4
  MaxSend0 = 1
  NCall = 2
  NApp = 2
  NPeer = 3
  MaxData = 1
  CallKinds = {"poll_capacity", "poll_reset"}
  AppKinds = {"accept", "send_response", "reserve", "send_data", "send_reset", "drop_send", "drop_recv"}
  PeerKinds = {"REQ", "WU", "RST", "EOF"}
  IwsVals = {}
  MaxcVals = {}
  ReqEos = {FALSE}
  Allow = {"shared_slot", "push_after_recv_drop", "cancel_pending_open"}
  ExportLen = 0
INVARIANT InvC06
INVARIANT InvC06conn
INVARIANT InvConnRegistered
INVARIANT InvSchedule
INVARIANT InvC07
INVARIANT InvC08
INVARIANT InvC08fresh
INVARIANT InvStructure
CHECK_DEADLOCK FALSE
