------------------------------ MODULE MC_Push ------------------------------
(* Bounded configurations of the server-push implementation model (H2Push), both roles.
   Server role: the application pushes, answers, sends data, resets and drops its handles in any order; the peer sends any
   RST_STREAM / WINDOW_UPDATE / HEADERS / DATA on any server-initiated id (promised on the wire or not: legality is decided
   from the wire), changes SETTINGS_MAX_CONCURRENT_STREAMS / ENABLE_PUSH, resets the parent, sends GOAWAY, closes; the
   connection task writes ONE frame per step or not at all (blocked socket); time passes.
   Client role: the peer sends PUSH_PROMISE (good / unsafe method / on any parent state / after ENABLE_PUSH=0), pushed
   response HEADERS / DATA, RST_STREAM; the application polls or drops the PushPromises handle, the response future, the
   pushed streams, resets them.
   Export mode (ExportLen > 0): TLC -simulate prints behaviours under schedules the simulator reproduces (one step per
   quiescence, the connection task drains after each unless the socket is blocked).
   notes/push_model.md has the numbers and the findings. *)
EXTENDS H2Push, Json

CONSTANTS NPeer,           \* budget of peer frames
          NAppX,           \* budget of send_data / send_reset calls
          NTick, NIdle,
          PeerKinds,       \* the kinds of peer frames of this slice: subset of {"rst", "wu", "headers", "data", "settings", "nopush", "goaway", "pp", "resp"}
          LimitVals,       \* values the peer's SETTINGS_MAX_CONCURRENT_STREAMS may take later
          AllowNoPush,     \* the peer may send SETTINGS(ENABLE_PUSH = 0)
          AllowEof, AllowGoAway,
          AllowMalformedPush,   \* the application may call push_request with a request h2 rejects (unsafe method)
          AllowBlock,      \* export: the socket may stop taking bytes for a while
          ExportLen,
          HasFiller,       \* export (server role): one more request stream stays open all along (the replay's filler): has_streams() never turns false
          SimDrops         \* handles are dropped the way the simulator's tasks do

VARIABLES bud, hist, wb
mvars == <<svars, bud, hist, wb>>

MCInit ==
    /\ Init0
    /\ bud = [peer |-> NPeer, appx |-> NAppX, tick |-> NTick, idle |-> NIdle]
    /\ hist = <<>> /\ wb = "free"

Use(k) == bud[k] > 0 /\ bud' = [bud EXCEPT ![k] = bud[k] - 1]
Export == ExportLen > 0

\* ---- projection compared with the statistics snapshot of the real library ----
RecProj(k) == IF ~rec[k].inSlab THEN [in_slab |-> FALSE]
              ELSE [in_slab |-> TRUE, linked |-> rec[k].linked, st |-> rec[k].state, is_counted |-> rec[k].isCounted,
                    is_pending_push |-> rec[k].isPendingPush, is_pending_open |-> rec[k].isPendingOpen,
                    is_pending_send |-> rec[k].isPendingSend, is_pending_accept |-> rec[k].inPpp, ref_count |-> rec[k].refCount,
                    reset_at |-> rec[k].resetAt, pending_send_empty |-> rec[k].pendingSend = <<>>]
Proj == [store_len |-> StoreLen, slab_len |-> SlabLen,
         num_send_streams |-> cn.numSend, max_send_streams |-> cn.maxSend, num_recv_streams |-> cn.numRecv,
         num_local_reset_streams |-> cn.numLocalReset, num_local_error_reset_streams |-> cn.numLocalErrorReset,
         ended |-> cn.connErr, goaway |-> cn.goAway, panic |-> ~okS.ok, why |-> okS.why,
         recs |-> [s \in Ids |-> [m |-> RecProj(<<s, 0>>), t |-> RecProj(<<s, 1>>)]]]
\* ---- export schedules: what the simulator can reproduce (also recorded per step: TLC's simulator evaluates invariants on successors
\*      that the ACTION_CONSTRAINTs reject, so the REPLAY line is printed only when the last step was an admissible one) ----
Started(p) == app[p].tried
ClientStart(p) ==          \* ResponseFuture::push_promises(): one more OpaqueStreamRef
    /\ LazyClient /\ okS.ok /\ app[p].resp /\ ~app[p].tried
    /\ Commit([Deref(Cur, Main(p)) EXCEPT !.rec[Main(p)].refCount = @ + 1])
    /\ app' = [app EXCEPT ![p].pp = TRUE, ![p].tried = TRUE]
ClientDropHead(p) ==
    /\ LazyClient /\ okS.ok /\ app[p].resp /\ ~app[p].tried
    /\ Commit(DropStreamRef(Cur, Main(p)))
    /\ app' = [app EXCEPT ![p].resp = FALSE, ![p].tried = TRUE]
AutoPollPushEnabled(p) == LazyClient /\ okS.ok /\ app[p].pp /\ PollPushResult(p) # "pending"
\* a held response future: the response is there (Ready(Ok): the future is traded for a RecvStream - clone + drop, the count stays) ...
Polling(s) == LazyClient /\ okS.ok /\ app[s].resp /\ (s \in PushIds \/ Started(s))
AutoRespEnabled(s) == Polling(s) /\ rec[Main(s)].hasResp
AutoResp(s) ==
    /\ AutoRespEnabled(s)
    \* RecvStream::new(FlowControl::new(inner.clone())): ref_inc; then the future is dropped: drop_stream_ref (its transition_after unlinks BY ID)
    /\ Commit(DropStreamRef([Cur EXCEPT !.rec[Main(s)].hasResp = FALSE, !.rec[Main(s)].refCount = @ + 1], Main(s)))
    /\ app' = [app EXCEPT ![s].resp = FALSE, ![s].body = TRUE]
\* ... or the stream failed (Ready(Err)): the future is dropped
AutoDropErrEnabled(s) == Polling(s) /\ ~rec[Main(s)].hasResp /\ EnsureRecvOpen(rec[Main(s)].state) # "open"
AppBusy == \E s \in Ids : (s \in Parents /\ AutoPollPushEnabled(s)) \/ AutoRespEnabled(s) \/ AutoDropErrEnabled(s)
IdleCloseEnabled == ~HasFiller /\ ConnAlive /\ cn.peerGoAway /\ cn.numSend = 0 /\ cn.numRecv = 0 /\ ~PopEnabled
\* Prioritize::buffer_pending returns Complete as soon as pop_frame returns None - also when that call only removed dangling entries and a
\* stream in pending_open could now be admitted (finding P9): the connection task then rests until something else wakes it
\* (repaired - P9: the loop now goes on while a pending-open stream can be admitted; the rule applies with OldPushBugs only)
EmptyPop == OldPushBugs /\ hist # <<>> /\ hist[Len(hist)].a[1] = "pop_frame" /\ hist[Len(hist)].ev = <<>>
ConnBusy == (ConnAlive /\ (ResetDue \/ (wb # "blocked" /\ ((PopEnabled /\ ~EmptyPop) \/ IdleCloseEnabled)))) \/ (okS.ok /\ cn.connErr /\ ~cn.dropped)
StepOk(x) ==
    LET n == x[1] IN
    \* the connection task drains before the next application / peer / time step
    /\ ConnBusy => n \in {"pop_frame", "clear_expired", "conn_drop", "idle_close"}
    /\ EmptyPop => n # "pop_frame"
    \* ... then the (eager) client application reacts
    /\ (~ConnBusy /\ AppBusy) => n \in {"auto_poll_push", "auto_resp", "auto_drop"}
    \* while the socket is blocked nothing is written, no SETTINGS is applied (the ACK cannot be buffered), the connection does not end
    /\ wb = "blocked" => /\ n \notin {"pop_frame", "idle_close", "settings_max", "settings_nopush", "goaway", "peer_eof"}
                         /\ ~(cn'.connErr /\ ~cn.connErr)
    \* (simulation bias) the steps that end the connection come late
    /\ ((cn'.connErr /\ ~cn.connErr /\ n # "idle_close") \/ n = "goaway") => Len(hist) + 8 >= ExportLen
    \* (simulation bias) what ends pushing - the parent reset / dropped / answered with END_STREAM, ENABLE_PUSH=0 - comes late as well
    /\ (n = "settings_nopush" \/ (n \in {"send_reset", "drop_send", "recv_reset"} /\ x[2] \in Parents)
           \/ (n = "send_response" /\ x[2] \in Parents /\ x[3])) => Len(hist) + 10 >= ExportLen
H(x, res) == /\ hist' = IF Export THEN Append(hist, [a |-> x, res |-> res, ev |-> evs', p |-> Proj', okstep |-> StepOk(x)]) ELSE hist
             /\ wb' = IF x[1] = "block" THEN "blocked" ELSE IF x[1] = "unblock" THEN "done" ELSE wb

ConnStep(A, x) == A /\ H(x, "-") /\ UNCHANGED bud
Res(b) == IF b THEN "ok" ELSE "err"
Quiet == evs' = <<>> /\ UNCHANGED <<rec, cn, qSend, qOpen, qReset, app, wire, gh, okS>>

ServerNext ==
    \* ---- the application ----
    \/ \E p \in Parents : PushRequest(p) /\ UNCHANGED bud /\ H(<<"push_request", p, cn.nextSendId>>, Res(~PushRequestFails(p)))
    \/ \E p \in Parents : AllowMalformedPush /\ PushRequestMalformed(p) /\ UNCHANGED bud /\ H(<<"push_request_bad", p, cn.nextSendId>>, "err")
    \/ \E s \in Ids, e \in BOOLEAN : SendResponse(s, e) /\ UNCHANGED bud /\ H(<<"send_response", s, e>>, Res(SendResponseOk(s)))
    \/ \E s \in Ids, e \in BOOLEAN : Use("appx") /\ SendData(s, e) /\ H(<<"send_data", s, e>>, Res(SendDataOk(s)))
    \/ \E s \in Ids : Use("appx") /\ SendReset(s) /\ H(<<"send_reset", s>>, "ok")
    \/ \E s \in Ids : ~SimDrops /\ DropHandle(s, "resp") /\ UNCHANGED bud /\ H(<<"drop_resp", s>>, "-")
    \/ \E s \in Ids : ~SimDrops /\ DropHandle(s, "send") /\ UNCHANGED bud /\ H(<<"drop_sendstream", s>>, "-")
    \/ \E s \in Ids : SimDrops /\ DropSendSide(s) /\ UNCHANGED bud /\ H(<<"drop_send", s>>, "-")
    \* ---- the peer ----
    \/ \E s \in Ids : "rst" \in PeerKinds /\ Use("peer") /\ RecvReset(s) /\ H(<<"recv_reset", s>>, "-")
    \/ \E s \in PushIds : "wu" \in PeerKinds /\ Use("peer") /\ RecvWindowUpdate(s) /\ H(<<"recv_wu", s>>, "-")
    \/ \E s \in PushIds, e \in BOOLEAN : "headers" \in PeerKinds /\ Use("peer") /\ RecvHeadersOnPushed(s, e) /\ H(<<"recv_headers", s, e>>, "-")
    \/ \E s \in PushIds : "data" \in PeerKinds /\ Use("peer") /\ RecvDataOnPushed(s) /\ H(<<"recv_data", s>>, "-")
    \/ \E v \in LimitVals : "settings" \in PeerKinds /\ Use("peer") /\ RecvSettingsMax(v) /\ H(<<"settings_max", v>>, "-")
    \/ AllowNoPush /\ "nopush" \in PeerKinds /\ Use("peer") /\ RecvSettingsNoPush /\ H(<<"settings_nopush">>, "-")
    \/ \E l \in {0, Unl} : AllowGoAway /\ "goaway" \in PeerKinds /\ Use("peer") /\ RecvGoAway(l) /\ H(<<"goaway", l>>, "-")
    \/ AllowEof /\ PeerEof /\ UNCHANGED bud /\ H(<<"peer_eof">>, "-")

ClientNext ==
    \* ---- the peer (a server) ----
    \/ \E p \in Parents, s \in PushIds, safe \in BOOLEAN : "pp" \in PeerKinds /\ Use("peer") /\ RecvPushPromise(p, s, safe) /\ H(<<"recv_pp", p, s, safe>>, "-")
    \/ \E s \in PushIds, e \in BOOLEAN : "resp" \in PeerKinds /\ Use("peer") /\ RecvPushedHeaders(s, e) /\ H(<<"recv_headers", s, e>>, "-")
    \/ \E s \in PushIds, e \in BOOLEAN : "data" \in PeerKinds /\ Use("peer") /\ RecvPushedData(s, e) /\ H(<<"recv_data", s, e>>, "-")
    \/ \E s \in Ids : "rst" \in PeerKinds /\ Use("peer") /\ RecvReset(s) /\ H(<<"recv_reset", s>>, "-")
    \/ \E s \in PushIds : "wu" \in PeerKinds /\ Use("peer") /\ RecvWindowUpdate(s) /\ H(<<"recv_wu", s>>, "-")
    \/ AllowEof /\ PeerEof /\ UNCHANGED bud /\ H(<<"peer_eof">>, "-")
    \* ---- the application ----
    \/ \E p \in Parents : ~LazyClient /\ Use("appx") /\ PollPush(p, SimDrops) /\ H(<<"poll_push", p>>, PollPushResult(p))
    \/ \E p \in Parents : ~LazyClient /\ DropHandle(p, "pp") /\ UNCHANGED bud /\ H(<<"drop_pp", p>>, "-")
    \/ \E s \in Ids : ~LazyClient /\ DropHandle(s, "resp") /\ UNCHANGED bud /\ H(<<"drop_resp", s>>, "-")

\* ---- client role, export only: the simulator's client tasks are EAGER (they react to every wake-up); the application's only choices are when it
\*      starts looking at a request (takes the PushPromises handle: ReadPol.start_q) or drops the response future unseen (ReadPol.drop_head) ----
ClientAuto ==
    \/ \E p \in Parents : AutoPollPushEnabled(p) /\ PollPush(p, TRUE) /\ UNCHANGED bud /\ H(<<"auto_poll_push", p>>, PollPushResult(p))
    \/ \E s \in Ids : AutoResp(s) /\ UNCHANGED bud /\ H(<<"auto_resp", s>>, "ok")
    \/ \E s \in Ids : AutoDropErrEnabled(s) /\ DropHandle(s, "resp") /\ UNCHANGED bud /\ H(<<"auto_drop", s>>, "err")
    \/ \E p \in Parents : ClientStart(p) /\ UNCHANGED bud /\ H(<<"client_start", p>>, "-")
    \/ \E p \in Parents : ClientDropHead(p) /\ UNCHANGED bud /\ H(<<"client_drop_head", p>>, "-")

MCNext ==
    \/ Role = "c" /\ LazyClient /\ ClientAuto
    \/ Role = "s" /\ ServerNext
    \/ Role = "c" /\ ClientNext
    \* ---- the connection task ----
    \/ ConnStep(PopFrame /\ UNCHANGED app, <<"pop_frame">>)
    \/ ConnStep(ClearExpiredResetStreams /\ UNCHANGED app, <<"clear_expired">>)
    \/ ~HasFiller /\ ConnStep(IdleClose, <<"idle_close">>)
    \/ ConnStep(ConnDrop, <<"conn_drop">>)
    \* ---- time ----
    \/ okS.ok /\ Use("tick") /\ Tick /\ H(<<"tick">>, "-")
    \* ---- export only: the socket blocks / unblocks; an idle quiescence ----
    \/ AllowBlock /\ wb = "free" /\ ConnAlive /\ ~PopEnabled /\ Quiet /\ UNCHANGED bud /\ H(<<"block">>, "-")
    \/ wb = "blocked" /\ Quiet /\ UNCHANGED bud /\ H(<<"unblock">>, "-")
    \/ Export /\ okS.ok /\ Use("idle") /\ Quiet /\ H(<<"idle">>, "-")

MCSpec == MCInit /\ [][MCNext]_mvars

View == <<rec, cn, qSend, qOpen, qReset, app, wire, gh, okS, bud, wb>>

\* ---- invariants -------------------------------------------------------------------------------------------------------
\* (G) = what the code guarantees (quick / thorough); (S) = the strict form of the property, violated by the code: MC_Push_findings.cfg
InvAssert == NoAssert                                   \* (S) no panic of the code
\* (G) the only panics: pop_frame's unwrap of the promised stream (findings P1 - P3), and - debug builds, hostile peer - queue_open of a
\*     send_reset-created record that already sits in pending_send
\* (pp_unwrap: with OldPushBugs only - findings P1 - P3 are repaired)
InvAssertKnown == okS.ok \/ (OldPushBugs /\ okS.why = "pp_unwrap") \/ okS.why = "queue_open_debug_assert"
InvStructure == okS.ok => Structure                     \* (G)
InvKept == okS.ok => KeptIffNeeded                      \* (G) C19: no record stays once Stream::is_released holds
InvBounded == cn.numLocalReset <= ResetMax /\ cn.numLocalErrorReset <= ErrorResetMax     \* (G)
InvCounters == okS.ok =>                                 \* (G) the counters are the sizes of the sets they stand for
    /\ cn.numSend = Cardinality({k \in Keys : rec[k].inSlab /\ rec[k].isCounted /\ IsLocalId(k[1])})
    /\ cn.numRecv = Cardinality({k \in Keys : rec[k].inSlab /\ rec[k].isCounted /\ ~IsLocalId(k[1])})
    /\ ~cn.connErr => cn.numLocalReset = Cardinality({k \in Keys : rec[k].inSlab /\ rec[k].resetAt})

\* client role: (G) the only panic is Counts::inc_num_recv_streams' assert!(can_inc_num_recv_streams()) - pushed response HEADERS beyond the
\* limit the client advertised (finding P6); the strict form is InvAssert
InvAssertKnownClient == okS.ok \/ (OldPushBugs /\ okS.why = "inc_num_recv_streams")
\* client role, C05: the application never sees more concurrently active pushed streams than the client advertised
InvC05client == cn.numRecv <= InitMaxRecv
InvC09knownClient == gh.c09s \in {"", "PUSH_PROMISE on a parent the server had reset: dropped silently",
                                      "legal PUSH_PROMISE on a parent we cancelled and forgot answered with a connection error",
                                      "legal frame on a promised stream we cancelled and forgot answered with a stream error"}
\* C04: frame sequences on the wire (monitors run when a frame is written: WireFrame)
InvC04 == gh.c04 = ""                                   \* (G) no frame on an idle / ended / reset stream, PUSH_PROMISE on a live parent, ids increasing
InvC04strict == gh.c04s = ""                            \* (S) ... and no PUSH_PROMISE after the acknowledged ENABLE_PUSH=0 / after the peer's GOAWAY
\* C05: the peer's limit in force when a pushed response is opened; every stream open on the wire holds a slot
\* (G) a slot is taken only when the limit in force allows it (IncNumSend asserts can_inc_num_send_streams), and held until the stream ends
InvC05 == okS.ok /\ ~cn.connErr => \A s \in WireOpen(wire) : rec[Main(s)].inSlab /\ rec[Main(s)].isCounted
\* (S) measured on the wire: the HEADERS that open a pushed stream never exceed the limit acknowledged BEFORE them (the slot is taken when the
\*     stream enters pending_send; a SETTINGS frame lowering the limit can be acknowledged between that moment and the write)
InvC05strict == gh.c05 = ""
\* C09: a legal peer frame never ends the connection ...
InvC09 == gh.c09 = ""                                   \* (G)
\* ... an illegal one is always answered (connection error, stream error, or ignored on a stream we had reset)
InvC09strict == gh.c09s = ""                            \* (S)
\* (G) the only leniency left: RST_STREAM / WINDOW_UPDATE on an id below next_stream_id that the store does not know and that never reached the
\*     wire (consumed by a failed push_request, or its PUSH_PROMISE was dropped with the parent's queue / with the forgotten stream)
InvC09known == gh.c09s \in {"", "RST_STREAM on an id the store does not know (never promised on the wire) accepted",
                                "WINDOW_UPDATE on an id the store does not know (never promised on the wire) accepted"}
\* C17 (observation): a promise that reached the wire is resolved: once everything is drained and all handles are gone, the promised
\* stream was answered to its end or reset (by either side)
AllHandlesDropped == \A s \in Ids : ~app[s].resp /\ ~app[s].send /\ ~app[s].pp /\ ~app[s].body
Drained == qSend = <<>> /\ qOpen = <<>>
InvC17resolved == okS.ok /\ ~cn.connErr /\ AllHandlesDropped /\ Drained /\ Role = "s"
                      => \A s \in PushIds : wire[s].pp => wire[s].es \/ wire[s].rst \/ wire[s].prst          \* (S)
\* C19: all handles dropped, all queues drained, reset memory expired, connection alive => nothing is left
AllDone == AllHandlesDropped /\ Drained /\ qReset = <<>>
InvIdle == okS.ok /\ AllDone /\ ~cn.connErr => SlabLen = 0 /\ StoreLen = 0 /\ cn.numSend = 0 /\ cn.numRecv = 0 /\ cn.numLocalReset = 0      \* (S)
\* (G) ... except "stranded" promised streams: is_pending_push for ever because the PUSH_PROMISE was dropped with its parent's queue (finding P4)
PromiseQueued(s) == \E p \in Parents : \E i \in 1..Len(rec[Main(p)].pendingSend) :
                        rec[Main(p)].pendingSend[i].ty = "PUSH_PROMISE" /\ rec[Main(p)].pendingSend[i].prom = s
Stranded(k) == rec[k].isPendingPush /\ ~PromiseQueued(k[1])
InvIdleKnown == okS.ok /\ AllDone /\ ~cn.connErr => /\ \A k \in SlabKeys : Stranded(k)
                                                   /\ cn.numSend = 0 /\ cn.numRecv = 0 /\ cn.numLocalReset = 0
\* (orphan at EOF = finding F-d of notes/streams_model.md: a record unlinked BY ID by another record of the same id, still holding a frame)
OrphanFd(k) == rec[k].refCount = 0 /\ ~rec[k].isPendingSend /\ ~rec[k].isPendingOpen /\ ~rec[k].resetAt /\ ~rec[k].linked /\ rec[k].pendingSend # <<>>
InvDropped == okS.ok /\ cn.dropped => /\ \A k \in Keys : rec[k].inSlab => rec[k].refCount > 0 \/ rec[k].resetAt \/ OrphanFd(k) \/ Stranded(k)
                                     /\ \A k \in Keys : rec[k].inSlab /\ rec[k].isCounted => OrphanFd(k)
                                     /\ qSend = <<>> /\ qOpen = <<>>                                  \* (G)
\* C18: every record the application does not hold is kept for a reason that is bounded by configuration or by the application's own calls:
\* counted (<= the limits), remembered reset (<= ResetMax), waiting in a send queue (a frame / slot the application asked for),
\* promised and waiting for the PUSH_PROMISE that is still queued on its parent, or (client) waiting in the parent's promise queue
Unheld == {k \in Keys : rec[k].inSlab /\ rec[k].refCount = 0}
Justified(k) == rec[k].isCounted \/ rec[k].resetAt \/ rec[k].isPendingSend \/ rec[k].isPendingOpen \/ rec[k].inPpp
                \/ (rec[k].isPendingPush /\ PromiseQueued(k[1]))
InvC18 == okS.ok /\ ~cn.connErr => \A k \in Unheld : Justified(k)                                                          \* (S)
InvC18known == okS.ok /\ ~cn.connErr => \A k \in Unheld : Justified(k) \/ Stranded(k)                                      \* (G)
\* the closed form: unheld records <= counted + reset memory + queued by the application (NPush bounds the model's application)
InvC18bound == okS.ok /\ ~cn.connErr => Cardinality({k \in Unheld : ~rec[k].isPendingSend /\ ~rec[k].isPendingOpen /\ ~rec[k].isPendingPush /\ ~rec[k].inPpp})
                   <= cn.numSend + cn.numRecv + ResetMax                                                                   \* (G)
\* vacuity witnesses (violated on purpose in MC_Push_findings.cfg): the interesting states are reached
WitnessPendingOpenReset == ~(\E s \in PushIds : rec[Main(s)].inSlab /\ rec[Main(s)].isPendingOpen /\ wire[s].prst)

\* ---- export for replay ----------------------------------------------------------------------------------------------------
StepsOk == hist' # hist => hist'[Len(hist')].okstep           \* ACTION_CONSTRAINT of the export configurations
Finished == (Len(hist) >= ExportLen /\ wb # "blocked") \/ cn.dropped \/ ~okS.ok
ExportInv == (Finished /\ ~ConnBusy /\ ~AppBusy /\ (hist # <<>> => hist[Len(hist)].okstep)) =>
                 PrintT(<<"REPLAY", ToJson([role |-> Role, parents |-> Parents, initmax |-> InitMaxSend, initmaxrecv |-> InitMaxRecv, resetmax |-> ResetMax,
                                            errmax |-> ErrorResetMax, hist |-> hist])>>)
ExportStop == ~Finished \/ ConnBusy \/ AppBusy
=============================================================================
