SPECIFICATION MCSpec
CONSTANTS
  Streams = {}
  Pushed = {}
  Remote = {1, 3}
  InitWin = 1
  ConnWin = 3
  RecvWin = 6
  MaxBuf = 18
  MaxSend0 = 1
  NCall = 14
  NApp = 12
  NPeer = 14
  MaxData = 2
  CallKinds = {"poll_capacity", "poll_reset", "poll_data", "poll_trailers"}
  AppKinds = {"accept", "send_response", "reserve", "send_data", "send_reset", "release", "drop_send", "drop_recv"}
  PeerKinds = {"REQ", "WU", "SET_IWS", "DATA", "TRAILERS", "RST", "EOF"}
  IwsVals = {0, 1, 2}
  MaxcVals = {0, 1, 2}
  ReqEos = {FALSE}
  Allow = {"shared_slot", "reset_after_end", "push_after_recv_drop", "cancel_pending_open"}
  ExportLen = 40
ACTION_CONSTRAINT Drained
ACTION_CONSTRAINT LateEnd
ACTION_CONSTRAINT Bias
ACTION_CONSTRAINT NoReqAfterErr
CONSTRAINT ExportStop
INVARIANT ExportInv
INVARIANT InvStructure
CHECK_DEADLOCK FALSE
