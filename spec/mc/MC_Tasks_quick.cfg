SPECIFICATION MCSpec
VIEW View
CONSTANTS
  Streams = {1, 3}
  Pushed = {}
  Remote = {}
  InitWin = 1
  ConnWin = 2
  RecvWin = 4
  MaxBuf = 4
  MaxSend0 = 2
  NCall = 2
  NApp = 3
  NPeer = 1
  MaxData = 1
  CallKinds = {"poll_capacity", "poll_reset"}
  AppKinds = {"request", "reserve", "send_data", "send_reset", "drop_send"}
  PeerKinds = {"WU", "SET_IWS", "RST"}
  IwsVals = {0, 2}
  MaxcVals = {}
  ReqEos = {FALSE}
  Allow = {"shared_slot", "push_after_recv_drop", "cancel_pending_open"}
  ExportLen = 0
INVARIANT InvC06
INVARIANT InvC06conn
INVARIANT InvConnRegistered
INVARIANT InvSchedule
INVARIANT InvC07
INVARIANT InvC08
INVARIANT InvC08fresh
INVARIANT InvStructure
CHECK_DEADLOCK FALSE
