SPECIFICATION MCSpec
VIEW View
CONSTANTS
  Streams = {1, 3}
  Role = "client"
  Bud <- BudQuick
  MaxInq = 2
  MaxBurst = 2
  SetVals = {0, 1}
  PingVals = {1, 2}
  AckVals = {100, 101}
  GoAwayIds = {0, 2147483647}
  Codes = {0, 11}
  AbruptCodes = {}
  AllowEof = TRUE
  LocalVals = {1}
  HarnessPing = FALSE
  Atomic = TRUE
  ExportLen = 0
INVARIANT InvAssert
INVARIANT InvC14Acks
INVARIANT InvC14Local
INVARIANT InvC15Ids
INVARIANT InvResult
INVARIANT InvParked
INVARIANT InvGraceful
INVARIANT InvCutoff
INVARIANT InvIdleClient
CHECK_DEADLOCK FALSE
