---------------------------- MODULE MC_HpackDec ----------------------------
(***************************************************************************)
(* Property C11, block level: the RFC 7541 decoder of Hpack.tla driven by   *)
(* every instruction of a small alphabet - valid ones with every            *)
(* representation kind, and every error class - in every reachable decoder *)
(* state (table contents x maximum size x limit x "field seen" x position  *)
(* in the block).  TLC explores the decoder's state graph; for every edge   *)
(* (state, instruction) it prints one test case: the shortest history of    *)
(* blocks / settings that shapes the table, then the block ending with the  *)
(* instruction.  The harness feeds each case to the real h2 Decoder whole   *)
(* and at every split point; Trace_Hpack.tla decides.                       *)
(***************************************************************************)
EXTENDS Hpack, Json

CONSTANTS MaxBlk,      \* instructions per block
          MaxPre       \* blocks / settings before the block under test

VARIABLES d,      \* decoder state of Hpack.tla
          cur,    \* instructions of the open block
          hist    \* closed blocks and settings: [set |-> n | -1, ins |-> <<...>>]
vars == <<d, cur, hist>>

Init0 == 80
Long == "zzzzzzzzzzzzzzzzzzzzzzzzzzzzzzzzzzzzzzzzzzzzzzzzzz"   \* 50 octets: 32 + 4 + 50 > 80
Lit(k, n, nl, v, vl) == Ins(k, 0, n, nl, v, vl)
Ref(k, i, v, vl) == Ins(k, i, "", 0, v, vl)
Alphabet ==
    { IIdx(0), IIdx(2), IIdx(61), IIdx(62), IIdx(63), IIdx(64),
      Lit("incr", "qaaa", 4, "1", 1), Lit("incr", "qaab", 4, "22", 2), Lit("incr", "qaad", 4, Long, 50),
      Lit("incr", "", 0, "x", 1),
      Ref("incr", 62, "3", 1), Ref("incr", 63, "3", 1), Ref("incr", 19, "x", 1), Ref("incr", 64, "x", 1),
      Lit("noidx", "qaac", 4, "1", 1), Ref("noidx", 62, "4", 1), Ref("noidx", 63, "4", 1),
      Lit("never", "qaac", 4, "2", 1), Ref("never", 1, "h", 1), Ref("never", 64, "h", 1),
      ISize(0), ISize(40), ISize(41), ISize(80), ISize(81),
      IErr("trunc"), IErr("huff"), IErr("intbig") }
Settings == {0, 40, 80}

Init == d = DecInit(Init0) /\ cur = <<>> /\ hist = <<>>

Feed(x) == /\ d.err = "" /\ Len(cur) < MaxBlk
           /\ d' = DecIns(d, x)
           /\ cur' = Append(cur, x)
           /\ UNCHANGED hist
\* (a block with an empty field name is malformed for every HTTP/2 endpoint - RFC 9113 8.2.1 - so it is
\* tested as the block under test but never used as an earlier block of the connection)
NoEmptyName(is) == \A j \in 1..Len(is) : ~(is[j].k \in {"incr", "noidx", "never"} /\ is[j].i = 0 /\ is[j].nl = 0)
EndBlock == /\ d.err = "" /\ cur # <<>> /\ Len(hist) < MaxPre /\ NoEmptyName(cur)
            /\ hist' = Append(hist, [set |-> -1, ins |-> cur])
            /\ cur' = <<>>
            /\ d' = DecBegin(d)
\* at most one setting between two blocks (h2 applies one SETTINGS at a time)
Setting(n) == /\ cur = <<>> /\ Len(hist) < MaxPre /\ n # d.allowed
              /\ (IF hist = <<>> THEN TRUE ELSE hist[Len(hist)].set < 0)
              /\ d' = DecSetting(d, n)
              /\ hist' = Append(hist, [set |-> n, ins |-> <<>>])
              /\ UNCHANGED cur
Next == (\E x \in Alphabet : Feed(x)) \/ EndBlock \/ (\E n \in Settings : Setting(n))
Spec == Init /\ [][Next]_vars

\* everything the decoder's future behaviour depends on (the history is only carried for export)
View == <<d.t, d.allowed, d.seen, d.err, Len(cur), Len(hist) = MaxPre,
          hist # <<>> /\ hist[Len(hist)].set >= 0>>

\* one case per explored edge
Export == (Len(cur') > Len(cur)) => PrintT(ToJson([pre |-> hist', ins |-> cur', exp |-> d'.err]))

\* the contract's own invariants on this graph
Inv == /\ TableOK(d.t)
       /\ d.err \in ErrClasses \cup {""}
       /\ d.t.max <= Init0
=============================================================================
