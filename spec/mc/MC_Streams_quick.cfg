SPECIFICATION MCSpec
VIEW View
CONSTANTS
  Streams = {1, 3}
  NTomb = 1
  MaxConc = 1
  ResetMax = 1
  PendingAcceptResetMax = 1
  ErrorResetMax = 1
  NPeer = 2
  NAppX = 1
  NTick = 1
  NIdle = 0
  AllowEof = TRUE
  AllowBlock = FALSE
  ExportLen = 0
  SimDrops = FALSE
  C18Extra = 0
INVARIANT InvAssert
INVARIANT InvStructure
INVARIANT InvBounded
INVARIANT InvKept
INVARIANT InvCountersWeak
INVARIANT InvCountersAlive
INVARIANT InvIdleCounters
INVARIANT InvOrphanKind
INVARIANT InvIdle
INVARIANT InvDropped
INVARIANT InvC05
INVARIANT InvC18
INVARIANT InvC18strayKinds
CHECK_DEADLOCK FALSE
