SPECIFICATION MCSpec
CONSTANTS
  Role = "s"
  Parents = {1}
  NPush = 3
  InitMaxSend = 1
  InitMaxRecv = 1000
  ResetMax = 1
  ErrorResetMax = 2
  LazyClient = FALSE
  OldPushBugs = FALSE
  OldIdleCheck = FALSE
  NPeer = 6
  NAppX = 4
  NTick = 1
  NIdle = 3
  PeerKinds = {"rst", "wu", "headers", "data", "settings", "nopush", "goaway"}
  LimitVals = {0, 1, 2}
  AllowNoPush = TRUE
  AllowEof = TRUE
  AllowGoAway = TRUE
  AllowMalformedPush = FALSE
  AllowBlock = TRUE
  ExportLen = 24
  HasFiller = TRUE
  SimDrops = TRUE
ACTION_CONSTRAINT StepsOk
CONSTRAINT ExportStop
INVARIANT ExportInv
INVARIANT InvStructure
CHECK_DEADLOCK FALSE
