----------------------------- MODULE MC_HuffGen -----------------------------
(***************************************************************************)
(* TLC as test generator for the primitive types of RFC 7541 section 5     *)
(* (property C11): checks the structural facts Huffman.tla relies on and    *)
(* writes                                                                  *)
(*   HUFF_CASES  byte strings for the real Huffman decoder (every code,     *)
(*               every code with each legal / illegal padding, truncated    *)
(*               codes, EOS inside a string, all 2-symbol sequences over an *)
(*               alphabet with one symbol of every code length 5..30)       *)
(*   HENC_CASES  octet strings for the real Huffman encoder                 *)
(*   INT_CASES   prefix integers: prefixes 4..7 x octet classes, <= 6 octets *)
(*   TRIE        the decoder automaton as data (decision table)             *)
(* The expected results are NOT exported: Trace_Hpack.tla recomputes them   *)
(* with Huffman!Decode / DecodeInt on what the harness recorded.            *)
(***************************************************************************)
EXTENDS Huffman, TLC, Json, IOUtils, SequencesExt

VARIABLE done

\* one symbol of every code length (the smallest)
Lens == {LenOf(s) : s \in 0..255}
Alphabet == {CHOOSE s \in 0..255 : LenOf(s) = l /\ \A t \in 0..255 : LenOf(t) = l => s <= t : l \in Lens}

PadTo8(bits, fill) == bits \o [k \in 1..((8 - (Len(bits) % 8)) % 8) |-> fill]
EosBits == Ones(30)
\* variants of one bit string
Variants(bits) ==
    { Pack(PadTo8(bits, 1)),                                   \* legal padding
      Pack(PadTo8(bits, 0)),                                   \* zero padding
      Pack(PadTo8(bits, 1) \o Ones(8)),                        \* a full octet of padding more
      Pack(PadTo8(bits \o <<0>>, 1)),                          \* one stray bit
      Pack(PadTo8(bits \o <<1>>, 1)),
      Pack(PadTo8(bits \o EosBits, 1)),                        \* EOS at the end
      Pack(PadTo8(SubSeq(bits, 1, Len(bits) - 1), 1)),         \* truncated code
      Pack(PadTo8(SubSeq(bits, 1, Len(bits) - 1), 0)) }
    \cup (IF Len(PadTo8(bits, 1)) > Len(bits)                  \* legal length, last padding bit flipped
          THEN {Pack(SubSeq(PadTo8(bits, 1), 1, Len(PadTo8(bits, 1)) - 1) \o <<0>>)} ELSE {})

HuffCases ==
    UNION {Variants(SymBits(s)) : s \in 0..255}
    \cup UNION {Variants(SymBits(a) \o SymBits(b)) : a \in Alphabet, b \in Alphabet}
    \cup {Pack(PadTo8(SymBits(a) \o EosBits \o SymBits(b), 1)) : a \in Alphabet, b \in Alphabet}   \* EOS inside
    \cup {Pack(PadTo8(SymBits(a) \o SymBits(b) \o SymBits(c), 1)) : a \in {48, 97, 0}, b \in Alphabet, c \in {101, 255, 10}}

HencCases ==
    {<<s>> : s \in 0..255} \cup {<<a, b>> : a \in Alphabet, b \in Alphabet}
    \cup {<<a, b, a>> : a \in Alphabet, b \in {48, 255}}
    \cup {<<>>}

\* prefix integers
Hi == {128, 129, 255}
HiSeqs == UNION {[1..k -> Hi] : k \in 0..4}
Lo(n) == {0, 1, Pow2[n] - 2, Pow2[n] - 1, 127}
IntSeqs(n) ==
    {<<p>> : p \in {0, 1, Pow2[n] - 2}}
    \cup {<<Pow2[n] - 1>> \o c \o t : c \in HiSeqs, t \in {<<>>} \cup {<<x>> : x \in Lo(n)}}
Kinds == {<<"size", 5>>, <<"idx", 7>>, <<"strlen", 7>>, <<"incrname", 6>>, <<"noidxname", 4>>, <<"nevername", 4>>}
IntCases == UNION {{[kind |-> kd[1], b |-> b] : b \in IntSeqs(kd[2])} : kd \in Kinds}

ASSUME AllOK
ASSUME Cardinality(Alphabet) = Cardinality(Lens)

Init == /\ done = FALSE
Next == /\ ~done
        /\ done' = TRUE
        /\ ndJsonSerialize(IOEnv.HUFF_CASES, SetToSeq({[b |-> x] : x \in HuffCases}))
        /\ ndJsonSerialize(IOEnv.HENC_CASES, SetToSeq({[s |-> x] : x \in HencCases}))
        /\ ndJsonSerialize(IOEnv.INT_CASES, SetToSeq(IntCases))
        /\ JsonSerialize(IOEnv.TRIE, [root |-> 1, trie |-> SetToSeq(TrieEdges), padok |-> SetToSeq(PadOkKeys)])
        /\ PrintT(<<"GEN", Cardinality(HuffCases), Cardinality(HencCases), Cardinality(IntCases), Cardinality(TrieEdges)>>)
Spec == Init /\ [][Next]_done
=============================================================================
