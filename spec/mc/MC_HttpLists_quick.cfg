SPECIFICATION Spec
CONSTANTS
  MaxLen = 4
  FullLen = 2
INVARIANT GrammarAgrees
INVARIANT Exclusive
INVARIANT Anatomy
INVARIANT Export
CHECK_DEADLOCK FALSE
