SPECIFICATION MCSpec
VIEW View
CONSTANTS
  Streams = {1, 3}
  Pushed = {}
  Remote = {}
  InitWin = 1
  ConnWin = 2
  RecvWin = 4
  MaxBuf = 4
  MaxSend0 = 1
  NCall = 3
  NApp = 2
  NPeer = 2
  MaxData = 1
  CallKinds = {"poll_capacity", "poll_reset", "poll_ready"}
  AppKinds = {"request", "request_keep", "send_data", "send_reset", "drop_send", "drop_recv"}
  PeerKinds = {"SET_MAXC", "HEADERS", "RST"}
  IwsVals = {}
  MaxcVals = {2}
  ReqEos = {FALSE, TRUE}
  Allow = {"shared_slot"}
  ExportLen = 0
\* F-T1 (S): SendRequest::poll_ready waits in the send_task slot of its pending stream, the slot the stream's own SendStream
\* uses for poll_capacity / poll_reset: the later caller overwrites the earlier one's waker (InvC08, 4 steps) and the earlier one is never woken (InvC06)
INVARIANT InvC06
CHECK_DEADLOCK FALSE
