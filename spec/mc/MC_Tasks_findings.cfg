SPECIFICATION MCSpec
VIEW View
CONSTANTS
  Streams = {1, 3}
  Pushed = {}
  Remote = {}
  InitWin = 1
  ConnWin = 2
  RecvWin = 4
  MaxBuf = 4
  MaxSend0 = 1
  NCall = 3
  NApp = 2
  NPeer = 2
  MaxData = 1
  CallKinds = {"poll_capacity", "poll_reset", "poll_ready"}
  AppKinds = {"request", "request_keep", "send_data", "send_reset", "drop_send", "drop_recv"}
  PeerKinds = {"SET_MAXC", "HEADERS", "RST", "EOF"}
  IwsVals = {}
  MaxcVals = {2}
  ReqEos = {FALSE, TRUE}
  Allow = {"shared_slot", "reset_after_end", "push_after_recv_drop"}
  ExportLen = 0
\* keep ONE of the following at a time (TLC stops at the first violated invariant):
\*   InvC08  (S)  F-T1: the poll_ready waiter's waker is overwritten by the pending stream's own SendStream (shared send_task)
\*   InvC06  (S)  F-T1: ... and the wake-up is then lost: poll_ready stays parked although the stream was opened
\*   InvC07  (S)  F-T2: poll_reset on a stream that ended cleanly is still parked after the connection ended
INVARIANT InvC06
CHECK_DEADLOCK FALSE
