SPECIFICATION MCSpec
VIEW View
CONSTANTS
  Streams = {1, 3}
  MaxBuf = 4
  MaxWin = 8
  IW = 2
  CW = 3
  MF = 2
  SendSizes = {3}
  WUs = {2}
  SetVals = {0, 3}
  ResSizes = {2}
  NSend = 1
  NWU = 1
  NSet = 1
  NRes = 1
  NRst = 1
  ExportLen = 0
INVARIANT WireContract
INVARIANT ApiContract
INVARIANT InvConservation
INVARIANT InvAvail
INVARIANT InvAssert
INVARIANT InvSchedule
INVARIANT CensusInv
CHECK_DEADLOCK FALSE
