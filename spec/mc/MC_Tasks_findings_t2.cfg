SPECIFICATION MCSpec
VIEW View
CONSTANTS
  Streams = {1}
  Pushed = {}
  Remote = {}
  InitWin = 1
  ConnWin = 2
  RecvWin = 4
  MaxBuf = 4
  MaxSend0 = 1
  NCall = 2
  NApp = 1
  NPeer = 3
  MaxData = 1
  CallKinds = {"poll_reset"}
  AppKinds = {"request", "drop_recv"}
  PeerKinds = {"HEADERS", "EOF"}
  IwsVals = {}
  MaxcVals = {}
  ReqEos = {TRUE}
  Allow = {"reset_after_end"}
  ExportLen = 0
\* F-T2 (S): poll_reset on a stream that ended without a reset is still parked after the connection ended
INVARIANT InvC07strict
CHECK_DEADLOCK FALSE
