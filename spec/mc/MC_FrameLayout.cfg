SPECIFICATION Spec
INVARIANT InvRoundTrip
INVARIANT InvWellFormed
INVARIANT InvLogical
INVARIANT InvIgnorable
POSTCONDITION Post
CHECK_DEADLOCK FALSE
