SPECIFICATION MCSpec
CONSTANTS
  Streams = {1, 3, 5}
  NTomb = 2
  MaxConc = 1
  ResetMax = 1
  PendingAcceptResetMax = 1
  ErrorResetMax = 1
  NPeer = 7
  NAppX = 4
  NTick = 2
  NIdle = 6
  AllowEof = FALSE
  AllowBlock = TRUE
  ExportLen = 26
  SimDrops = TRUE
  C18Extra = 0
ACTION_CONSTRAINT Drained
ACTION_CONSTRAINT LateEnd
ACTION_CONSTRAINT WriteBlocked
CONSTRAINT ExportStop
INVARIANT ExportInv
INVARIANT InvAssert
INVARIANT InvStructure
CHECK_DEADLOCK FALSE
