------------------------------ MODULE MC_Hpack ------------------------------
(***************************************************************************)
(* Bounded configuration of HpackSys (property C10, contract side):        *)
(* a nondeterministic RFC 7541 encoder against the decoder, table limits of *)
(* 0 / 1 / 2 entries, names from the static table and custom ones, a        *)
(* sensitive value.  Also exports header-list histories: one per explored   *)
(* edge (VIEW ignores the history, so TLC keeps the shortest history of     *)
(* every distinct state).                                                   *)
(***************************************************************************)
EXTENDS HpackSys, Json

F(n, nl, v, vl, s) == [n |-> n, nl |-> nl, v |-> v, vl |-> vl, s |-> s]
MCFields == { F("qaaa", 4, "1", 1, FALSE),      \* 37 octets
              F("qaaa", 4, "22", 2, FALSE),     \* 38
              F("qaab", 4, "1", 1, FALSE),      \* 37
              F("qaab", 4, "1", 1, TRUE),       \* sensitive
              F(":method", 7, "GET", 3, FALSE), \* fully in the static table
              F("accept", 6, "x", 1, FALSE) }   \* 39, name in the static table
MCSizes == {0, 40, 80}

\* print the history when a block is closed (one line per explored End edge)
Export == (inblk /\ ~inblk') => PrintT(ToJson(hist'))
=============================================================================
