SPECIFICATION MCSpec
VIEW View
CONSTANTS
  Streams = {1, 3}
  Pushed = {}
  Remote = {}
  InitWin = 1
  ConnWin = 2
  RecvWin = 4
  MaxBuf = 4
  MaxSend0 = 1
  NCall = 4
  NApp = 2
  NPeer = 4
  MaxData = 2
  CallKinds = {"poll_response", "poll_data", "poll_trailers"}
  AppKinds = {"request", "release", "drop_recv", "drop_send"}
  PeerKinds = {"HEADERS", "DATA", "TRAILERS", "RST", "EOF"}
  IwsVals = {}
  MaxcVals = {}
  ReqEos = {TRUE}
  Allow = {"shared_slot", "push_after_recv_drop", "cancel_pending_open"}
  ExportLen = 0
INVARIANT InvC06
INVARIANT InvC06conn
INVARIANT InvConnRegistered
INVARIANT InvSchedule
INVARIANT InvC07
INVARIANT InvC08
INVARIANT InvC08fresh
INVARIANT InvStructure
CHECK_DEADLOCK FALSE
