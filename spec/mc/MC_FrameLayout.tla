--------------------------- MODULE MC_FrameLayout ---------------------------
(***************************************************************************)
(* Bounded enumeration of abstract wire frames for property C12.           *)
(* TLC visits one state per reference vector (a sequence of 1..3 frames    *)
(* forming one logical item), checks the model-level round trip            *)
(* Parse(SerializeFrame(f)) = f on each, and exports the vectors as ndjson      *)
(* (abstract frames + reference octets) for replay into the real h2 Codec. *)
(*                                                                         *)
(* Classes: all ten types (+ an unknown extension type), every defined     *)
(* flag combination, padding {none, 0, 1, 255}, priority block {absent,    *)
(* min, max}, payload sizes {0, 1, small}, 31/32-bit field boundary values,*)
(* reserved bits and undefined flags {clear, all set}, header blocks split *)
(* over 0, 1, 2 CONTINUATION frames at every cut (including empty pieces). *)
(***************************************************************************)
EXTENDS FrameLayout, TLC, Json, IOUtils, SequencesExt

FF4 == <<255, 255, 255, 255>>
Max31 == <<127, 255, 255, 255>>
One == <<0, 0, 0, 1>>
Sids == {One, Max31}
U32s == {Z4, One, <<0, 0, 1, 0>>, Max31, <<128, 0, 0, 0>>, FF4}
Pads == {-1, 0, 1, 255}
Bodies == {<<>>, <<7>>, <<1, 2, 3, 4, 5>>}
\* (reserved bit, undefined flags): all clear / all set
RU(t) == {<<0, 0>>, <<1, 255 - DefinedFlags(t)>>}

\* header blocks: empty; :method GET; GET http /; :status 200 + accept-encoding; GET + literal "a: b"
B0 == <<>>
B1 == <<130>>
B3 == <<130, 134, 132>>
BS == <<136, 144>>
BL == <<130, 0, 1, 97, 1, 98>>
Blocks == {B0, B1, B3, BS, BL}
Prios == {<<>>, <<0, Z4, 0>>, <<1, <<127, 255, 255, 254>>, 255>>}

DataV == { << [type |-> "DATA", r |-> ru[1], sid |-> s, uf |-> ru[2], es |-> es, pad |-> p, data |-> d] >> :
             ru \in RU("DATA"), s \in Sids, es \in BOOLEAN, p \in Pads, d \in Bodies }

HeadersF(ru, s, es, eh, p, pr, fr) ==
    [type |-> "HEADERS", r |-> ru[1], sid |-> s, uf |-> ru[2], es |-> es, eh |-> eh, pad |-> p, prio |-> pr, frag |-> fr]
PushF(ru, s, eh, p, prb, prom, fr) ==
    [type |-> "PUSH_PROMISE", r |-> ru[1], sid |-> s, uf |-> ru[2], eh |-> eh, pad |-> p, pr |-> prb, promised |-> prom, frag |-> fr]
ContF(ru, s, eh, fr) == [type |-> "CONTINUATION", r |-> ru[1], sid |-> s, uf |-> ru[2], eh |-> eh, frag |-> fr]

HeadersV == { << HeadersF(ru, s, es, TRUE, p, pr, fr) >> :
                ru \in RU("HEADERS"), s \in Sids, es \in BOOLEAN, p \in Pads, pr \in Prios, fr \in Blocks }

PushV == { << PushF(ru, s, TRUE, p, prb, prom, fr) >> :
             ru \in RU("PUSH_PROMISE"), s \in Sids, p \in Pads, prb \in {0, 1}, prom \in {<<0, 0, 0, 2>>, <<127, 255, 255, 254>>},
             fr \in Blocks }

\* cut a block into Len(cuts)+1 pieces at non-decreasing positions (pieces may be empty)
CutSeqs(n) == { <<c>> : c \in 0..n } \cup { c \in (0..n) \X (0..n) : c[1] <= c[2] }
Piece(b, cuts, i) == SubSeq(b, (IF i = 1 THEN 0 ELSE cuts[i - 1]) + 1, IF i = Len(cuts) + 1 THEN Len(b) ELSE cuts[i])
Conts(ruc, s, b, cuts) == [i \in 1..Len(cuts) |-> ContF(ruc, s, i = Len(cuts), Piece(b, cuts, i + 1))]

HeadersContV ==
    { << HeadersF(ru, One, es, FALSE, p, pr, Piece(B3, cuts, 1)) >> \o Conts(RUc, One, B3, cuts) :
        ru \in RU("HEADERS"), RUc \in RU("CONTINUATION"), es \in BOOLEAN, p \in {-1, 1}, pr \in {<<>>, <<1, Max31, 255>>},
        cuts \in CutSeqs(Len(B3)) }
    \cup
    { << HeadersF(<<0, 0>>, Max31, es, FALSE, -1, <<>>, Piece(BL, cuts, 1)) >> \o Conts(<<0, 0>>, Max31, BL, cuts) :
        es \in BOOLEAN, cuts \in CutSeqs(Len(BL)) }

PushContV ==
    { << PushF(ru, One, FALSE, p, 0, <<0, 0, 0, 2>>, Piece(B3, cuts, 1)) >> \o Conts(ru, One, B3, cuts) :
        ru \in {<<0, 0>>}, p \in {-1, 0, 255}, cuts \in CutSeqs(Len(B3)) }
    \cup
    { << PushF(<<0, 0>>, One, FALSE, -1, 1, <<127, 255, 255, 254>>, Piece(BL, cuts, 1)) >> \o Conts(<<0, 0>>, One, BL, cuts) :
        cuts \in CutSeqs(Len(BL)) }

PriorityV == { << [type |-> "PRIORITY", r |-> ru[1], sid |-> s, uf |-> ru[2], excl |-> e, dep |-> d, weight |-> w] >> :
                 ru \in RU("PRIORITY"), s \in Sids, e \in {0, 1}, d \in {Z4, <<0, 0, 0, 3>>, <<127, 255, 255, 254>>}, w \in {0, 255} }

RstV == { << [type |-> "RST_STREAM", r |-> ru[1], sid |-> s, uf |-> ru[2], code |-> c] >> :
            ru \in RU("RST_STREAM"), s \in Sids, c \in U32s }

SetEntries == { <<1, Z4>>, <<1, <<0, 0, 16, 0>>>>, <<1, FF4>>, <<2, Z4>>, <<2, One>>, <<3, Z4>>, <<3, FF4>>,
                <<4, Z4>>, <<4, Max31>>, <<5, <<0, 0, 64, 0>>>>, <<5, <<0, 255, 255, 255>>>>, <<6, Z4>>, <<6, FF4>>,
                <<0, FF4>>, <<7, FF4>>, <<65535, FF4>> }
FullSettings == << <<1, <<0, 0, 16, 0>>>>, <<2, Z4>>, <<3, <<0, 0, 0, 100>>>>, <<4, <<0, 0, 255, 255>>>>,
                   <<5, <<0, 0, 64, 1>>>>, <<6, <<0, 1, 0, 0>>>> >>
SettingsF(ru, ack, ps) == [type |-> "SETTINGS", r |-> ru[1], sid |-> Z4, uf |-> ru[2], ack |-> ack, params |-> ps]
SettingsV ==
    { << SettingsF(ru, TRUE, <<>>) >> : ru \in RU("SETTINGS") } \cup
    { << SettingsF(ru, FALSE, ps) >> : ru \in RU("SETTINGS"),
        ps \in {<<>>, FullSettings, FullSettings \o << <<8, One>> >>, << <<8, Z4>> >>}
               \cup { <<e>> : e \in SetEntries } \cup (SetEntries \X SetEntries) }

PingV == { << [type |-> "PING", r |-> ru[1], sid |-> Z4, uf |-> ru[2], ack |-> a, opaque |-> o] >> :
             ru \in RU("PING"), a \in BOOLEAN, o \in {Zeros(8), <<1, 2, 3, 4, 5, 6, 7, 8>>, [i \in 1..8 |-> 255]} }

GoAwayV == { << [type |-> "GOAWAY", r |-> ru[1], sid |-> Z4, uf |-> ru[2], lr |-> lr, last |-> l, code |-> c, debug |-> d] >> :
               ru \in RU("GOAWAY"), lr \in {0, 1}, l \in {Z4, One, Max31}, c \in U32s, d \in Bodies }

WindowV == { << [type |-> "WINDOW_UPDATE", r |-> ru[1], sid |-> s, uf |-> ru[2], wr |-> wr, incr |-> i] >> :
               ru \in RU("WINDOW_UPDATE"), s \in {Z4, One, Max31}, wr \in {0, 1}, i \in {One, Max31} }

ExtV == { << [type |-> "EXT", tno |-> t, r |-> r, sid |-> s, uf |-> fl, payload |-> p] >> :
            t \in {10, 255}, r \in {0, 1}, s \in {Z4, One}, fl \in {0, 255}, p \in Bodies }

Vectors == DataV \cup HeadersV \cup HeadersContV \cup PushV \cup PushContV \cup PriorityV \cup RstV \cup SettingsV
           \cup PingV \cup GoAwayV \cup WindowV \cup ExtV

(***************************************************************************)
(* Which vectors can be *built* through h2's Codec API (Sink side).  h2    *)
(* offers no way to emit padding, priority information, PRIORITY frames,   *)
(* reserved bits, undefined flags, repeated/unknown SETTINGS or explicit   *)
(* CONTINUATION frames; those classes are exercised on the Stream (read)   *)
(* side only.  `exact`: the octets are fully determined by the abstract    *)
(* frame (no HPACK encoder freedom).                                       *)
(***************************************************************************)
Ascending(ps) == \A i \in 1..(Len(ps) - 1) : ps[i][1] < ps[i + 1][1]
Buildable1(f) ==
    /\ f.type # "EXT" /\ f.r = 0 /\ f.uf = 0
    /\ CASE f.type = "DATA" -> f.pad = -1
         [] f.type = "HEADERS" -> f.pad = -1 /\ f.prio = <<>> /\ f.eh /\ DecodeFields(f.frag)[1] = "ok"
         [] f.type = "PUSH_PROMISE" -> f.pad = -1 /\ f.pr = 0 /\ f.eh /\ DecodeFields(f.frag)[1] = "ok"
         [] f.type = "SETTINGS" -> f.ack \/ (Ascending(f.params) /\ \A i \in 1..Len(f.params) : f.params[i][1] \in {1, 2, 3, 4, 5, 6, 8})
         [] f.type = "GOAWAY" -> f.lr = 0
         [] f.type = "WINDOW_UPDATE" -> f.wr = 0
         [] f.type \in {"PRIORITY", "CONTINUATION"} -> FALSE
         [] OTHER -> TRUE
Buildable(v) == Len(v) = 1 /\ Buildable1(v[1])
Exact(v) == v[1].type \notin {"HEADERS", "PUSH_PROMISE"}

CaseOf(v) == [frames |-> v, bytes |-> SerializeAll(v), buildable |-> Buildable(v), exact |-> Exact(v)]

VARIABLE v
Init == v \in Vectors
Next == UNCHANGED v
Spec == Init /\ [][Next]_v

\* model-level properties, checked on every vector
InvRoundTrip == RoundTripSeq(v)
InvWellFormed == \A i \in 1..Len(v) : WellFormed(v[i]) /\ LenFieldOk(v[i])
InvLogical == LET l == Logical(v) IN
              /\ Len(l) = (IF v[1].type = "EXT" THEN 0 ELSE 1)
              /\ \A i \in 1..Len(l) : ~IsErr(l[i])
              /\ \A i \in 1..Len(l) : l[i].type \in {"HEADERS", "PUSH_PROMISE"} => DecodeFields(l[i].block)[1] = "ok"
\* reserved bits / undefined flags / padding never change the logical content
InvIgnorable == LET strip(f) == IF f.type = "EXT" THEN f ELSE [f EXCEPT !.r = 0, !.uf = 0] IN
                Logical([i \in 1..Len(v) |-> strip(v[i])]) = Logical(v)

Export == ndJsonSerialize(IOEnv.OUT, SetToSeq({CaseOf(x) : x \in Vectors}))
Post == /\ TLCGet("stats").distinct = Cardinality(Vectors)
        /\ Export
=============================================================================
