SPECIFICATION MCSpec
VIEW View
CONSTANTS
  Role = "s"
  Parents = {1}
  NPush = 2
  InitMaxSend = 1
  InitMaxRecv = 1000
  ResetMax = 1
  ErrorResetMax = 1
  LazyClient = FALSE
  OldPushBugs = FALSE
  OldIdleCheck = FALSE
  NPeer = 2
  NAppX = 1
  NTick = 0
  NIdle = 0
  PeerKinds = {"rst", "wu", "headers", "data", "settings", "nopush", "goaway"}
  LimitVals = {0, 1}
  AllowNoPush = TRUE
  AllowEof = FALSE
  AllowGoAway = TRUE
  AllowMalformedPush = FALSE
  AllowBlock = FALSE
  ExportLen = 0
  HasFiller = FALSE
  SimDrops = TRUE
INVARIANT InvAssertKnown
INVARIANT InvStructure
INVARIANT InvKept
INVARIANT InvBounded
INVARIANT InvCounters
INVARIANT InvC04
INVARIANT InvC05
INVARIANT InvC09
INVARIANT InvC09known
INVARIANT InvIdle
INVARIANT InvDropped
INVARIANT InvC18
INVARIANT InvC18bound
CHECK_DEADLOCK FALSE
