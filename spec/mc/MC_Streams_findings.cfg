SPECIFICATION MCSpec
VIEW View
CONSTANTS
  Streams = {1, 3}
  NTomb = 1
  MaxConc = 1
  ResetMax = 1
  PendingAcceptResetMax = 1
  ErrorResetMax = 1
  NPeer = 2
  NAppX = 1
  NTick = 1
  NIdle = 0
  AllowEof = TRUE
  AllowBlock = FALSE
  ExportLen = 0
  SimDrops = FALSE
  C18Extra = 0
INVARIANT InvCounters
INVARIANT InvIdleCounters
INVARIANT InvNoOrphan
INVARIANT InvC18strays
CHECK_DEADLOCK FALSE
INVARIANT InvResetMemoryLinked
INVARIANT InvC18notReached
