\* The behaviour BEFORE the repairs of P1 / P2 / P3 (OldPushBugs = TRUE): pop_frame's unwrap panic, frames on a still-queued promise accepted.
SPECIFICATION MCSpec
VIEW View
CONSTANTS
  Role = "s"
  Parents = {1}
  NPush = 2
  InitMaxSend = 1
  InitMaxRecv = 1000
  ResetMax = 1
  ErrorResetMax = 1
  LazyClient = FALSE
  OldPushBugs = TRUE
  OldIdleCheck = FALSE
  NPeer = 2
  NAppX = 1
  NTick = 1
  NIdle = 0
  PeerKinds = {"rst", "wu", "headers", "data", "settings", "nopush", "goaway"}
  LimitVals = {0, 1}
  AllowNoPush = TRUE
  AllowEof = FALSE
  AllowGoAway = TRUE
  AllowMalformedPush = FALSE
  AllowBlock = FALSE
  ExportLen = 0
  HasFiller = FALSE
  SimDrops = TRUE
CHECK_DEADLOCK FALSE
INVARIANT InvAssert
INVARIANT InvC09strict
