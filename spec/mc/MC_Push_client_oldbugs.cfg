\* The behaviour BEFORE the repair of P6 (OldPushBugs = TRUE): assert!(can_inc_num_recv_streams()) fires.
SPECIFICATION MCSpec
VIEW View
CONSTANTS
  Role = "c"
  Parents = {1}
  NPush = 2
  InitMaxSend = 1000
  InitMaxRecv = 1
  ResetMax = 1
  ErrorResetMax = 2
  LazyClient = FALSE
  OldPushBugs = TRUE
  OldIdleCheck = FALSE
  NPeer = 4
  NAppX = 2
  NTick = 1
  NIdle = 0
  PeerKinds = {"pp", "resp", "data", "rst", "wu"}
  LimitVals = {}
  AllowNoPush = FALSE
  AllowEof = FALSE
  AllowGoAway = FALSE
  AllowMalformedPush = FALSE
  AllowBlock = FALSE
  ExportLen = 0
  HasFiller = FALSE
  SimDrops = FALSE
CHECK_DEADLOCK FALSE
INVARIANT InvAssert
