SPECIFICATION MCSpec
VIEW View
CONSTANTS
  Streams = {}
  Pushed = {}
  Remote = {1}
  InitWin = 1
  ConnWin = 2
  RecvWin = 4
  MaxBuf = 4
  MaxSend0 = 1
  NCall = 3
  NApp = 3
  NPeer = 3
  MaxData = 1
  CallKinds = {"poll_capacity", "poll_reset", "poll_data"}
  AppKinds = {"accept", "send_response", "reserve", "send_data", "send_reset", "release", "drop_send", "drop_recv"}
  PeerKinds = {"REQ", "WU", "DATA", "RST", "EOF"}
  IwsVals = {}
  MaxcVals = {}
  ReqEos = {FALSE}
  Allow = {"shared_slot", "push_after_recv_drop", "cancel_pending_open"}
  ExportLen = 0
INVARIANT InvC06
INVARIANT InvC06conn
INVARIANT InvConnRegistered
INVARIANT InvSchedule
INVARIANT InvC07
INVARIANT InvC08
INVARIANT InvC08fresh
INVARIANT InvStructure
CHECK_DEADLOCK FALSE
