SPECIFICATION Spec
CONSTANTS
  NameHash <- HashB
  Headers <- HeadersBq
  Values = {1, 2}
  SensNames = {1}
  Sizes = {0, 300}
  InitMax = 300
  EntryLen = 37
  MaxOps = 30
VIEW View
INVARIANT IndexInv
INVARIANT LookupInv
CONSTRAINT HistBound
ACTION_CONSTRAINT EdgeOK
ACTION_CONSTRAINT ExportBq
CHECK_DEADLOCK FALSE
