SPECIFICATION MCSpec
CONSTANTS
  Streams = {1, 3}
  IW = 1530
  CW = 65535
  DataSizes = {0, 255, 510, 1530}
  Pads = {0, 1, 255}
  RelSizes = {255, 510, 765}
  Targets = {60000, 70000}
  SetVals = {255, 765, 2040}
  NData = 6
  NRel = 5
  NDrop = 1
  NRst = 1
  NTarget = 2
  NSet = 2
  ExportLen = 16
ACTION_CONSTRAINT Drained
CONSTRAINT ExportStop
INVARIANT ExportInv
INVARIANT WireContract
INVARIANT InvAssert
CHECK_DEADLOCK FALSE
