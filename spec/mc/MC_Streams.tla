------------------------------ MODULE MC_Streams ------------------------------
(* Bounded configurations of the stream-store implementation model (H2Streams).
   The peer is arbitrary (hostile): any HEADERS / malformed HEADERS / DATA / RST_STREAM on any id of Streams
   in any state; the application accepts whenever it likes, answers, sends data, resets and drops its
   handles in any order; the connection task writes (or not: a blocked socket) at any time; time passes.
   Frames that cannot create a new stream are budgeted (NPeer), application calls that could repeat are
   budgeted (NAppX), time steps are budgeted (NTick).
   Export mode (ExportLen > 0): TLC -simulate prints behaviours under schedules the simulator can
   reproduce (one non-connection step per quiescence, the connection task drains after each - except between
   "block" and "unblock", when the server's socket takes no bytes and nothing is popped from pending_send).
   Configurations: MC_Streams_quick / _thorough / _thorough3 (exhaustive, the invariants marked (G)),
   MC_Streams_findings (the strict invariants (S) the code violates), MC_Streams_export / _export_b (simulation,
   bin/conform_streams.py).  notes/streams_model.md has the numbers and the findings. *)
EXTENDS H2Streams, Json

CONSTANTS NPeer,           \* budget of peer frames that do not open a new stream (HEADERS on a used id, malformed HEADERS, DATA, RST_STREAM)
          NAppX,           \* budget of send_data / send_reset calls
          NTick, NIdle,
          AllowEof,        \* the peer may close the transport
          AllowBlock,      \* export: the server's socket may stop accepting bytes for a while (the codec is full: nothing is written)
          ExportLen,       \* 0: no history variable; > 0: record the history, export behaviours of about this many steps
          SimDrops,        \* TRUE: handles are dropped the way the simulator's tasks do (SendStream + SendResponse back to back)
          C18Extra         \* number of "stray" records tolerated by the strict invariant InvC18strays

VARIABLES bud, hist,
          wb       \* export schedules: "free" | "blocked" (codec full, socket blocked) | "done" (was blocked once)
mvars == <<svars, bud, hist, wb>>

MCInit ==
    /\ Init0
    /\ bud = [peer |-> NPeer, appx |-> NAppX, tick |-> NTick, idle |-> NIdle]
    /\ hist = <<>> /\ wb = "free"

Use(k) == bud[k] > 0 /\ bud' = [bud EXCEPT ![k] = bud[k] - 1]
UseIf(c, k) == IF c THEN Use(k) ELSE UNCHANGED bud
Export == ExportLen > 0

\* ---- projection compared with the statistics snapshot of the real library ----
StreamProj(s) ==
    LET k == LinkedKey(Cur, s) IN
    IF k = NoKey THEN [linked |-> FALSE]
    ELSE [linked |-> TRUE, slot |-> k[2], st |-> rec[k].state, is_counted |-> rec[k].isCounted,
          is_pending_accept |-> rec[k].isPendingAccept, is_pending_send |-> rec[k].isPendingSend,
          ref_count |-> rec[k].refCount, reset_at |-> rec[k].resetAt, pending_send_empty |-> rec[k].pendingSend = <<>>]
Proj == [store_len |-> StoreLen, slab_len |-> SlabLen,
         num_recv_streams |-> cn.numRecv, num_local_reset_streams |-> cn.numLocalReset,
         num_remote_reset_streams |-> cn.numRemoteReset, num_local_error_reset_streams |-> cn.numLocalErrorReset,
         refused |-> cn.refused # 0, last_processed_id |-> cn.lastProcessedId,
         ended |-> cn.connErr, goaway |-> cn.goAway,
         streams |-> [s \in Streams |-> StreamProj(s)]]
H(x) == /\ hist' = IF Export THEN Append(hist, [a |-> x, ev |-> evs', p |-> Proj']) ELSE hist
        /\ wb' = IF x[1] = "block" THEN "blocked" ELSE IF x[1] = "unblock" THEN "done" ELSE wb

ConnStep(A, x) == A /\ H(x) /\ UNCHANGED <<app, bud>>

MCNext ==
    \* ---- the peer ----
    \/ \E s \in Streams, e \in BOOLEAN :
          /\ UseIf(s < cn.nextId, "peer") /\ RecvHeaders(s, e) /\ UNCHANGED app /\ H(<<"recv_headers", s, e>>)
    \/ \E s \in Streams : Use("peer") /\ RecvMalformedHeaders(s) /\ UNCHANGED app /\ H(<<"recv_bad_headers", s>>)
    \/ \E s \in Streams, e \in BOOLEAN : Use("peer") /\ RecvData(s, e) /\ UNCHANGED app /\ H(<<"recv_data", s, e>>)
    \/ \E s \in Streams : Use("peer") /\ RecvReset(s) /\ UNCHANGED app /\ H(<<"recv_reset", s>>)
    \/ AllowEof /\ PeerEof /\ UNCHANGED <<app, bud>> /\ H(<<"peer_eof">>)
    \* ---- the connection task ----
    \/ ConnStep(SendPendingRefusal, <<"refusal">>)
    \/ ConnStep(PopFrame, <<"pop_frame">>)
    \/ ConnStep(ClearExpiredResetStreams, <<"clear_expired">>)
    \/ ConnStep(ConnDrop, <<"conn_drop">>)
    \* ---- time ----
    \/ Use("tick") /\ Tick /\ H(<<"tick">>)
    \* ---- the application ----
    \/ Accept /\ UNCHANGED bud /\ H(<<"accept", Head(qAccept)[1]>>)
    \/ \E s \in Streams, e \in BOOLEAN : SendResponse(s, e) /\ UNCHANGED bud /\ H(<<"send_response", s, e>>)
    \/ \E s \in Streams, e \in BOOLEAN : Use("appx") /\ SendData(s, e) /\ H(<<"send_data", s, e>>)
    \/ \E s \in Streams : Use("appx") /\ SendReset(s) /\ H(<<"send_reset", s>>)
    \/ \E s \in Streams : DropHandle(s, "recv") /\ UNCHANGED bud /\ H(<<"drop_recv", s>>)
    \/ \E s \in Streams : ~SimDrops /\ DropHandle(s, "resp") /\ UNCHANGED bud /\ H(<<"drop_resp", s>>)
    \/ \E s \in Streams : ~SimDrops /\ DropHandle(s, "send") /\ UNCHANGED bud /\ H(<<"drop_sendstream", s>>)
    \/ \E s \in Streams : SimDrops /\ DropSendSide(s) /\ UNCHANGED bud /\ H(<<"drop_send", s>>)
    \* ---- the server's socket blocks / unblocks (export only; in model checking the writing steps are simply not taken) ----
    \/ AllowBlock /\ wb = "free" /\ ConnAlive /\ cn.refused = 0 /\ qSend = <<>> /\ evs' = <<>>
          /\ UNCHANGED <<rec, cn, qAccept, qSend, qReset, app, okS, bud>> /\ H(<<"block">>)
    \/ wb = "blocked" /\ evs' = <<>> /\ UNCHANGED <<rec, cn, qAccept, qSend, qReset, app, okS, bud>> /\ H(<<"unblock">>)
    \* ---- nothing happens for one quiescence (export only: pads short behaviours, checks that nothing changes by itself) ----
    \/ Export /\ Use("idle") /\ evs' = <<>> /\ UNCHANGED <<rec, cn, qAccept, qSend, qReset, app, okS>> /\ H(<<"idle">>)

MCSpec == MCInit /\ [][MCNext]_mvars

View == <<rec, cn, qAccept, qSend, qReset, app, okS, bud, wb>>

\* ---- invariants -------------------------------------------------------------------------------------------------------
\* (G) = guaranteed by the code as it is: checked by the quick / thorough configurations.
\* (S) = the strict form the properties C18 / C19 ask for; the code violates it - MC_Streams_findings.cfg shows the
\*       counterexamples (see notes/streams_model.md, findings).
InvAssert == NoAssert                       \* (G) no assert!/panic of the code, no store::Key resolved after its record was removed
InvStructure == Structure                   \* (G)
InvBounded == CountersBounded               \* (G) no counter exceeds its configured maximum
InvKept == KeptIffNeeded                    \* (G) C19: no record stays once Stream::is_released holds
Counted == {k \in Keys : rec[k].inSlab /\ rec[k].isCounted}
ResetQueued == {k \in Keys : rec[k].inSlab /\ rec[k].resetAt}
RemoteResetPending == {k \in Keys : rec[k].inSlab /\ rec[k].isPendingAccept /\ IsRemoteResetSt(rec[k].state)}
\* (S) the counters are the sizes of the sets they stand for
InvCounters == CountersConsistent
\* ... on a live connection (holds since the two counter fixes in /repo; after the connection ended nobody looks at the counters)
InvCountersAlive == (~cn.connErr /\ ~cn.dropped) => CountersConsistent
\* (G) ... the concurrency counter always is; the two reset counters can only be too HIGH (they leak upwards)
InvCountersWeak == /\ cn.numRecv = Cardinality(Counted)
                   /\ cn.numLocalReset >= Cardinality(ResetQueued)
                   /\ cn.numRemoteReset >= Cardinality(RemoteResetPending)
\* (S) the memory of a locally reset stream (reset_at, "ignore frames for some time") can be found through Store.ids;
\*     the code unlinks BY ID: a transition of an older record of the same id removes the newer record's entry
InvResetMemoryLinked == \A k \in Keys : rec[k].inSlab /\ rec[k].resetAt /\ IsLocalErrorSt(rec[k].state) /\ ~cn.connErr => rec[k].linked \/ rec[k].refCount > 0
\* C19: a record stays in the slab only while an application handle or an internal queue still needs it
Orphan(k) == rec[k].inSlab /\ rec[k].refCount = 0 /\ ~rec[k].isPendingAccept /\ ~rec[k].isPendingSend /\ ~rec[k].resetAt
NoOrphan == \A k \in Keys : ~Orphan(k)
InvNoOrphan == NoOrphan                     \* (S)
\* (G) the only orphans: after recv_eof, records that were not reachable through Store.ids any more (unlinked by id) and
\*     still had a frame queued - clear_pending_send pops them but their frames keep them "not closed" for ever
InvOrphanKind == \A k \in Keys : Orphan(k) => cn.connErr /\ rec[k].pendingSend # <<>> /\ ~rec[k].linked
\* C19: everything closed, every handle dropped, every frame written, reset memory expired => nothing is left
AllDone == /\ \A s \in Streams : ~app[s].recv /\ ~app[s].resp /\ ~app[s].send
           /\ qAccept = <<>> /\ qSend = <<>> /\ qReset = <<>> /\ cn.refused = 0
InvIdle == AllDone /\ ~cn.connErr => SlabLen = 0 /\ StoreLen = 0 /\ cn.numRecv = 0                 \* (G)
InvIdleCounters == AllDone /\ ~cn.connErr => cn.numLocalReset = 0 /\ cn.numRemoteReset = 0         \* (S)
\* after the connection was dropped: only records the application still holds (or has reset through a handle that
\* outlived the connection: nobody reaps pending_reset_expired any more) remain, nothing is counted
InvDropped == cn.dropped => /\ \A k \in Keys : rec[k].inSlab => rec[k].refCount > 0 \/ rec[k].resetAt \/ Orphan(k)
                            /\ StoreLen = Cardinality({k \in Keys : rec[k].linked /\ rec[k].resetAt}) /\ cn.numRecv = 0       \* (G)
\* C05: never more than MaxConc streams counted; a stream that is not closed is counted; refused streams never get
\* a request record, never reach the accept queue or the application
InvC05 == /\ cn.numRecv <= MaxConc
          /\ \A s \in Streams : rec[Main(s)].inSlab /\ ~IsClosedSt(rec[Main(s)].state) => rec[Main(s)].isCounted
          /\ \A s \in cn.refusedEver : ~rec[Main(s)].inSlab /\ app[s] = NoApp
          /\ \A i \in 1..Len(qAccept) : qAccept[i][2] = 0                                              \* (G)
\* C18: records the application does not hold.
\*  Unheld = counted (<= MaxConc) + remembered resets (<= ResetMax) + remotely reset pending-accept (<= PendingAcceptResetMax)
\*           + "strays": uncounted, not remembered, kept only by pending_accept (locally reset before the application took them)
\*             or by pending_send (a frame / a dangling entry waiting for the socket)
Unheld == {k \in Keys : rec[k].inSlab /\ rec[k].refCount = 0}
Strays == {k \in Unheld : ~rec[k].isCounted /\ ~rec[k].resetAt /\ ~(rec[k].isPendingAccept /\ IsRemoteResetSt(rec[k].state))}
InvC18 == Cardinality(Unheld \ Strays) <= MaxConc + ResetMax + PendingAcceptResetMax                  \* (G)
\* tightness witness: this one is VIOLATED (MC_Streams_findings.cfg) - the bound of InvC18 is reached
InvC18notReached == Cardinality(Unheld \ Strays) < MaxConc + ResetMax + PendingAcceptResetMax
\* (S) no strays beyond C18Extra: every record is covered by a configured limit
InvC18strays == ~cn.connErr => Cardinality(Strays) <= C18Extra
\* (G) a stray is waiting for the socket, or is a pending-accept stream the library reset (lifetime quota ErrorResetMax)
InvC18strayKinds == \A k \in Strays : rec[k].isPendingSend \/ (rec[k].isPendingAccept /\ IsLocalErrorSt(rec[k].state)) \/ Orphan(k)

\* ---- export for replay ----------------------------------------------------------------------------------------------------
ConnBusy == (ConnAlive /\ (ResetDue \/ (wb # "blocked" /\ (cn.refused # 0 \/ qSend # <<>>)))) \/ (cn.connErr /\ ~cn.dropped)
LastA == hist'[Len(hist')].a[1]
IsConnStep == hist' # hist /\ LastA \in {"refusal", "pop_frame", "clear_expired", "conn_drop"}
\* the connection task drains before the next application / peer / time step; it ends right after an error
Drained == ConnBusy => IsConnStep
\* while the socket is blocked nothing is written, and (restriction of the replay) the connection does not end
WriteBlocked == wb = "blocked" => ~(LastA \in {"refusal", "pop_frame"}) /\ ~(cn'.connErr /\ ~cn.connErr)
\* (simulation bias) the steps that end the connection come late, when the store has some history
LateEnd == (cn'.connErr /\ ~cn.connErr) => Len(hist) + 8 >= ExportLen
Finished == (Len(hist) >= ExportLen /\ wb # "blocked") \/ cn.dropped
ExportInv == (Finished /\ ~ConnBusy) =>
                 PrintT(<<"REPLAY", ToJson([maxconc |-> MaxConc, resetmax |-> ResetMax, parmax |-> PendingAcceptResetMax,
                                            errmax |-> ErrorResetMax, hist |-> hist])>>)
ExportStop == ~Finished \/ ConnBusy
=============================================================================
