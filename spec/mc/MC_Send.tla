------------------------------ MODULE MC_Send ------------------------------
(* Bounded configuration of the send-side implementation model, composed with
   the contract monitors: TLC explores every interleaving of application calls,
   peer WINDOW_UPDATE / SETTINGS / RST_STREAM and connection-task steps (also
   with a frame parked in the codec), and checks in every state
     - the wire contract  H2Wire (C02 credit, C17 resets, C04 life cycle),
     - the API contract   H2Api  (C16 capacity rules),
     - the code's own assertions and conservation of the connection window. *)
EXTENDS H2Send, Json

CONSTANTS IW,        \* initial stream window advertised by the peer
          CW,        \* connection window
          MF,        \* max frame length
          SendSizes, WUs, SetVals, ResSizes,
          NSend, NWU, NSet, NRes, NRst,   \* budgets of environment steps
          ExportLen                       \* length of exported behaviours (export configuration only)

W == INSTANCE H2Wire
A == INSTANCE H2Api

VARIABLES wm, am, bud, hist
mvars == <<vars, wm, am, bud, hist>>

Cfg == [conn_win |-> CW, coop |-> FALSE, real |-> [c |-> TRUE, s |-> FALSE]]

RECURSIVE FeedW(_, _), FeedA(_, _, _)
FeedW(m, es) == IF es = <<>> THEN m ELSE FeedW(IF "ep" \in DOMAIN Head(es) /\ Head(es).ep # "c" THEN m ELSE W!Step(m, Head(es), 0), Tail(es))
FeedA(a, es, w) == IF es = <<>> THEN a ELSE FeedA(A!Step(a, Head(es), 0, [c |-> w]), Tail(es), w)

HeadersF(s) == [BaseFrame EXCEPT !.ty = "HEADERS", !.sid = s, !.len = 1, !.eh = TRUE, !.hb = TRUE, !.bt = "HEADERS"]
SeqOf(S) == LET F[T \in SUBSET S] == IF T = {} THEN <<>> ELSE LET t == CHOOSE t \in T : \A u \in T : t <= u IN <<t>> \o F[T \ {t}] IN F[S]
InitEvents == <<In(SetF(IW)), Out(SetAckF)>> \o [i \in 1..Cardinality(Streams) |-> Out(HeadersF(SeqOf(Streams)[i]))]

MCInit ==
    /\ Init0(IW, CW, MF)
    /\ wm = FeedW([W!Init("c", Cfg) EXCEPT !.cw = CW], InitEvents)
    /\ am = A!Init(Cfg)
    /\ bud = [send |-> NSend, wu |-> NWU, set |-> NSet, res |-> NRes, rst |-> NRst]
    /\ hist = <<>>

Mon == /\ wm' = FeedW(wm, evs')
       /\ am' = FeedA(am, evs', FeedW(wm, evs'))

Use(k) == bud[k] > 0 /\ bud' = [bud EXCEPT ![k] = bud[k] - 1]
\* projection of the implementation state that the guarded statistics snapshot (hook H2) exposes
Proj == [win |-> win, avail |-> avail, req |-> req, buf |-> buf, cwin |-> cwin, cavail |-> cavail]
\* the history is only kept in the export configuration (ExportLen > 0): it would bloat every queued state otherwise
H(x) == hist' = IF ExportLen > 0 THEN Append(hist, [a |-> x, ev |-> evs', p |-> Proj']) ELSE hist

MCNext ==
    \/ \E s \in Streams, n \in SendSizes, e \in BOOLEAN : Use("send") /\ SendData(s, n, e) /\ H(<<"send_data", s, n, e>>) /\ Mon
    \/ \E s \in Streams, n \in ResSizes : Use("res") /\ ReserveCap(s, n) /\ H(<<"reserve", s, n>>) /\ Mon
    \/ \E s \in Streams : capInc[s] /\ PollCapacity(s) /\ H(<<"poll_capacity", s>>) /\ UNCHANGED bud /\ Mon
    \/ \E s \in Streams : ~capInc[s] /\ ~waiting[s] /\ st[s] = "open" /\ PollCapacity(s) /\ H(<<"poll_capacity", s>>) /\ UNCHANGED bud /\ Mon
    \/ \E s \in Streams : Use("rst") /\ SendReset(s, 8) /\ H(<<"send_reset", s>>) /\ Mon
    \/ \E s \in Streams : Use("rst") /\ RecvRst(s, 8) /\ H(<<"recv_rst", s>>) /\ Mon
    \/ \E s \in Streams, n \in WUs : Use("wu") /\ RecvStreamWU(s, n) /\ H(<<"wu", s, n>>) /\ Mon
    \/ \E n \in WUs : Use("wu") /\ RecvConnWU(n) /\ H(<<"wu", 0, n>>) /\ Mon
    \/ \E v \in SetVals : Use("set") /\ RecvSettingsIws(v) /\ H(<<"settings", v>>) /\ Mon
    \/ PopFrame /\ H(<<"pop">>) /\ UNCHANGED bud /\ Mon
    \/ Reclaim /\ H(<<"reclaim">>) /\ UNCHANGED bud /\ Mon

MCSpec == MCInit /\ [][MCNext]_mvars

\* ---- export of behaviours for replay on the real library (spec -> implementation) ----
\* "drained" schedules: the environment moves only when the connection task has nothing left to do
ConnBusy == infl # NoFrame \/ (ps # <<>> /\ ENABLED PopFrame)
IsConnStep == hist' # hist /\ hist'[Len(hist')].a[1] \in {"pop", "reclaim"}
Drained == ConnBusy => IsConnStep
\* one JSON line per finished behaviour
Exhausted == \A k \in DOMAIN bud : bud[k] = 0
ExportInv == (Len(hist) >= ExportLen /\ ~ConnBusy) => PrintT(<<"REPLAY", ToJson([iw |-> IW, cw |-> CW, mf |-> MF, maxbuf |-> MaxBuf, hist |-> hist])>>)
ExportStop == Len(hist) < ExportLen \/ ConnBusy

\* history and hit counters are observation only: keep them out of the fingerprint
View == <<vars, [wm EXCEPT !.hits = {}], [am EXCEPT !.hits = {}], bud>>

\* ---- invariants ----
WireContract == wm.v = <<>>
ApiContract == am.v = <<>>
InvConservation == Conservation
InvAvail == AvailNonNegative
InvAssert == NoAssertFires
InvSchedule == NoLostSchedule
\* the capacity census (all capacity() getters read at one instant) evaluated in EVERY reachable state
CensusEvents == <<[t |-> "census_begin"]>> \o
              [i \in 1..Cardinality(Streams) |->
                  LET s == SeqOf(Streams)[i]
                  IN [Api("capacity", s, "ok", 0, Capacity(s, avail[s], buf[s]), FALSE) EXCEPT !.task = "census"]] \o
              <<[t |-> "census_end"]>>
CensusInv == FeedA(am, CensusEvents, wm).v = <<>>
=============================================================================
