SPECIFICATION MCSpec
CONSTANTS
  Streams = {1, 3}
  MaxBuf = 4
  MaxWin = 100
  IW = 2
  CW = 3
  MF = 2
  SendSizes = {0, 1, 2, 3, 5}
  WUs = {1, 2, 3}
  SetVals = {0, 1, 2, 3, 5}
  ResSizes = {0, 1, 2, 4}
  NSend = 4
  NWU = 4
  NSet = 3
  NRes = 3
  NRst = 1
  ExportLen = 22
ACTION_CONSTRAINT Drained
CONSTRAINT ExportStop
INVARIANT ExportInv
INVARIANT WireContract
INVARIANT ApiContract
INVARIANT InvAssert
CHECK_DEADLOCK FALSE
