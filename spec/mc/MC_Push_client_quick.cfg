SPECIFICATION MCSpec
VIEW View
CONSTANTS
  Role = "c"
  Parents = {1}
  NPush = 2
  InitMaxSend = 1000
  InitMaxRecv = 1
  ResetMax = 1
  ErrorResetMax = 2
  LazyClient = FALSE
  OldPushBugs = FALSE
  OldIdleCheck = FALSE
  NPeer = 4
  NAppX = 2
  NTick = 1
  NIdle = 0
  PeerKinds = {"pp", "resp", "data", "rst", "wu"}
  LimitVals = {}
  AllowNoPush = FALSE
  AllowEof = TRUE
  AllowGoAway = FALSE
  AllowMalformedPush = FALSE
  AllowBlock = FALSE
  ExportLen = 0
  HasFiller = FALSE
  SimDrops = FALSE
INVARIANT InvAssert
INVARIANT InvStructure
INVARIANT InvKept
INVARIANT InvBounded
INVARIANT InvCounters
INVARIANT InvC04
INVARIANT InvC05client
INVARIANT InvC09
INVARIANT InvC09knownClient
INVARIANT InvIdle
INVARIANT InvC18
CHECK_DEADLOCK FALSE
