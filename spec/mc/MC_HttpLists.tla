---------------------------- MODULE MC_HttpLists ----------------------------
(***************************************************************************)
(* C13, enumeration slice.  Every header list of length <= MaxLen over the *)
(* class alphabet of HttpSemantics is one state (d caches the expected     *)
(* defects of the list in each position it can be replayed in).  In every  *)
(* state / on every step TLC                                               *)
(*  (a) checks that the rule-by-rule predicates of HttpSemantics           *)
(*      (Defects = {}) coincide with an independent, positive formulation  *)
(*      (a grammar: an admissible set of pseudo-header fields, each once,  *)
(*      followed by admissible regular fields) for all message kinds,      *)
(*  (b) checks structural theorems (kinds are mutually exclusive, defects  *)
(*      of a prefix persist in every extension, append laws, anatomy),     *)
(*  (c) exports the list with its expected defects per position as a CASE  *)
(*      line: all lists up to FullLen; beyond that the frontier - per      *)
(*      position, lists that are valid or break exactly one rule with at   *)
(*      most one offending field (the neighbouring shapes by which a       *)
(*      single check of an implementation can be bypassed).                *)
(* The harness instantiates the classes with concrete bytes and replays    *)
(* the cases on the real library; Trace_Http decides.                      *)
(***************************************************************************)
EXTENDS HttpSemantics, Json

CONSTANTS MaxLen,     \* lists up to this length are enumerated
          FullLen     \* all lists up to this length are exported, longer ones only on the frontier

VARIABLES h, d
vars == <<h, d>>

\* ---- content-length summary of an enumerated list, computed as the harness computes it for a received list
\* (every "cl" is instantiated with the value 0; -2: the last unparsable value is not followed by a parsable
\* one, -3: it is - both are defects)
ClOf(g) == IF ~Has(g, {"cl=bad"}) THEN (IF Has(g, {"cl"}) THEN 0 ELSE -1)
           ELSE LET last == CHOOSE i \in Idx(g) : g[i] = "cl=bad" /\ \A j \in (i + 1)..Len(g) : g[j] # "cl=bad"
                IN IF \E j \in (last + 1)..Len(g) : g[j] = "cl" THEN -3 ELSE -2

\* ---- expected defects of the list in each position it can be replayed in --------
\* req0/req1: request opening a stream, server without / with extended CONNECT enabled (END_STREAM set)
\* head: first block of a response to a GET request (interim iff its first status is 1xx; an interim is sent
\*       without, a final response with END_STREAM); push: PUSH_PROMISE; trl: trailers (END_STREAM set)
Positions == {"req0", "req1", "head", "push", "trl"}
\* the official operators ...
DRef(g) ==
    [req0 |-> RequestDefects(g, FALSE, ClOf(g)),
     req1 |-> RequestDefects(g, TRUE, ClOf(g)),
     head |-> IF HeadKind(g) = "interim" THEN InterimDefects(g, FALSE)
              ELSE ResponseDefects(g, ClOf(g), Exempt(":method=GET", g)),
     push |-> PushDefects(g, ClOf(g)),
     trl  |-> TrailerDefects(g, TRUE)]
\* ... and the same with the common parts evaluated once (invariant Cached: D = DRef)
D(g) ==
    LET fd == FieldDefects(g)
        cm == fd \cup OrderDefects(g) \cup DupDefects(g)
        cc == cm \cup ClDefects(ClOf(g))
        rr == RequestRules(g, FALSE)
    IN [req0 |-> cc \cup rr,
        req1 |-> cc \cup RequestRules(g, TRUE),
        head |-> IF HeadKind(g) = "interim" \/ Exempt(":method=GET", g) THEN cm \cup ResponseRules(g)
                 ELSE cc \cup ResponseRules(g),
        push |-> cc \cup rr \cup If(Has(g, MethodCls) /\ FirstIn(g, MethodCls) \notin SafeMethodCls, "push_unsafe"),
        trl  |-> fd \cup TrailerRules(g, TRUE)]

LInit == h = <<>> /\ d = D(<<>>)
Extend == /\ Len(h) < MaxLen
          /\ \E c \in Alphabet : h' = Append(h, c) /\ d' = D(h')
Next == Extend
Spec == LInit /\ [][Next]_vars

\* ---- (a) independent positive formulation -------------------------------------------
NPseudo(g) == Cardinality({i \in Idx(g) : \A j \in 1..i : IsPseudo(g[j])})      \* length of the pseudo prefix
GoodRegular == {"plain", "cl", "te=trailers"}
\* where no content-length is judged (interim responses, trailers) an unparsable one is an ordinary field
AnyCl == GoodRegular \cup {"cl=bad"}
OptAuth == {{}, {":authority"}}
ReqSetsOf(ecp) ==
         {{m, ":scheme", ":path"} \cup a : m \in MethodCls \ {":method=CONNECT"}, a \in OptAuth}
    \cup {{":method=CONNECT", ":authority"}}
    \cup (IF ecp THEN {{":method=CONNECT", ":protocol", ":scheme", ":path"} \cup a : a \in OptAuth} ELSE {})
ReqSets0 == ReqSetsOf(FALSE)
ReqSets1 == ReqSetsOf(TRUE)
PushSets == {{m, ":scheme", ":path"} \cup a : m \in SafeMethodCls, a \in OptAuth}
InterimSets == {{":status=1xx"}}
FinalSets == {{":status=2xx"}}
NoContentSets == {{":status=204"}, {":status=304"}}      \* defined as having no content: content-length not judged
G(g) ==
    LET np == NPseudo(g)
        ps == {g[i] : i \in 1..np}
        rs == {g[i] : i \in (np + 1)..Len(g)}
        once == Cardinality(ps) = np             \* each pseudo-header field exactly once
        Shape(sets, reg) == rs \subseteq reg /\ once /\ ps \in sets
    IN [req0 |-> Shape(ReqSets0, GoodRegular),
        req1 |-> Shape(ReqSets1, GoodRegular),
        head |-> Shape(InterimSets, AnyCl) \/ Shape(NoContentSets, AnyCl) \/ Shape(FinalSets, GoodRegular),
        push |-> Shape(PushSets, GoodRegular),
        trl  |-> Shape({{}}, AnyCl)]

GrammarAgrees == LET g == G(h) IN \A p \in Positions : (d[p] = {}) <=> g[p]

\* ---- (b) structural theorems -------------------------------------------------------
Cached == d = DRef(h)
\* a list is a valid message of at most one kind (request / pushed request count as one)
Exclusive == Cardinality({p \in {"req1", "head", "trl"} : d[p] = {}}) <= 1
Inclusions ==
    /\ (d.req0 = {} => d.req1 = {})
    /\ (d.push = {} => d.req0 = {})
    /\ (ValidInterim(h) \/ (ValidResponse(h) /\ (ClOf(h) >= -1 \/ Exempt(":method=GET", h)))) <=> d.head = {}
    /\ ~(ValidInterim(h) /\ ValidResponse(h))
    /\ (ValidRequest(h, TRUE) /\ ClOf(h) >= -1) <=> d.req1 = {}
    /\ (ValidPush(h) /\ ClOf(h) >= -1) <=> d.push = {}
    /\ ValidTrailers(h) <=> d.trl = {}
\* what the predicates say about the parts of a valid message
Anatomy ==
    /\ (d.trl = {} => ~Has(h, PseudoCls))
    /\ (d.req1 = {} => /\ Cardinality({i \in Idx(h) : h[i] \in MethodCls}) = 1 /\ ~Has(h, StatusCls)
                       /\ (Has(h, {":protocol"}) => Has(h, {":method=CONNECT"})))
    /\ (d.head = {} => Cardinality({i \in Idx(h) : h[i] \in StatusCls}) = 1 /\ ~Has(h, ReqPseudo))
    /\ \A p \in Positions : d[p] = {} => \A i, j \in Idx(h) : (i < j /\ IsPseudo(h[j])) => IsPseudo(h[i])
\* field-level, order and duplication defects of a prefix persist in every extension: no suffix repairs them
Persist == [][\A p \in Positions : (d[p] \cap CommonNames) \subseteq d'[p]]_vars
\* appending an ordinary field to a valid head keeps it valid; appending a pseudo-header field after
\* a regular field makes every kind malformed
AppendLaws ==
    [][LET c == h'[Len(h')] IN
       /\ (c = "plain" => \A p \in Positions : d[p] = {} => d'[p] = {})
       /\ ((IsPseudo(c) /\ Has(h, RegularCls)) => \A p \in Positions : d'[p] # {})]_vars

\* ---- (c) export ---------------------------------------------------------------------
\* classes that never occur in a valid list of the position
FieldBad == {"upper", "badname", "badvalue", "connspec", "te=other", ":unknown", ":status=bad"}
BadCls ==
    [req0 |-> FieldBad \cup StatusCls \cup {":protocol", "cl=bad"},
     req1 |-> FieldBad \cup StatusCls \cup {"cl=bad"},
     head |-> FieldBad \cup ReqPseudo,
     push |-> FieldBad \cup StatusCls \cup {":protocol", "cl=bad"} \cup (MethodCls \ SafeMethodCls),
     trl  |-> FieldBad \cup PseudoCls]
NBad(g, p) == Cardinality({i \in Idx(g) : g[i] \in BadCls[p]})
OnFrontier(p) == Cardinality(d[p]) <= 1 /\ NBad(h, p) <= 1
Export ==
    LET ps == IF Len(h) <= FullLen THEN Positions ELSE {p \in Positions : OnFrontier(p)}
    IN IF ps = {} THEN TRUE
       ELSE PrintT(<<"CASE", ToJson([h |-> h, ps |-> SetToSeq(ps),
                                     d |-> [p \in Positions |-> SetToSeq(d[p])]])>>)
=============================================================================
