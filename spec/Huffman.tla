------------------------------ MODULE Huffman ------------------------------
(***************************************************************************)
(* RFC 7541 section 5: primitive types.                                    *)
(*                                                                         *)
(*  * Section 5.2 / Appendix B: the static Huffman code.  The decoder is    *)
(*    the canonical-code automaton derived from HuffmanCodes.tla (the RFC   *)
(*    table, frozen): state = the bits read since the last symbol; a       *)
(*    symbol is emitted as soon as those bits are a code word.  Padding     *)
(*    rules of 5.2: at most 7 bits, all ones (a prefix of EOS); a decoded   *)
(*    EOS is an error.                                                     *)
(*  * Section 5.1: prefix integers, the RFC pseudo-code transcribed.        *)
(*                                                                         *)
(* Everything here is a constant-level operator; TLC evaluates it on the   *)
(* inputs recorded from the real h2 code (Trace_Hpack.tla) and enumerates  *)
(* test inputs from it (MC_HuffGen.tla).                                   *)
(***************************************************************************)
EXTENDS Naturals, Integers, Sequences, FiniteSets, HuffmanCodes

EOS == 256
Syms == 0..256
CodeOf(s) == HuffCode[s + 1][1]
LenOf(s)  == HuffCode[s + 1][2]
MaxLen == 30

Pow2[n \in 0..30] == IF n = 0 THEN 1 ELSE 2 * Pow2[n - 1]

(***************************************************************************)
(* Canonical structure: the code words of one length are consecutive       *)
(* integers (checked by CanonicalOK), so membership is an interval test.    *)
(***************************************************************************)
SymsOfLen(l) == {s \in Syms : LenOf(s) = l}
Count == [l \in 1..MaxLen |-> Cardinality(SymsOfLen(l))]
First == [l \in 1..MaxLen |->
            IF Count[l] = 0 THEN 0
            ELSE CHOOSE c \in {CodeOf(s) : s \in SymsOfLen(l)} : \A s \in SymsOfLen(l) : c <= CodeOf(s)]
SymAt == [l \in 1..MaxLen |->
            [i \in 0..(Count[l] - 1) |-> CHOOSE s \in SymsOfLen(l) : CodeOf(s) = First[l] + i]]

IsCode(v, l) == l >= 1 /\ l <= MaxLen /\ Count[l] > 0 /\ v >= First[l] /\ v < First[l] + Count[l]

\* the code is what the automaton assumes: contiguous per length, prefix free, complete (Kraft sum = 1)
CanonicalOK ==
    /\ \A l \in 1..MaxLen : \A s \in SymsOfLen(l) : CodeOf(s) >= First[l] /\ CodeOf(s) < First[l] + Count[l]
    /\ \A s \in Syms : CodeOf(s) < Pow2[LenOf(s)] /\ LenOf(s) >= 5 /\ LenOf(s) <= MaxLen
    /\ \A s \in Syms : SymAt[LenOf(s)][CodeOf(s) - First[LenOf(s)]] = s
\* Kraft: sum over lengths of Count[l] * 2^(30-l) = 2^30
KraftSum ==
    LET F[l \in 0..MaxLen] == IF l = 0 THEN 0 ELSE F[l - 1] + Count[l] * Pow2[MaxLen - l] IN F[MaxLen]
KraftOK == KraftSum = Pow2[30]
\* prefix freeness: no code word is a proper prefix of another
PrefixFree ==
    \A s \in Syms : \A l \in 1..(LenOf(s) - 1) : ~IsCode(CodeOf(s) \div Pow2[LenOf(s) - l], l)
\* EOS is the all-ones word of maximal length
EosOK == LenOf(EOS) = 30 /\ CodeOf(EOS) = Pow2[30] - 1

(***************************************************************************)
(* The decoder automaton.  A state is <<v, l>>: l pending bits of value v.  *)
(***************************************************************************)
BitOf(byte, k) == (byte \div Pow2[7 - k]) % 2      \* k = 0 is the most significant bit

\* result: [ok |-> BOOLEAN, out |-> sequence of octets, why |-> "" | "eos" | "padlen" | "padbits"]
RECURSIVE Walk(_, _, _, _, _)
Walk(bs, pos, v, l, out) ==
    IF pos = 8 * Len(bs)
    THEN IF l > 7 THEN [ok |-> FALSE, out |-> <<>>, why |-> "padlen"]
         ELSE IF v # Pow2[l] - 1 THEN [ok |-> FALSE, out |-> <<>>, why |-> "padbits"]
         ELSE [ok |-> TRUE, out |-> out, why |-> ""]
    ELSE LET bit == BitOf(bs[(pos \div 8) + 1], pos % 8)
             v2  == 2 * v + bit
             l2  == l + 1
         IN IF IsCode(v2, l2)
            THEN LET s == SymAt[l2][v2 - First[l2]] IN
                 IF s = EOS THEN [ok |-> FALSE, out |-> <<>>, why |-> "eos"]
                 ELSE Walk(bs, pos + 1, 0, 0, Append(out, s))
            ELSE Walk(bs, pos + 1, v2, l2, out)

Decode(bs) == Walk(bs, 0, 0, 0, <<>>)

(***************************************************************************)
(* The encoder (5.2): concatenate code words, pad with ones to an octet.    *)
(* Used to state what a correct encoding is: Decode(b).out = s and          *)
(* Len(b) = ceil(bits(s) / 8).                                              *)
(***************************************************************************)
BitLen(s) == LET F[i \in 0..Len(s)] == IF i = 0 THEN 0 ELSE F[i - 1] + LenOf(s[i]) IN F[Len(s)]
EncLen(s) == (BitLen(s) + 7) \div 8

\* bits of symbol s, most significant first
SymBits(s) == [k \in 1..LenOf(s) |-> (CodeOf(s) \div Pow2[LenOf(s) - k]) % 2]
RECURSIVE Flat(_)
Flat(ss) == IF ss = <<>> THEN <<>> ELSE SymBits(Head(ss)) \o Flat(Tail(ss))
\* pack a bit sequence (length a multiple of 8) into octets
Pack(bits) ==
    [j \in 1..(Len(bits) \div 8) |->
        LET F[k \in 0..8] == IF k = 0 THEN 0 ELSE 2 * F[k - 1] + bits[8 * (j - 1) + k] IN F[8]]
Ones(n) == [k \in 1..n |-> 1]
Zeros(n) == [k \in 1..n |-> 0]
Encode(ss) == LET b == Flat(ss) IN Pack(b \o Ones((8 - (Len(b) % 8)) % 8))

(***************************************************************************)
(* The trie, as data (emitted once for the harness-side exhaustive length-3 *)
(* run): node key = 2^l + v for the pending bits <<v, l>>; root = 1.        *)
(***************************************************************************)
Key(v, l) == Pow2[l] + v
ProperPrefixes == UNION {{<<CodeOf(s) \div Pow2[LenOf(s) - l], l>> : l \in 0..(LenOf(s) - 1)} : s \in Syms}
TrieEdges ==
    {LET v2 == 2 * n[1] + b
         l2 == n[2] + 1
     IN [k |-> Key(n[1], n[2]), b |-> b, leaf |-> IsCode(v2, l2),
         to |-> IF IsCode(v2, l2) THEN SymAt[l2][v2 - First[l2]] ELSE Key(v2, l2)]
     : n \in ProperPrefixes, b \in {0, 1}}
PadOkKeys == {Key(Pow2[l] - 1, l) : l \in 0..7}
\* completeness of the trie: every non-leaf edge leads to a proper prefix
TrieOK == /\ Cardinality(ProperPrefixes) = 256
          /\ \A e \in TrieEdges : e.leaf \/ \E n \in ProperPrefixes : Key(n[1], n[2]) = e.to

(***************************************************************************)
(* RFC 7541 5.1 prefix integers.                                           *)
(*   decode I from the next N bits                                         *)
(*   if I < 2^N - 1, return I                                              *)
(*   else M = 0; repeat B = next octet; I = I + (B & 127) * 2^M; M = M + 7 *)
(*        while B & 128 == 128; return I                                   *)
(* TLC integers are 32 bit: values >= 2^28 are reported as "big" (exactly: *)
(* the result is "big" iff the RFC value is >= 2^28).  The harness keeps    *)
(* every limit (tables, blocks, size limits) below 2^28, so every use of a *)
(* "big" integer is a decoding error.                                      *)
(***************************************************************************)
BigLimit == Pow2[28]

\* bs: octets, start: 1-based index of the octet holding the prefix; n: prefix bits
\* result [k |-> "ok", v |-> value, nx |-> index after the integer] | [k |-> "trunc"] | [k |-> "big", nx]
RECURSIVE IntMore(_, _, _, _, _)
IntMore(bs, pos, i, m, big) ==
    IF pos > Len(bs) THEN [k |-> "trunc", v |-> 0, nx |-> pos]
    ELSE LET b    == bs[pos]
             part == b % 128
             add  == ~big /\ part # 0 /\ m < 28
             i2   == IF add THEN i + part * Pow2[m] ELSE i
             big2 == big \/ (part # 0 /\ m >= 28) \/ i2 >= BigLimit
             m2   == IF m >= 28 THEN 28 ELSE m + 7
         IN IF b >= 128 THEN IntMore(bs, pos + 1, IF big2 THEN 0 ELSE i2, m2, big2)
            ELSE IF big2 THEN [k |-> "big", v |-> 0, nx |-> pos + 1]
            ELSE [k |-> "ok", v |-> i2, nx |-> pos + 1]

DecodeInt(n, bs, start) ==
    IF start > Len(bs) THEN [k |-> "trunc", v |-> 0, nx |-> start]
    ELSE LET i == bs[start] % Pow2[n] IN
         IF i < Pow2[n] - 1 THEN [k |-> "ok", v |-> i, nx |-> start + 1]
         ELSE IntMore(bs, start + 1, i, 0, FALSE)

\* RFC 7541 C.1 examples and a C.4.1 Huffman example, as a sanity anchor of this module
ExamplesOK ==
    /\ DecodeInt(5, <<10>>, 1).v = 10
    /\ DecodeInt(5, <<31, 154, 10>>, 1) = [k |-> "ok", v |-> 1337, nx |-> 4]
    /\ DecodeInt(8, <<42>>, 1).v = 42
    \* "www.example.com" = f1e3 c2e5 f23a 6ba0 ab90 f4ff
    /\ Decode(<<241, 227, 194, 229, 242, 58, 107, 160, 171, 144, 244, 255>>)
         = [ok |-> TRUE, why |-> "",
            out |-> <<119, 119, 119, 46, 101, 120, 97, 109, 112, 108, 101, 46, 99, 111, 109>>]
    /\ Encode(<<119, 119, 119, 46, 101, 120, 97, 109, 112, 108, 101, 46, 99, 111, 109>>)
         = <<241, 227, 194, 229, 242, 58, 107, 160, 171, 144, 244, 255>>
    \* "no-cache" = a8eb 1064 9cbf
    /\ Decode(<<168, 235, 16, 100, 156, 191>>).out = <<110, 111, 45, 99, 97, 99, 104, 101>>

AllOK == CanonicalOK /\ KraftOK /\ PrefixFree /\ EosOK /\ TrieOK /\ ExamplesOK
=============================================================================
