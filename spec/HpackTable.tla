----------------------------- MODULE HpackTable -----------------------------
(***************************************************************************)
(* Implementation-shaped model of h2's ENCODER index table                  *)
(* (/repo/src/hpack/table.rs), one operator per Rust function:              *)
(*                                                                         *)
(*   Table { mask, indices: Vec<Option<Pos>>, slots: VecDeque<Slot>,        *)
(*           inserted, size, max_size }                                     *)
(*   index -> index_dynamic -> index_occupied | index_vacant                *)
(*   insert, update_size, converge, evict (with prev_idx), remove_phase_two *)
(*   reserve_one, grow (8 -> 16), resize (incl. the size == 0 reset)        *)
(*                                                                         *)
(* `indices` is a robin-hood hash index over *positions*: Pos.index is the  *)
(* slot's VecDeque index minus `inserted` at the time it was stored         *)
(* (wrapping usize arithmetic; here plain integers - the two agree unless   *)
(* 2^64 headers are inserted), so the real slot index is                    *)
(* Pos.index + inserted.  Headers with the same name are chained through    *)
(* Slot.next (oldest first; only the oldest is in `indices`).               *)
(*                                                                         *)
(* Abstraction: a header is [n, v, s, h]: name id, value id, sensitive,     *)
(* h = its hash modulo 16 (desired position under both masks 7 and 15).     *)
(* Names outside the static table only (statik = None); every header has    *)
(* the same length EntryLen.  Everything else is literal.                   *)
(*                                                                         *)
(* Rust panics / endless loops (unwrap of None, slice index out of range,   *)
(* probe loops that never terminate) are modelled by the `bad` field.       *)
(***************************************************************************)
EXTENDS Naturals, Integers, Sequences, FiniteSets, TLC

CONSTANTS NameHash,    \* sequence: NameHash[n] = hash class (0..15) of name n
          Values,      \* set of value ids
          SensNames,   \* names that are also submitted with a sensitive value
          Sizes,       \* max_size values used by resize (octets)
          InitMax,     \* max_size before the first resize
          EntryLen,    \* Header::len() of every header
          MaxOps       \* bound on the history length (for export)

NoneO == [some |-> FALSE, idx |-> 0]
SomeO(i) == [some |-> TRUE, idx |-> i]
NoneP == [some |-> FALSE, idx |-> 0, h |-> 0]
SomeP(i, h) == [some |-> TRUE, idx |-> i, h |-> h]

Cap(t) == Len(t.ind)
At(t, p) == t.ind[p + 1]                            \* indices[p], 0-based
Desired(t, h) == h % (t.mask + 1)                   \* desired_pos
ProbeDist(t, h, cur) == (cur - Desired(t, h) + Cap(t)) % Cap(t)   \* probe_distance
UsableCap(c) == c - (c \div 4)                      \* usable_capacity
Bad(t, why) == IF t.bad = "" THEN [t EXCEPT !.bad = why] ELSE t

\* Table::new(max_size, 0)
NewTable(max) == [mask |-> 0, ind |-> <<>>, slots |-> <<>>, ins |-> 0, size |-> 0, max |-> max, bad |-> ""]

(***************************************************************************)
(* evict / remove_phase_two / converge                                      *)
(***************************************************************************)
\* probe_loop in evict: the position whose index is `target`; -1 = unwrap on None / endless loop
RECURSIVE FindPos(_, _, _, _)
FindPos(t, p, target, steps) ==
    IF steps > Cap(t) \/ ~At(t, p).some THEN -1
    ELSE IF At(t, p).idx = target THEN p
    ELSE FindPos(t, (p + 1) % Cap(t), target, steps + 1)

RECURSIVE RP2(_, _, _, _)
RP2(t, last, p, steps) ==
    IF steps > Cap(t) THEN Bad(t, "remove_phase_two: endless loop")
    ELSE IF At(t, p).some /\ ProbeDist(t, At(t, p).h, p) > 0
         THEN RP2([t EXCEPT !.ind[last + 1] = At(t, p), !.ind[p + 1] = NoneP], p, (p + 1) % Cap(t), steps + 1)
         ELSE t
RemovePhaseTwo(t, probe) == RP2(t, probe, (probe + 1) % Cap(t), 0)

Evict(t, prev) ==
    LET L      == Len(t.slots)
        posIdx == (L - 1) - t.ins
        slot   == t.slots[L]
        t1     == [t EXCEPT !.slots = SubSeq(@, 1, L - 1), !.size = @ - EntryLen]
        p      == FindPos(t1, Desired(t1, slot.h), posIdx, 0)
    IN IF p < 0 THEN Bad(t1, "evict: no position for the evicted slot")
       ELSE IF slot.nx.some THEN [t1 EXCEPT !.ind[p + 1].idx = slot.nx.idx]
       ELSE IF prev.some /\ prev.idx = posIdx THEN [t1 EXCEPT !.ind[p + 1].idx = 0 - (t1.ins + 1)]
       ELSE RemovePhaseTwo([t1 EXCEPT !.ind[p + 1] = NoneP], p)

RECURSIVE Converge(_, _)
Converge(t, prev) ==
    IF t.bad # "" \/ t.size <= t.max THEN t
    ELSE IF t.slots = <<>> THEN Bad(t, "evict: empty table")
    ELSE Converge(Evict(t, prev), prev)

\* Table::resize
Resize(t, n) ==
    IF n = 0 THEN [t EXCEPT !.max = 0, !.size = 0, !.ind = [i \in 1..Cap(t) |-> NoneP], !.slots = <<>>, !.ins = 0]
    ELSE Converge([t EXCEPT !.max = n], NoneO)

(***************************************************************************)
(* reserve_one / grow                                                       *)
(***************************************************************************)
RECURSIVE FirstFree(_, _, _)
FirstFree(ind, p, steps) ==
    IF steps > Len(ind) THEN -1 ELSE IF ~ind[p + 1].some THEN p ELSE FirstFree(ind, (p + 1) % Len(ind), steps + 1)

Grow(t, newCap) ==
    LET ideal == {i \in 0..(Cap(t) - 1) : At(t, i).some /\ ProbeDist(t, At(t, i).h, i) = 0}
        first == IF ideal = {} THEN 0 ELSE CHOOSE i \in ideal : \A j \in ideal : i <= j
        order == [k \in 1..Cap(t) |-> (first + k - 1) % Cap(t)]
        F[k \in 0..Cap(t)] ==
            IF k = 0 THEN [i \in 1..newCap |-> NoneP]
            ELSE LET pos == At(t, order[k]) IN
                 IF ~pos.some THEN F[k - 1]
                 ELSE LET q == FirstFree(F[k - 1], pos.h % newCap, 0) IN
                      IF q < 0 THEN F[k - 1] ELSE [F[k - 1] EXCEPT ![q + 1] = pos]
    IN [t EXCEPT !.ind = F[Cap(t)], !.mask = newCap - 1]

ReserveOne(t) ==
    IF Len(t.slots) = UsableCap(Cap(t))
    THEN IF Len(t.slots) = 0 THEN [t EXCEPT !.mask = 7, !.ind = [i \in 1..8 |-> NoneP]]
         ELSE Grow(t, 2 * Cap(t))
    ELSE t

(***************************************************************************)
(* insert / index_vacant / index_occupied / index_dynamic / index           *)
(* results: [k |-> "Indexed" | "Name" | "Inserted" | "InsertedValue" |      *)
(*                 "NotIndexed", i |-> HPACK index (0 if none)]             *)
(***************************************************************************)
Res(k, i) == [k |-> k, i |-> i]
DynOffset == 62

Insert(t, hd) ==
    [t EXCEPT !.ins = @ + 1, !.slots = <<[h |-> hd.h, n |-> hd.n, v |-> hd.v, nx |-> NoneO]>> \o @]

RECURSIVE WalkBack(_, _, _)
WalkBack(t, probe, dist) ==
    IF dist = 0 THEN probe
    ELSE LET back == (probe - 1 + Cap(t)) % Cap(t) IN
         IF At(t, back).some
         THEN IF ProbeDist(t, At(t, back).h, back) < dist - 1 THEN WalkBack(t, back, dist - 1) ELSE probe
         ELSE WalkBack(t, back, dist - 1)

RECURSIVE ShiftFwd(_, _, _, _)
ShiftFwd(t, carry, p, steps) ==
    IF steps > Cap(t) THEN Bad(t, "index_vacant: endless shift")
    ELSE LET old == At(t, p)
             t1  == [t EXCEPT !.ind[p + 1] = carry]
         IN IF old.some THEN ShiftFwd(t1, old, (p + 1) % Cap(t), steps + 1) ELSE t1

IndexVacant(t, hd, dist, probe) ==
    IF hd.s THEN [t |-> t, r |-> Res("NotIndexed", 0)]
    ELSE LET t1      == Converge([t EXCEPT !.size = @ + EntryLen], NoneO)
             evicted == Len(t1.slots) < Len(t.slots)
             pr      == IF evicted THEN WalkBack(t1, probe, dist) ELSE probe
             t2      == Insert(t1, hd)
             prev    == At(t2, pr)
             t3      == [t2 EXCEPT !.ind[pr + 1] = SomeP(0 - t2.ins, hd.h)]
             t4      == IF prev.some THEN ShiftFwd(t3, prev, (pr + 1) % Cap(t3), 0) ELSE t3
         IN [t |-> t4, r |-> Res("Inserted", 0)]

\* walk the chain of same-name slots; returns [found, real] or the tail
RECURSIVE ChainWalk(_, _, _, _)
ChainWalk(t, hd, index, steps) ==
    LET real == index + t.ins IN
    IF steps > Len(t.slots) \/ real < 0 \/ real >= Len(t.slots) THEN [k |-> "bad", index |-> index, real |-> real]
    ELSE IF t.slots[real + 1].v = hd.v THEN [k |-> "match", index |-> index, real |-> real]
    ELSE IF t.slots[real + 1].nx.some THEN ChainWalk(t, hd, t.slots[real + 1].nx.idx, steps + 1)
    ELSE [k |-> "tail", index |-> index, real |-> real]

IndexOccupied(t, hd, index0) ==
    LET w == ChainWalk(t, hd, index0, 0) IN
    IF w.k = "bad" THEN [t |-> Bad(t, "index_occupied: slot index out of range / chain cycle"), r |-> Res("NotIndexed", 0)]
    ELSE IF w.k = "match" THEN [t |-> t, r |-> Res("Indexed", w.real + DynOffset)]
    ELSE IF hd.s THEN [t |-> t, r |-> Res("Name", w.real + DynOffset)]
    ELSE LET t1   == Converge([t EXCEPT !.size = @ + EntryLen], SomeO(w.index))
             t2   == Insert(t1, hd)
             newr == w.index + t2.ins
             t3   == IF newr < Len(t2.slots) THEN [t2 EXCEPT !.slots[newr + 1].nx = SomeO(0 - t2.ins)] ELSE t2
         IN [t |-> t3, r |-> Res("InsertedValue", w.real + DynOffset)]

RECURSIVE Probe(_, _, _, _)
Probe(t, hd, p, dist) ==
    IF dist > Cap(t) THEN [t |-> Bad(t, "index_dynamic: endless probe"), r |-> Res("NotIndexed", 0)]
    ELSE IF ~At(t, p).some THEN IndexVacant(t, hd, dist, p)
    ELSE LET pos == At(t, p)
             si  == pos.idx + t.ins
         IN IF ProbeDist(t, pos.h, p) < dist THEN IndexVacant(t, hd, dist, p)
            ELSE IF pos.h = hd.h /\ (si < 0 \/ si >= Len(t.slots))
                 THEN [t |-> Bad(t, "index_dynamic: slot index out of range"), r |-> Res("NotIndexed", 0)]
            ELSE IF pos.h = hd.h /\ t.slots[si + 1].n = hd.n THEN IndexOccupied(t, hd, pos.idx)
            ELSE Probe(t, hd, (p + 1) % Cap(t), dist + 1)

IndexDynamic(t, hd) ==
    LET t0 == IF (EntryLen + t.size < t.max) \/ ~hd.s THEN ReserveOne(t) ELSE t IN
    IF t0.ind = <<>> THEN [t |-> t0, r |-> Res("NotIndexed", 0)]
    ELSE Probe(t0, hd, Desired(t0, hd.h), 0)

\* Table::index for a header whose name is not in the static table
Index(t, hd) ==
    IF EntryLen * 4 > t.max * 3 THEN [t |-> t, r |-> Res("NotIndexed", 0)]
    ELSE IndexDynamic(t, hd)

(***************************************************************************)
(* The state machine: an application submits headers, the peer changes the  *)
(* table size between blocks.  `ref` is the RFC 7541 dynamic table a        *)
(* decoder builds from what the encoder emits for the returned Index.       *)
(***************************************************************************)
VARIABLES t,       \* the table
          ref,     \* RFC 7541 table (sequence of <<n, v>>, newest first) as the peer's decoder has it
          last,    \* last operation: [op, hd, r, pre] for ResultOK
          hist     \* history (export only)
vars == <<t, ref, last, hist>>

Names == 1..Len(NameHash)
Hd(n, v, s) == [n |-> n, v |-> v, s |-> s, h |-> NameHash[n]]
Headers == {Hd(n, v, FALSE) : n \in Names, v \in Values} \cup {Hd(n, v, TRUE) : n \in SensNames, v \in Values}

RECURSIVE RefEvict(_, _)
RefEvict(es, lim) == IF es = <<>> \/ Len(es) * EntryLen <= lim THEN es ELSE RefEvict(SubSeq(es, 1, Len(es) - 1), lim)
RefInsert(es, e, max) == IF EntryLen > max THEN <<>> ELSE <<e>> \o RefEvict(es, max - EntryLen)

Init == /\ t = NewTable(InitMax) /\ ref = <<>> /\ hist = <<>>
        /\ last = [op |-> "init", hd |-> Hd(1, 1, FALSE), r |-> Res("NotIndexed", 0), pre |-> <<>>]

Submit(hd) ==
    /\ t.bad = ""
    /\ LET x == Index(t, hd) IN
       /\ t' = x.t
       /\ last' = [op |-> "index", hd |-> hd, r |-> x.r, pre |-> t.slots]
       /\ ref' = IF x.r.k \in {"Inserted", "InsertedValue"} THEN RefInsert(ref, <<hd.n, hd.v>>, t.max) ELSE ref
       /\ hist' = Append(hist, [n |-> hd.n, v |-> hd.v, s |-> hd.s, set |-> -1, rk |-> x.r.k, ri |-> x.r.i])

\* (one resize between two blocks: consecutive SETTINGS are merged by Encoder::update_max_size)
DoResize(n) ==
    /\ t.bad = "" /\ n # t.max /\ last.op # "resize"
    /\ t' = Resize(t, n)
    /\ ref' = RefEvict(ref, n)
    /\ last' = [op |-> "resize", hd |-> last.hd, r |-> Res("NotIndexed", 0), pre |-> t.slots]
    /\ hist' = Append(hist, [n |-> 0, v |-> 0, s |-> FALSE, set |-> n, rk |-> "", ri |-> 0])

Next == (\E hd \in Headers : Submit(hd)) \/ (\E n \in Sizes : DoResize(n))
Spec == Init /\ [][Next]_vars

\* positions are relative to `inserted`: two tables that differ only by a shift of all positions and of
\* `inserted` behave identically, so the VIEW normalises them (and drops the history)
NormT == [mask |-> t.mask, size |-> t.size, max |-> t.max, bad |-> t.bad,
          ind |-> [i \in 1..Cap(t) |-> IF t.ind[i].some THEN [t.ind[i] EXCEPT !.idx = @ + t.ins] ELSE t.ind[i]],
          slots |-> [i \in 1..Len(t.slots) |-> IF t.slots[i].nx.some THEN [t.slots[i] EXCEPT !.nx.idx = @ + t.ins] ELSE t.slots[i]]]
\* (ref is a function of the table while SlotsAreRfcTable holds, so keeping it costs no states)
View == <<NormT, ref, last.op = "resize">>
HistBound == Len(hist) <= MaxOps

(***************************************************************************)
(* Invariants                                                               *)
(***************************************************************************)
NSlots == Len(t.slots)
RealOf(pidx) == pidx + t.ins
InRange(r) == r >= 0 /\ r < NSlots
Poss == {i \in 1..Cap(t) : t.ind[i].some}

NoPanic == t.bad = ""

\* every stored position denotes an existing slot with the same hash; no slot is indexed twice
PositionsValid ==
    /\ \A i \in Poss : InRange(RealOf(t.ind[i].idx)) /\ t.slots[RealOf(t.ind[i].idx) + 1].h = t.ind[i].h
    /\ \A i, j \in Poss : i # j => t.ind[i].idx # t.ind[j].idx

\* next links: to an existing, newer slot with the same name
LinksValid ==
    \A k \in 1..NSlots : t.slots[k].nx.some =>
        LET r == RealOf(t.slots[k].nx.idx) IN
        InRange(r) /\ r + 1 < k /\ t.slots[r + 1].n = t.slots[k].n

\* every slot is reachable: either exactly one position or exactly one next link denotes it
Reachable ==
    \A k \in 1..NSlots :
        LET byPos  == {i \in Poss : RealOf(t.ind[i].idx) = k - 1}
            byLink == {j \in 1..NSlots : t.slots[j].nx.some /\ RealOf(t.slots[j].nx.idx) = k - 1}
        IN Cardinality(byPos) + Cardinality(byLink) = 1

\* robin-hood order: probing from the desired position finds every indexed slot before an empty bucket
\* or a bucket with a smaller displacement
RECURSIVE Finds(_, _, _, _)
Finds(target, p, dist, steps) ==
    IF steps > Cap(t) \/ ~At(t, p).some THEN FALSE
    ELSE IF At(t, p).idx = target THEN TRUE
    ELSE IF ProbeDist(t, At(t, p).h, p) < dist THEN FALSE
    ELSE Finds(target, (p + 1) % Cap(t), dist + 1, steps + 1)
Findable == \A i \in Poss : Finds(t.ind[i].idx, Desired(t, t.ind[i].h), 0, 0)

\* one chain per name (otherwise a lookup could miss an existing entry)
OneChainPerName ==
    \A i, j \in Poss : i # j /\ InRange(RealOf(t.ind[i].idx)) /\ InRange(RealOf(t.ind[j].idx))
        => t.slots[RealOf(t.ind[i].idx) + 1].n # t.slots[RealOf(t.ind[j].idx) + 1].n

SizeOK == t.size = NSlots * EntryLen /\ (t.bad = "" => t.size <= t.max)

\* slots are exactly the RFC 7541 table the peer's decoder builds
SlotsAreRfcTable == t.bad = "" => ref = [k \in 1..NSlots |-> <<t.slots[k].n, t.slots[k].v>>]

\* the Index returned resolves - at the decoder, i.e. against the table before this operation - to the header asked for
NV(sl) == [j \in 1..Len(sl) |-> <<sl[j].n, sl[j].v>>]
ResultOKAt(tt, lst) ==
    lst.op = "index" =>
        LET r  == lst.r
            k  == r.i - DynOffset + 1      \* 1-based slot in `pre`
            hd == lst.hd
            pre == lst.pre
            sl == tt.slots
            front == Len(sl) >= 1 /\ sl[1].n = hd.n /\ sl[1].v = hd.v
        IN CASE r.k = "Indexed"       -> k >= 1 /\ k <= Len(pre) /\ pre[k].n = hd.n /\ pre[k].v = hd.v /\ NV(sl) = NV(pre)
             [] r.k = "Name"          -> k >= 1 /\ k <= Len(pre) /\ pre[k].n = hd.n /\ NV(sl) = NV(pre)
             [] r.k = "InsertedValue" -> k >= 1 /\ k <= Len(pre) /\ pre[k].n = hd.n /\ ~hd.s /\ front
             [] r.k = "Inserted"      -> ~hd.s /\ front
             [] r.k = "NotIndexed"    -> NV(sl) = NV(pre)

ResultOK == ResultOKAt(t, last)
\* `last` is not part of the VIEW, and TLC evaluates invariants only on states it has not seen, so the
\* result of every explored EDGE is checked from an ACTION_CONSTRAINT (evaluated for every successor)
EdgeOK == Assert(ResultOKAt(t', last'), <<"ResultOK violated", last'.hd, last'.r, hist'>>)

IndexInv == NoPanic /\ PositionsValid /\ LinksValid /\ Reachable /\ SizeOK /\ SlotsAreRfcTable /\ ResultOK
\* lookups stay complete (a violation would only cost compression, not correctness)
LookupInv == Findable /\ OneChainPerName
=============================================================================
