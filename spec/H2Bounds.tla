------------------------------ MODULE H2Bounds ------------------------------
(***************************************************************************)
(* State contract of one endpoint E over its guarded statistics snapshot   *)
(* (hook H2, one `stats` event per quiescence) - properties C18 and C19.   *)
(*                                                                         *)
(* C18: what E keeps (stream records, buffered received events, queued     *)
(* frames, replies it owes) is bounded by a function of E's CONFIGURED     *)
(* limits plus what E's own application holds on to - whatever the peer    *)
(* sends.  The bound functions below are closed forms over the             *)
(* configuration (logged in the `cfg` event) and over the application's    *)
(* holdings, which are reconstructed from API events only (never from the  *)
(* snapshot itself).                                                       *)
(* C19: a stream that is closed in both directions on the wire and whose   *)
(* handles are all dropped is forgotten; the concurrency and flow-control  *)
(* bookkeeping returns to the idle values; an idle client connection       *)
(* closes itself.                                                          *)
(*                                                                         *)
(* `w` is the wire contract monitor (H2Wire) of the same endpoint after    *)
(* the same event: its per-stream ledger tells which streams are open on   *)
(* the wire.                                                               *)
(***************************************************************************)
EXTENDS H2Base

NoH == [send |-> FALSE, recv |-> FALSE, push |-> FALSE, calls |-> 0,
        lreset |-> FALSE]     \* the application reset the stream, or dropped its last handle before the stream had closed (implicit cancel)

Init(ep, cfg) ==
    [role |-> ep, cfg |-> cfg,
     h |-> EmptyMap,          \* stream id -> live application handles + number of accepted send calls
     contRun |-> 0,           \* CONTINUATION frames consumed for the header block in progress
     emptyIn |-> 0,           \* empty, non-final DATA frames consumed
     srAlive |-> TRUE,        \* (client) some SendRequest handle is alive
     goIn |-> FALSE,          \* a GOAWAY was received
     lastStore |-> -1,        \* store_len of the latest snapshot
     sdSeen |-> FALSE,        \* transport shut down by E
     goOutNoErr |-> FALSE,    \* E wrote GOAWAY(NO_ERROR)
     v |-> <<>>, hits |-> EmptyMap]

Viol(b, rule, l, sid, info) == [b EXCEPT !.v = Append(b.v, [rule |-> rule, l |-> l, ep |-> b.role, sid |-> sid, info |-> info])]
Hit(b, rule) == [b EXCEPT !.hits = Put(b.hits, rule, Get(b.hits, rule, 0) + 1)]
Check(b, rule, cond, l, sid, info) == IF cond THEN Hit(b, rule) ELSE Viol(Hit(b, rule), rule, l, sid, info)

H(b, s) == Get(b.h, s, NoH)
SetH(b, s, x) == [b EXCEPT !.h = Put(b.h, s, x)]
Live(x) == x.send \/ x.recv \/ x.push


\* ---- wire view of a stream ------------------------------------------------------------------------------
WS(w, s) == IF s \in DOMAIN w.st THEN w.st[s] ELSE [i |-> "idle", o |-> "idle", rstOut |-> 0, surfaced |-> FALSE, resR |-> FALSE, resL |-> FALSE]
\* (a promised stream has one direction only)
ClosedOnWire(x) == x.i = "rst" \/ x.o = "rst" \/ x.rstOut > 0 \/ (x.i = "es" /\ (x.o = "es" \/ x.resR)) \/ (x.resL /\ x.o = "es")
OpenOnWire(x) == ~ClosedOnWire(x) /\ (x.i # "idle" \/ x.o # "idle")

\* ---- application holdings, from API events --------------------------------------------------------------
\* a handle is dropped: if it was the last one and the stream is not closed yet, the library cancels the stream itself
Dropped(b, s, x, w) == SetH(b, s, [x EXCEPT !.lreset = x.lreset \/ (~Live(x) /\ ~ClosedOnWire(WS(w, s)))])
Api(b, e, w) ==
    LET s == e.sid
        x == H(b, s)
        c == e.call
    IN
    IF c = "send_request" /\ e.res = "ok" THEN SetH(b, s, [x EXCEPT !.send = TRUE, !.recv = TRUE, !.calls = x.calls + 1])
    ELSE IF c = "accept" /\ e.res = "some" THEN SetH(b, s, [x EXCEPT !.send = TRUE, !.recv = TRUE])
    ELSE IF c = "poll_push" /\ e.res = "some" THEN SetH(b, e.psid, [H(b, e.psid) EXCEPT !.recv = TRUE])
    ELSE IF c = "push_request" /\ e.res = "ok" THEN SetH(SetH(b, s, [x EXCEPT !.calls = x.calls + 1]), e.psid, [H(b, e.psid) EXCEPT !.send = TRUE])
    ELSE IF c = "hold_push" THEN SetH(b, s, [x EXCEPT !.push = TRUE])
    ELSE IF c = "drop_push" THEN Dropped(b, s, [x EXCEPT !.push = FALSE], w)
    ELSE IF c = "drop_send" THEN Dropped(b, s, [x EXCEPT !.send = FALSE], w)
    ELSE IF c \in {"drop_recv", "drop_resp"} THEN Dropped(b, s, [x EXCEPT !.recv = FALSE], w)
    ELSE IF c = "send_reset" /\ e.res = "ok" THEN SetH(b, s, [x EXCEPT !.calls = x.calls + 1, !.lreset = TRUE])
    ELSE IF c \in {"send_response", "send_data", "send_trailers", "send_info"} /\ e.res = "ok"
    THEN SetH(b, s, [x EXCEPT !.calls = x.calls + 1])
    ELSE IF c = "drop_sr" THEN [b EXCEPT !.srAlive = FALSE]
    ELSE b

\* ---- closed forms over the configuration ----------------------------------------------------------------
Cfg(b) == b.cfg
\* stream records E may keep that its application does not hold:
\*   peer-initiated streams inside the advertised concurrency limit (active, or waiting to be accepted)
\* + locally reset streams remembered for reset_stream_duration (max_concurrent_reset_streams)
\* + streams reset by the peer before the application accepted them (max_pending_accept_reset_streams)
\* + 1 (the stream whose arrival crosses a quota and ends the connection)
UnheldBound(b) == Cfg(b).max_conc + Cfg(b).reset_max + Cfg(b).pending_accept_reset_max + 1
\* received DATA frames E may buffer: every buffered octet is covered by the connection window W; a non-empty frame
\* shorter than 256 octets also consumes (256 - len) of the DATA-frame budget B, which longer frames refill:
\* n_small * 256 <= B + W and n_large * 256 <= W; at most 100 empty frames over the life of the connection
ConnWin(b, w) == Max(Max(65535, Cfg(b).conn_win), w.maxTarget)
DataFramesBound(b, w) == (Cfg(b).data_frame_budget + 2 * ConnWin(b, w)) \div 256 + 100 + 2
\* CONTINUATION frames E reads for one header block before it gives up on the peer
ContBound(b) == 2 * (Cfg(b).max_hdr_list \div Cfg(b).max_frame + 1) + 8
\* replies E owes (SETTINGS acknowledgements, PING acknowledgements) and has not written: E stops reading once one
\* cannot be buffered, so at most what its write buffer holds
OwedBound(b) == 4096

CountIf(seq, P(_)) == Cardinality({j \in 1..Len(seq) : P(seq[j])})

\* ---- the snapshot rules ---------------------------------------------------------------------------------
Stats(b, e, l, w, blocked) ==
    LET s == e.s
        dense == "dense" \in DOMAIN e        \* snapshot between two polls: counters and record ids only
        recs == IF dense THEN <<>> ELSE s.streams
        ids == IF dense THEN s.streams ELSE [j \in 1..Len(s.streams) |-> s.streams[j].id]
        held == CountIf(ids, LAMBDA r : Live(H(b, r)))
        \* streams the peer promised (PUSH_PROMISE) and the application has not been handed yet: judged by a rule of their own
        \* (counted from the wire ledger, not from the id map: a pushed response that is already complete is closed and unlinked
        \*  but its record still waits in the parent's queue for poll_push_promise)
        resv == Cardinality({r \in DOMAIN w.st : r # 0 /\ w.st[r].resR /\ ~w.st[r].surfaced /\ ~Live(H(b, r))})
        \* every record in the slab counts (records unlinked from the id map included); every stream the application holds
        \* a handle of accounts for one of them
        heldStreams == Cardinality({x \in DOMAIN b.h : Live(b.h[x])})
        unheld == s.slab_len - heldStreams - resv
        stray == s.slab_len - s.store_len
        b0 == IF Cfg(b).max_conc >= 0
              THEN Check(b, "C18.store_bound", unheld <= UnheldBound(b), l, 0,
                         IF blocked /\ unheld - stray <= UnheldBound(b)
                         THEN <<"unlinked_records_waiting_for_a_blocked_socket", stray, "bound", UnheldBound(b)>>
                         ELSE <<"slab_len", s.slab_len, "held", heldStreams, "reserved", resv, "bound", UnheldBound(b)>>)
              ELSE b
        b1 == IF Cfg(b).max_conc >= 0 /\ b.role = "c"
              THEN Check(b0, "C18.reserved_bound", resv <= UnheldBound(b), l, 0, <<"promised_streams_not_yet_polled", resv, "bound", UnheldBound(b)>>)
              ELSE b0
        \* buffered received events: per record at most the head, the trailers and one promise/informational slot,
        \* plus the bounded number of DATA frames
        b2 == Check(b1, "C18.recv_buffer_bound", s.recv_buffer_len <= DataFramesBound(b, w) + 3 * s.store_len, l, 0,
                    <<"recv_buffer_len", s.recv_buffer_len, "bound", DataFramesBound(b, w) + 3 * s.store_len>>)
        \* queued frames: what the application itself queued on streams whose END_STREAM / RST_STREAM is not on the wire yet,
        \* plus at most two library-made frames (RST_STREAM, 431) per record
        appQ == LET qs == {r \in DOMAIN b.h : ~(WS(w, r).o \in {"es", "rst"})}
                    F[T \in SUBSET qs] == IF T = {} THEN 0 ELSE LET t == CHOOSE t \in T : TRUE IN b.h[t].calls + F[T \ {t}]
                IN F[qs]
        b3 == Check(b2, "C18.send_buffer_bound", s.send_buffer_len <= 2 * s.store_len + 2 \/ s.send_buffer_len <= appQ + 2 * s.store_len + 2, l, 0,
                    <<"send_buffer_len", s.send_buffer_len, "app", appQ, "store_len", s.store_len>>)
        b4 == Check(b3, "C18.quota_counters",
                    /\ s.num_local_reset_streams <= Cfg(b).reset_max
                    /\ s.num_remote_reset_streams <= Cfg(b).pending_accept_reset_max + 1
                    /\ (Cfg(b).max_conc < 0 \/ s.num_recv_streams <= Cfg(b).max_conc)
                    /\ (Cfg(b).local_error_reset_max < 0 \/ s.num_local_error_reset_streams <= Cfg(b).local_error_reset_max + 1)
                    /\ s.num_recv_empty_data_frames <= 101,
                    l, 0, <<s.num_local_reset_streams, s.num_remote_reset_streams, s.num_recv_streams, s.num_local_error_reset_streams, s.num_recv_empty_data_frames>>)
        \* ---- C19 (only judged on a live, unblocked connection: everything decided is on the wire) ----
        judge == ~dense /\ ~blocked /\ ~w.dead /\ ~w.ended /\ ~w.tainted /\ ~s.conn_error
        \* records of streams that are closed and that the application has let go of
        retained == {j \in 1..Len(recs) : LET r == recs[j] x == WS(w, r.id) IN x.surfaced /\ ~Live(H(b, r.id)) /\ ClosedOnWire(x)}
        \* ... must be gone, unless the endpoint reset the stream itself (the short memory of locally reset streams)
        \* (a record that sits in the reset-expiration queue IS that memory - e.g. a library reset whose RST_STREAM was overtaken by
        \*  the peer's own RST_STREAM and therefore never written; how many there may be is the next rule)
        stale == {j \in retained : LET r == recs[j] x == WS(w, r.id) IN x.rstOut = 0 /\ x.o # "rst" /\ ~H(b, r.id).lreset /\ ~r.reset_at}
        b5a == IF judge
              THEN Check(b4, "C19.forgotten", stale = {}, l, 0, [j \in stale |-> <<recs[j].id, recs[j].state, recs[j].ref_count>>])
              ELSE b4
        b5 == IF judge
              THEN Check(b5a, "C19.reset_memory_bound", Cardinality(retained) <= Cfg(b).reset_max, l, 0, <<Cardinality(retained), Cfg(b).reset_max>>)
              ELSE b5a
        openPeer == Cardinality({x \in DOMAIN w.st : x # 0 /\ ~LocalInit(b.role, x) /\ OpenOnWire(w.st[x])})
        openLocal == Cardinality({x \in DOMAIN w.st : x # 0 /\ LocalInit(b.role, x) /\ OpenOnWire(w.st[x])})
        pendingOpen == CountIf(recs, LAMBDA r : r.is_pending_open)
        b6 == IF judge
              THEN Check(b5, "C19.counts_idle", s.num_recv_streams <= openPeer /\ s.num_send_streams <= openLocal + pendingOpen, l, 0,
                         <<"num_recv_streams", s.num_recv_streams, "open", openPeer, "num_send_streams", s.num_send_streams, "open", openLocal + pendingOpen>>)
              ELSE b5
        \* records unlinked from the id map but still allocated (listed by the hook): each must belong to a stream the
        \* application still holds (closed, unlinked, kept alive by the handle) or be waiting to be handed to the application
        unl == IF dense THEN <<>> ELSE s.unlinked
        unjust == {j \in 1..Len(unl) : LET r == unl[j] IN ~Live(H(b, r.id)) /\ ~(r.is_pending_accept /\ ~WS(w, r.id).surfaced)}
        queued == {j \in unjust : LET r == unl[j] IN r.is_pending_send \/ r.is_pending_send_capacity \/ r.is_pending_window_update
                                                      \/ r.is_pending_open \/ r.is_pending_push \/ r.reset_at}
        b6a == IF judge
               THEN Check(b6, "C19.slab_idle", unjust = {}, l, 0,
                          IF unjust = queued
                          THEN <<"closed_unreferenced_record_lingers_in_an_internal_queue", [j \in unjust |-> unl[j].id]>>
                          ELSE <<"unlinked_record_kept_for_no_reason", [j \in unjust \ queued |-> <<unl[j].id, unl[j].state>>]>>)
               ELSE b6
        b7 == IF judge /\ s.slab_len = 0
              THEN Check(b6a, "C19.flow_idle", s.send_available = s.send_window /\ s.in_flight_data = 0 /\ s.recv_buffer_len = 0 /\ s.send_buffer_len = 0,
                         l, 0, <<s.send_available, s.send_window, s.in_flight_data, s.recv_buffer_len, s.send_buffer_len>>)
              ELSE b6a
    IN [b7 EXCEPT !.lastStore = s.slab_len]

\* ---- frames E consumed --------------------------------------------------------------------------------
In(b, e, l, w) ==
    LET f == e.f
        n == IF f.ty = "CONTINUATION" THEN b.contRun + 1 ELSE 0
        b1 == [b EXCEPT !.contRun = n, !.goIn = b.goIn \/ f.ty = "GOAWAY"]
        \* (frames of the transport read in progress do not count yet: E may have given up on the peer at an earlier frame of the
        \*  same read - its GOAWAY is only written afterwards - while the harness logs every frame it handed over)
        thisRead == Max(0, w.inCount - w.batchStart) + 1
        b2 == IF f.ty = "CONTINUATION" /\ Cfg(b).max_hdr_list >= 0
              THEN Check(b1, "C18.continuation_bound", n - thisRead <= ContBound(b), l, f.sid, <<n, thisRead, ContBound(b)>>)
              ELSE b1
        \* empty DATA frames (padding or not) that do not end a stream carry nothing: an endpoint reads only so many of them
        \* (100 over the life of the connection in this library; the slack covers frames read in the same batch)
        ne == b.emptyIn + (IF f.ty = "DATA" /\ f.dlen = 0 /\ ~f.es /\ f.bad = "" THEN 1 ELSE 0)
        b2a == IF ne > b.emptyIn
               THEN Check([b2 EXCEPT !.emptyIn = ne], "C18.empty_data_bound", ne <= 100 + 64 \/ w.dead \/ w.ended \/ w.goOutN > 0, l, f.sid, ne)
               ELSE b2
        b3 == IF f.ty \in {"PING", "SETTINGS"} /\ ~f.ack
              THEN Check(b2a, "C18.owed_replies_bound", Len(w.owed) + Len(w.pongs) <= OwedBound(b), l, 0, <<Len(w.owed), Len(w.pongs)>>)
              ELSE b2a
    IN b3

\* ---- C19: an idle client connection closes itself -------------------------------------------------------
FinalQ(b, e, l, w) ==
    IF b.role # "c" THEN b
    ELSE
    LET noHandles == \A s \in DOMAIN b.h : ~Live(b.h[s])
        idle == ~b.srAlive /\ noHandles /\ b.lastStore = 0
        clean == ~e.wblocked["c"] /\ ~w.tainted /\ ~w.err /\ ~b.goIn /\ ~w.killed
        b1 == IF idle /\ clean
              THEN Check(b, "C19.idle_close", e.conn["c"] = "done" /\ b.goOutNoErr /\ b.sdSeen, l, 0, <<e.conn["c"], b.goOutNoErr, b.sdSeen>>)
              ELSE b
    IN b1

Step(b, e, l, w) ==
    IF e.t = "api" THEN
        LET b1 == Api(b, e, w) IN
        \* C19: the connection must not complete while the application still holds a request handle or a stream
        IF e.call = "conn_poll" /\ e.res = "ok" /\ b.role = "c" /\ ~b.goIn /\ ~w.tainted /\ ~w.err /\ ~w.killed
        THEN Check(b1, "C19.no_premature_close", ~b.srAlive /\ \A s \in DOMAIN b.h : ~Live(b.h[s]), l, 0,
                   <<b.srAlive, {s \in DOMAIN b.h : Live(b.h[s])}>>)
        ELSE b1
    ELSE IF e.t = "stats" /\ "at" \notin DOMAIN e THEN Stats(b, e, l, w, e.wblocked)
    ELSE IF e.t = "in" THEN In(b, e, l, w)
    ELSE IF e.t = "out" /\ e.f.ty = "GOAWAY" /\ e.f.ch = 0 /\ e.f.cl = 0 THEN [b EXCEPT !.goOutNoErr = TRUE]
    ELSE IF e.t = "sd" THEN [b EXCEPT !.sdSeen = TRUE]
    ELSE IF e.t = "qf" THEN FinalQ(b, e, l, w)
    ELSE b
=============================================================================
