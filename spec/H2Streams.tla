------------------------------ MODULE H2Streams ------------------------------
(***************************************************************************)
(* IMPLEMENTATION layer: how a SERVER-role h2 connection keeps stream      *)
(* records - src/proto/streams/{streams,recv,send,counts,state,store,      *)
(* stream,prioritize}.rs and src/proto/connection.rs.                      *)
(*                                                                         *)
(* One action per critical section (one hold of the `Inner` mutex), named  *)
(* after the function that takes the lock.  The operators below are        *)
(* written as functions on a "machine" record G = the fields the code      *)
(* keeps (projected), so that a critical section that calls several        *)
(* helpers is the composition of the helpers' operators, in the order of   *)
(* the code:                                                               *)
(*   G.rec[k]  one stream record (a slab slot)                             *)
(*       state        state.rs `Inner` (server side: remote half is always *)
(*                    Streaming once open)                                 *)
(*       inSlab       the slab slot is occupied (Store.slab)               *)
(*       linked       Store.ids maps the stream id to this record          *)
(*       isCounted, isPendingAccept, isPendingSend, refCount, resetAt      *)
(*       due          (model time) reset_at is older than reset_duration   *)
(*       pendingSend  stream.pending_send: the frames queued on the stream *)
(*   G.cn      Counts + the connection-level fields of Recv                *)
(*   G.qA/qS/qR  Recv.pending_accept, Prioritize.pending_send,             *)
(*             Recv.pending_reset_expired (FIFO queues of store keys)      *)
(*   G.out     frames handed to the codec by this critical section         *)
(*   G.ok      FALSE once an assert!/panic of the code would fire or a     *)
(*             store::Key is resolved whose record has been removed        *)
(*   G.err     connection error (GOAWAY code) raised by the section, -1    *)
(*                                                                         *)
(* Keys: a stream id can have SEVERAL records over time and even at the    *)
(* same time: the record created by recv_headers (slot 0, "main") and      *)
(* records created by Inner::send_reset on a vacant id (`Stream::new(id,   *)
(* 0,0)`, slots 1..NTomb, "tombstones": a library reset of a stream the    *)
(* store no longer - or never - knew).  Store::ids maps an id to at most   *)
(* one of them; Ptr::unlink removes the id's entry WHATEVER record it      *)
(* points to (modelled as written).                                        *)
(*                                                                         *)
(* Deliberate abstractions (none changes which records exist / counters):  *)
(*  - flow control, content-length, the recv buffer, wakers: not modelled  *)
(*    (H2Recv / H2Send cover flow control); DATA the application sends is  *)
(*    empty or fits the windows, so buffered_send_data returns to 0 when   *)
(*    the frame is popped and is_pending_send_capacity /                   *)
(*    is_pending_window_update / is_pending_open / is_pending_push stay    *)
(*    false (the conformance driver checks that they do);                  *)
(*  - the DATA-frame budget and the empty-DATA-frame quota are not reached;*)
(*  - time: a Tick lets MORE than reset_duration elapse at once: every     *)
(*    record queued in pending_reset_expired at that moment becomes due;   *)
(*  - slab index reuse (the ABA guard of store::Key) is not modelled: any  *)
(*    resolve of a key whose record was removed is an error state;         *)
(*  - GOAWAY received from the peer, graceful shutdown, PUSH_PROMISE,      *)
(*    SETTINGS changes of the limits: out of scope.                        *)
(***************************************************************************)
EXTENDS H2Base, TLC

CONSTANTS Streams,                \* client-initiated stream ids the peer may use, e.g. {1, 3, 5}
          NTomb,                  \* tombstone slots per stream id (model bound; see CanTomb)
          MaxConc,                \* SETTINGS_MAX_CONCURRENT_STREAMS advertised (Counts.max_recv_streams)
          ResetMax,               \* max_concurrent_reset_streams (Counts.max_local_reset_streams)
          PendingAcceptResetMax,  \* max_pending_accept_reset_streams (Counts.max_remote_reset_streams)
          ErrorResetMax           \* max_local_error_reset_streams (Some(n)); lifetime quota

VARIABLES rec, cn, qAccept, qSend, qReset,
          app,     \* application handles per stream id: [recv, resp, send : BOOLEAN, tried : BOOLEAN]
          evs,     \* frames written by the last action (observation)
          okS      \* FALSE: assert!/panic/stale key

svars == <<rec, cn, qAccept, qSend, qReset, app, evs, okS>>

Slots == 0..NTomb
Keys == Streams \X Slots
NoKey == <<0, 0>>
Main(s) == <<s, 0>>

\* ---- state.rs ----------------------------------------------------------------------------
\* k: Idle | Open | HalfClosedRemote | HalfClosedLocal | Closed ; l: local half AwaitingHeaders "AH" / Streaming "S"
\* cause (Closed): EndStream | Reset (Error(Reset(id, reason, init))) | ResetAfterES (ErrorAfterEndStream(Reset..))
\*                 | Sched (ScheduledLibraryReset(reason)) | GoAway (Error(GoAway(_, reason, Library))) | Io (Error(Io(BrokenPipe)))
StIdle == [k |-> "Idle", l |-> "-", cause |-> "-", reason |-> 0, init |-> "-"]
StOpen(l) == [StIdle EXCEPT !.k = "Open", !.l = l]
StHCR(l) == [StIdle EXCEPT !.k = "HalfClosedRemote", !.l = l]
StHCL == [StIdle EXCEPT !.k = "HalfClosedLocal"]
StClosedES == [StIdle EXCEPT !.k = "Closed", !.cause = "EndStream"]
StClosedReset(afterES, reason, init) == [k |-> "Closed", l |-> "-", cause |-> IF afterES THEN "ResetAfterES" ELSE "Reset", reason |-> reason, init |-> init]
StClosedSched(reason) == [k |-> "Closed", l |-> "-", cause |-> "Sched", reason |-> reason, init |-> "-"]
StClosedGoAway(reason) == [k |-> "Closed", l |-> "-", cause |-> "GoAway", reason |-> reason, init |-> "Library"]
StClosedIo == [k |-> "Closed", l |-> "-", cause |-> "Io", reason |-> 0, init |-> "-"]

IsClosedSt(st) == st.k = "Closed"                                              \* State::is_closed
IsSchedSt(st) == st.k = "Closed" /\ st.cause = "Sched"                         \* is_scheduled_reset
IsResetSt(st) == st.k = "Closed" /\ st.cause # "EndStream"                     \* is_reset
IsLocalErrorSt(st) == st.k = "Closed" /\                                       \* is_local_error
    \/ st.cause \in {"Reset", "ResetAfterES", "GoAway"} /\ st.init \in {"User", "Library"}
    \/ st.cause \in {"Io", "Sched"}
IsRemoteResetSt(st) == st.k = "Closed" /\ st.cause \in {"Reset", "ResetAfterES"} /\ st.init = "Remote"   \* is_remote_reset
IsRecvEndStreamSt(st) == st.k = "HalfClosedRemote" \/ (st.k = "Closed" /\ st.cause \in {"EndStream", "ResetAfterES"})
IsRecvStreamingSt(st) == st.k \in {"Open", "HalfClosedLocal"}                  \* remote half Streaming
IsSendStreamingSt(st) == st.k \in {"Open", "HalfClosedRemote"} /\ st.l = "S"
IsSendClosedSt(st) == st.k \in {"Closed", "HalfClosedLocal"}
IsRecvHeadersSt(st) == st.k = "Idle"                                           \* (remote: AwaitingHeaders does not occur on a server)

\* ---- stream.rs / store.rs ---------------------------------------------------------------------
NoRec == [state |-> StIdle, inSlab |-> FALSE, linked |-> FALSE, isCounted |-> FALSE, isPendingAccept |-> FALSE,
          isPendingSend |-> FALSE, refCount |-> 0, resetAt |-> FALSE, due |-> FALSE, pendingSend |-> <<>>]
NewRec == [NoRec EXCEPT !.inSlab = TRUE, !.linked = TRUE]      \* Stream::new + Store::insert / VacantEntry::insert

IsClosedR(r) == IsClosedSt(r.state) /\ r.pendingSend = <<>>                    \* Stream::is_closed (buffered_send_data = 0)
IsReleasedR(r) == IsClosedR(r) /\ r.refCount = 0 /\ ~r.isPendingSend /\ ~r.isPendingAccept /\ ~r.resetAt   \* Stream::is_released

\* frames queued on a stream / written to the codec
FHeaders(es) == [ty |-> "HEADERS", es |-> es, code |-> 0]
FData(es) == [ty |-> "DATA", es |-> es, code |-> 0]
FRst(code) == [ty |-> "RST_STREAM", es |-> FALSE, code |-> code]
Wire(s, f) == [ty |-> f.ty, sid |-> s, es |-> f.es, code |-> f.code, last |-> 0]
WireGoAway(last, code) == [ty |-> "GOAWAY", sid |-> 0, es |-> FALSE, code |-> code, last |-> last]

\* ---- the machine record -------------------------------------------------------------------------
Cur == [rec |-> rec, cn |-> cn, qA |-> qAccept, qS |-> qSend, qR |-> qReset, out |-> <<>>, ok |-> okS, err |-> -1]
Commit(G) ==
    /\ rec' = G.rec /\ cn' = G.cn /\ qAccept' = G.qA /\ qSend' = G.qS /\ qReset' = G.qR
    /\ evs' = G.out /\ okS' = G.ok

Fail(G) == [G EXCEPT !.ok = FALSE]
\* Store::resolve(key) / Index<Key>: "dangling store key" panic when the record is gone
Deref(G, k) == IF G.rec[k].inSlab THEN G ELSE Fail(G)
\* Store::find_mut / find_entry: the record Store.ids maps the id to
LinkedKey(G, s) == IF \E k \in Keys : k[1] = s /\ G.rec[k].linked
                   THEN CHOOSE k \in Keys : k[1] = s /\ G.rec[k].linked ELSE NoKey
\* Ptr::unlink: ids.swap_remove(&self.key.stream_id) - by ID, whichever record the id maps to
Unlink(G, s) == [G EXCEPT !.rec = [k \in Keys |-> IF k[1] = s THEN [G.rec[k] EXCEPT !.linked = FALSE] ELSE G.rec[k]]]

\* ---- counts.rs ------------------------------------------------------------------------------------
CanIncRecv(G) == MaxConc > G.cn.numRecv
CanIncReset(G) == ResetMax > G.cn.numLocalReset
CanIncRemoteReset(G) == PendingAcceptResetMax > G.cn.numRemoteReset
CanIncLocalError(G) == ErrorResetMax > G.cn.numLocalErrorReset
DecNumStreams(G, k) == IF G.cn.numRecv > 0 /\ G.rec[k].isCounted
                       THEN [G EXCEPT !.cn.numRecv = @ - 1, !.rec[k].isCounted = FALSE] ELSE Fail(G)
DecNumResetStreams(G) == IF G.cn.numLocalReset > 0 THEN [G EXCEPT !.cn.numLocalReset = @ - 1] ELSE Fail(G)
DecNumRemoteReset(G) == IF G.cn.numRemoteReset > 0 THEN [G EXCEPT !.cn.numRemoteReset = @ - 1] ELSE Fail(G)

\* Counts::transition_after(stream, is_reset_counted)
TransitionAfter(G, k, isResetCounted) ==
    LET r == G.rec[k]
        closed == IsClosedR(r)
        \* (since fix "un-count a locally reset stream when it leaves the expiration queue": the decrement no longer
        \*  depends on the stream being closed - the RST_STREAM may still be queued when the reset expires)
        G0 == IF isResetCounted /\ ~r.resetAt THEN DecNumResetStreams(G) ELSE G
        G1 == IF closed /\ ~r.resetAt THEN Unlink(G0, k[1]) ELSE G0
        G2 == IF closed /\ ~IsSchedSt(r.state) /\ r.isCounted THEN DecNumStreams(G1, k) ELSE G1
        G3 == IF IsReleasedR(G2.rec[k]) THEN [G2 EXCEPT !.rec[k] = NoRec] ELSE G2      \* Ptr::remove: the slab slot is freed
    IN G3

\* ---- prioritize.rs ----------------------------------------------------------------------------------
ScheduleSend(G, k) == IF G.rec[k].isPendingSend THEN G
                      ELSE [G EXCEPT !.rec[k].isPendingSend = TRUE, !.qS = Append(@, k)]
QueueFrame(G, k, f) == ScheduleSend([G EXCEPT !.rec[k].pendingSend = Append(@, f)], k)
ClearQueue(G, k) == [G EXCEPT !.rec[k].pendingSend = <<>>]

\* ---- recv.rs: enqueue_reset_expiration ------------------------------------------------------------------
EnqueueResetExpiration(G, k) ==
    LET r == G.rec[k] IN
    IF ~IsLocalErrorSt(r.state) \/ r.resetAt THEN G
    ELSE IF CanIncReset(G)
         THEN [G EXCEPT !.cn.numLocalReset = @ + 1, !.rec[k].resetAt = TRUE, !.rec[k].due = FALSE, !.qR = Append(@, k)]
         ELSE G           \* "dropped, over max_concurrent_reset_streams"

\* ---- send.rs: Send::send_reset ------------------------------------------------------------------------------
SendSendReset(G, k, reason, init) ==
    LET r == G.rec[k]
        isReset == IsResetSt(r.state)
        isClosed == IsClosedSt(r.state)
        isEmpty == r.pendingSend = <<>>
    IN IF isReset THEN G                               \* don't double reset
       ELSE LET G1 == [G EXCEPT !.rec[k].state = StClosedReset(FALSE, reason, init)]       \* stream.set_reset
            IN IF isClosed /\ isEmpty THEN G1          \* closed and flushed: no explicit RST_STREAM
               ELSE QueueFrame(ClearQueue(G1, k), k, FRst(reason))

\* Send::schedule_implicit_reset
ScheduleImplicitReset(G, k, reason) ==
    IF IsClosedSt(G.rec[k].state) THEN G
    ELSE ScheduleSend([G EXCEPT !.rec[k].state = StClosedSched(reason)], k)

\* ---- streams.rs: Actions::reset_on_recv_stream_err (res = Err(Reset(id, reason, Library))) ------------------
ResetOnRecvStreamErr(G, k, reason) ==
    IF CanIncLocalError(G)
    THEN EnqueueResetExpiration(SendSendReset([G EXCEPT !.cn.numLocalErrorReset = @ + 1], k, reason, "Library"), k)
    ELSE [G EXCEPT !.err = ENHANCE_YOUR_CALM]          \* "too_many_internal_resets"

\* Actions::send_reset inside counts.transition
ActionsSendReset(G, k, reason, init) ==
    LET wasReset == G.rec[k].resetAt
        body == IF init = "Library" /\ ~CanIncLocalError(G) THEN [G EXCEPT !.err = ENHANCE_YOUR_CALM]
                ELSE LET G1 == IF init = "Library" THEN [G EXCEPT !.cn.numLocalErrorReset = @ + 1] ELSE G
                     IN EnqueueResetExpiration(SendSendReset(G1, k, reason, init), k)
    IN TransitionAfter(body, k, wasReset)

\* a free tombstone slot for id s (model bound: the action that needs one is disabled when none is free)
FreeTomb(G, s) == {i \in 1..NTomb : ~G.rec[<<s, i>>].inSlab}
CanTomb(G, s) == LinkedKey(G, s) # NoKey \/ FreeTomb(G, s) # {}
\* Inner::send_reset(id, reason): the library resets a stream by ID (handle_poll2_result on Err(Error::Reset(.., Library)))
InnerSendReset(G, s, reason) ==
    LET k0 == LinkedKey(G, s)
        kt == <<s, CHOOSE i \in FreeTomb(G, s) : \A j \in FreeTomb(G, s) : i <= j>>
        k == IF k0 # NoKey THEN k0 ELSE kt
        G1 == IF k0 # NoKey THEN G
              ELSE \* Entry::Vacant: recv.maybe_reset_next_stream_id(id); e.insert(Stream::new(id, 0, 0))
                   [G EXCEPT !.cn.nextId = IF s >= @ THEN s + 2 ELSE @, !.rec[kt] = NewRec]
    IN ActionsSendReset(G1, k, reason, "Library")

\* DynConnection::handle_go_away -> Streams::handle_error on every record reachable through Store.ids, conn_error = Some
RECURSIVE HandleErrorKeys(_, _, _)
HandleErrorKeys(G, ks, code) ==
    IF ks = {} THEN G
    ELSE LET k == CHOOSE x \in ks : TRUE
             r == G.rec[k]
             G1 == IF IsClosedSt(r.state) THEN G ELSE [G EXCEPT !.rec[k].state = StClosedGoAway(code)]   \* recv.handle_error
             G2 == ClearQueue(G1, k)                                                                     \* send.handle_error
         IN HandleErrorKeys(TransitionAfter(G2, k, r.resetAt), ks \ {k}, code)
LinkedKeys(G) == {k \in Keys : G.rec[k].linked}

\* what the connection does with the result of a critical section that ran in Connection::poll:
\* Err(GoAway) => handle_go_away: handle_error on all streams, GOAWAY(last_processed_id, code) written, the connection ends
Finish(G) ==
    IF G.err < 0 THEN G
    ELSE LET H == HandleErrorKeys(G, LinkedKeys(G), G.err)
         IN [H EXCEPT !.cn.connErr = TRUE, !.cn.goAway = G.err, !.out = Append(@, WireGoAway(G.cn.lastProcessedId, G.err))]

\* ---- initial state -----------------------------------------------------------------------------------------
NoApp == [recv |-> FALSE, resp |-> FALSE, send |-> FALSE, tried |-> FALSE]
Init0 ==
    /\ rec = [k \in Keys |-> NoRec]
    /\ cn = [numRecv |-> 0, numLocalReset |-> 0, numRemoteReset |-> 0, numLocalErrorReset |-> 0,
             nextId |-> 1, lastProcessedId |-> 0, refused |-> 0, goAway |-> -1, connErr |-> FALSE, dropped |-> FALSE,
             refusedEver |-> {}]                      \* refusedEver: ghost (ids answered with REFUSED_STREAM)
    /\ qAccept = <<>> /\ qSend = <<>> /\ qReset = <<>>
    /\ app = [s \in Streams |-> NoApp]
    /\ evs = <<>> /\ okS = TRUE

ConnAlive == ~cn.connErr /\ ~cn.dropped
\* Connection::poll_ready runs send_pending_refusal before every recv_frame (Recv::open asserts refused.is_none())
CanRecv == ConnAlive /\ cn.refused = 0

\* ---- peer frames (connection task: Connection::poll2 -> recv_frame) ----------------------------------------------
\* HEADERS (well-formed request / trailers) on stream s
RecvHeaders(s, eos) ==
    /\ CanRecv
    /\ LET G == Cur
           k0 == LinkedKey(G, s)
       IN IF k0 = NoKey
          THEN \* Entry::Vacant: Recv::open
               IF s < G.cn.nextId
               THEN Commit(Finish([G EXCEPT !.err = PROTOCOL_ERROR]))                 \* "id < next_id": connection error
               ELSE LET G1 == [G EXCEPT !.cn.nextId = s + 2] IN
                    IF ~CanIncRecv(G1)
                    THEN Commit([G1 EXCEPT !.cn.refused = s, !.cn.refusedEver = @ \cup {s}])    \* refused: no record
                    ELSE \* insert; counts.transition { recv.recv_headers }: Idle -> Open / HalfClosedRemote, counted, pending_accept
                         LET k == Main(s)
                             G2 == [G1 EXCEPT !.rec[k] = [NewRec EXCEPT !.state = IF eos THEN StHCR("AH") ELSE StOpen("AH"),
                                                                       !.isCounted = TRUE, !.isPendingAccept = TRUE],
                                              !.cn.numRecv = @ + 1,
                                              !.cn.lastProcessedId = IF s > @ THEN s ELSE @,
                                              !.qA = Append(@, k)]
                         IN Commit(TransitionAfter(G2, k, FALSE))
          ELSE LET r == G.rec[k0] IN
               IF IsLocalErrorSt(r.state) THEN Commit(G)                              \* locally reset: frame ignored (no transition)
               ELSE LET body ==
                        IF IsRecvHeadersSt(r.state) THEN Fail(G)                      \* a linked Idle record is never observable
                        ELSE IF ~eos THEN ResetOnRecvStreamErr(G, k0, PROTOCOL_ERROR) \* trailers without END_STREAM: stream error
                        ELSE \* recv_trailers: state.recv_close()
                             IF r.state.k = "Open" THEN [G EXCEPT !.rec[k0].state = StHCR(r.state.l)]
                             ELSE IF r.state.k = "HalfClosedLocal" THEN [G EXCEPT !.rec[k0].state = StClosedES]
                             ELSE [G EXCEPT !.err = PROTOCOL_ERROR]                   \* recv_close in unexpected state
                    IN Commit(Finish(TransitionAfter(body, k0, r.resetAt)))

\* HEADERS whose header block is malformed: the codec returns Err(Reset(id, PROTOCOL_ERROR, Library)) and
\* handle_poll2_result calls Streams::send_reset(id) - also for an id the store never saw
RecvMalformedHeaders(s) ==
    /\ CanRecv /\ CanTomb(Cur, s)
    /\ Commit(Finish(InnerSendReset(Cur, s, PROTOCOL_ERROR)))

\* DATA on stream s
RecvData(s, eos) ==
    /\ CanRecv
    /\ LET G == Cur
           k0 == LinkedKey(G, s)
       IN IF k0 = NoKey
          THEN IF s < G.cn.nextId                                                  \* may_have_forgotten_stream
               THEN /\ CanTomb(G, s)
                    /\ Commit(Finish(InnerSendReset(G, s, STREAM_CLOSED)))         \* Err(library_reset(id, STREAM_CLOSED)) -> send_reset(id)
               ELSE Commit(Finish([G EXCEPT !.err = PROTOCOL_ERROR]))              \* idle stream
          ELSE LET r == G.rec[k0]
                   body == IF IsLocalErrorSt(r.state) THEN G                       \* ignore_data
                           ELSE IF ~IsRecvStreamingSt(r.state) THEN [G EXCEPT !.err = PROTOCOL_ERROR]   \* "unexpected DATA frame"
                           ELSE IF ~eos THEN G
                           ELSE IF r.state.k = "Open" THEN [G EXCEPT !.rec[k0].state = StHCR(r.state.l)]
                           ELSE [G EXCEPT !.rec[k0].state = StClosedES]
               IN Commit(Finish(TransitionAfter(body, k0, r.resetAt)))

\* RST_STREAM on stream s
RecvReset(s) ==
    /\ CanRecv
    /\ LET G == Cur
           k0 == LinkedKey(G, s)
       IN IF k0 = NoKey
          THEN IF s >= G.cn.nextId THEN Commit(Finish([G EXCEPT !.err = PROTOCOL_ERROR]))     \* ensure_not_idle
               ELSE Commit(G)
          ELSE LET r == G.rec[k0]
                   \* (since fix "count a remote reset of a not yet accepted stream only when it takes effect")
                   queued == r.isPendingSend \/ r.pendingSend # <<>>    \* (since fix 52952f2; in this model frames queued => scheduled, flow control is abstracted)
                   becomes == ~IsRemoteResetSt(r.state) /\ ~(IsClosedSt(r.state) /\ ~queued)
                   over == r.isPendingAccept /\ becomes /\ ~CanIncRemoteReset(G)
                   G1 == IF r.isPendingAccept /\ becomes /\ ~over THEN [G EXCEPT !.cn.numRemoteReset = @ + 1] ELSE G
                   \* State::recv_reset(frame, queued = stream.is_pending_send)
                   st2 == IF IsClosedSt(r.state) /\ ~queued THEN r.state
                          ELSE StClosedReset(IsRecvEndStreamSt(r.state), CANCEL, "Remote")
                   body == IF over THEN [G EXCEPT !.err = ENHANCE_YOUR_CALM]                  \* "too_many_resets"
                           ELSE ClearQueue([G1 EXCEPT !.rec[k0].state = st2], k0)             \* + send.handle_error
               IN Commit(Finish(TransitionAfter(body, k0, r.resetAt)))

\* ---- connection task: writing -----------------------------------------------------------------------------------
\* Recv::send_pending_refusal
SendPendingRefusal ==
    /\ ConnAlive /\ cn.refused # 0
    /\ Commit([Cur EXCEPT !.out = <<Wire(cn.refused, FRst(REFUSED_STREAM))>>, !.cn.refused = 0])

\* Prioritize::pop_frame: one call (loops over streams that have nothing to send)
RECURSIVE PopLoop(_)
PopLoop(G) ==
    IF G.qS = <<>> THEN G
    ELSE LET k == Head(G.qS)
             G0 == [Deref(G, k) EXCEPT !.qS = Tail(@), !.rec[k].isPendingSend = FALSE]
             r == G0.rec[k]
             wasReset == r.resetAt
         IN IF r.pendingSend # <<>>
            THEN LET f == Head(r.pendingSend) IN
                 IF f.ty = "DATA" /\ IsSchedSt(r.state) /\ r.state.reason # NO_ERROR
                 THEN \* a reset is scheduled: discard the buffered DATA, requeue; the None arm emits the RST_STREAM later
                      PopLoop(ScheduleSend(ClearQueue(G0, k), k))
                 ELSE LET G1 == [G0 EXCEPT !.rec[k].pendingSend = Tail(@), !.out = Append(@, Wire(k[1], f))]
                          G2 == IF G1.rec[k].pendingSend # <<>> \/ IsSchedSt(G1.rec[k].state) THEN ScheduleSend(G1, k) ELSE G1
                      IN TransitionAfter(G2, k, wasReset)
            ELSE IF IsSchedSt(r.state)
                 THEN \* stream.set_reset(reason, Library); Frame::Reset
                      LET G1 == [G0 EXCEPT !.rec[k].state = StClosedReset(FALSE, r.state.reason, "Library"),
                                           !.out = Append(@, Wire(k[1], FRst(r.state.reason)))]
                      IN TransitionAfter(G1, k, wasReset)
                 ELSE \* "removing dangling stream from pending_send"
                      PopLoop(TransitionAfter(G0, k, wasReset))
PopFrame ==
    /\ ConnAlive /\ qSend # <<>>
    /\ Commit(PopLoop(Cur))

\* Recv::clear_expired_reset_streams (start of every Connection::poll)
RECURSIVE ClearExpiredLoop(_)
ClearExpiredLoop(G) ==
    IF G.qR = <<>> THEN G
    ELSE LET k == Head(G.qR)
             D == Deref(G, k)
         IN IF ~D.rec[k].due THEN G
            ELSE ClearExpiredLoop(TransitionAfter([D EXCEPT !.qR = Tail(@), !.rec[k].resetAt = FALSE, !.rec[k].due = FALSE], k, TRUE))
ResetDue == qReset # <<>> /\ rec[Head(qReset)].due
ClearExpiredResetStreams ==
    /\ ConnAlive /\ ResetDue
    /\ Commit(ClearExpiredLoop(Cur))

\* more than reset_stream_duration elapses
Tick ==
    /\ \E i \in 1..Len(qReset) : ~rec[qReset[i]].due
    /\ rec' = [k \in Keys |-> IF rec[k].resetAt THEN [rec[k] EXCEPT !.due = TRUE] ELSE rec[k]]
    /\ evs' = <<>>
    /\ UNCHANGED <<cn, qAccept, qSend, qReset, app, okS>>

\* ---- application ------------------------------------------------------------------------------------------------------
\* Streams::next_incoming + StreamRef::take_request + clone_to_opaque (server::Connection::poll_accept)
Accept ==
    /\ ConnAlive /\ qAccept # <<>>
    /\ LET k == Head(qAccept)
           G0 == [Deref(Cur, k) EXCEPT !.qA = Tail(@), !.rec[k].isPendingAccept = FALSE]
           G1 == IF IsRemoteResetSt(G0.rec[k].state) THEN DecNumRemoteReset(G0) ELSE G0
           G2 == [G1 EXCEPT !.rec[k].refCount = @ + 2]          \* SendResponse (StreamRef) + RecvStream (OpaqueStreamRef)
       IN /\ Commit(G2)
          /\ app' = [app EXCEPT ![k[1]] = [recv |-> TRUE, resp |-> TRUE, send |-> FALSE, tried |-> FALSE]]

\* SendResponse::send_response -> StreamRef::send_response; on success a SendStream (one more StreamRef) is returned
SendResponse(s, eos) ==
    /\ app[s].resp /\ ~app[s].tried
    /\ LET k == Main(s)
           G == Deref(Cur, k)
           r == G.rec[k]
           okOpen == r.state.k \in {"Open", "HalfClosedRemote"} /\ r.state.l = "AH"           \* State::send_open
           st2 == IF r.state.k = "Open" THEN (IF eos THEN StHCL ELSE StOpen("S"))
                  ELSE (IF eos THEN StClosedES ELSE StHCR("S"))
           body == IF okOpen THEN QueueFrame([G EXCEPT !.rec[k].state = st2], k, FHeaders(eos)) ELSE G
           G2 == TransitionAfter(body, k, r.resetAt)
           G3 == IF okOpen THEN [Deref(G2, k) EXCEPT !.rec[k].refCount = @ + 1] ELSE G2       \* SendStream::new(self.inner.clone())
       IN /\ Commit(G3)
          /\ app' = [app EXCEPT ![s].tried = TRUE, ![s].send = okOpen]

\* SendStream::send_data (empty payload)
SendData(s, eos) ==
    /\ app[s].send
    /\ LET k == Main(s)
           G == Deref(Cur, k)
           r == G.rec[k]
           okSend == IsSendStreamingSt(r.state)
           st2 == IF ~eos THEN r.state ELSE IF r.state.k = "Open" THEN StHCL ELSE StClosedES   \* State::send_close
           body == IF okSend THEN QueueFrame([G EXCEPT !.rec[k].state = st2], k, FData(eos)) ELSE G
       IN Commit(TransitionAfter(body, k, r.resetAt))
    /\ UNCHANGED app

\* SendResponse::send_reset / SendStream::send_reset (Initiator::User)
SendReset(s) ==
    /\ app[s].resp \/ app[s].send
    /\ Commit(ActionsSendReset(Deref(Cur, Main(s)), Main(s), CANCEL, "User"))
    /\ UNCHANGED app

\* drop_stream_ref (OpaqueStreamRef::drop) for one handle of the main record of s
DropStreamRef(G, k) ==
    LET D == Deref(G, k)
        D1 == IF D.rec[k].refCount > 0 THEN [D EXCEPT !.rec[k].refCount = @ - 1] ELSE Fail(D)     \* ref_dec
        r == D1.rec[k]
        \* maybe_cancel
        reason == IF IsSendClosedSt(r.state) /\ IsRecvStreamingSt(r.state) THEN NO_ERROR ELSE CANCEL
        body == IF r.refCount = 0 /\ ~IsClosedSt(r.state)                                         \* is_canceled_interest
                THEN EnqueueResetExpiration(ScheduleImplicitReset(D1, k, reason), k)
                ELSE D1
    IN TransitionAfter(body, k, r.resetAt)
DropHandle(s, h) ==
    /\ app[s][h]
    /\ Commit(DropStreamRef(Cur, Main(s)))
    /\ app' = [app EXCEPT ![s][h] = FALSE]
\* the response writer task ends: SendStream (if any) and SendResponse are dropped back to back
DropSendSide(s) ==
    /\ app[s].resp
    /\ LET G1 == IF app[s].send THEN DropStreamRef(Cur, Main(s)) ELSE Cur
       IN Commit(DropStreamRef(G1, Main(s)))
    /\ app' = [app EXCEPT ![s].resp = FALSE, ![s].send = FALSE]

\* ---- end of the connection -------------------------------------------------------------------------------------------------
\* Streams::recv_eof(clear_pending_accept): Inner::recv_eof + Actions::clear_queues
RECURSIVE RecvEofKeys(_, _)
RecvEofKeys(G, ks) ==
    IF ks = {} THEN G
    ELSE LET k == CHOOSE x \in ks : TRUE
             r == G.rec[k]
             G1 == IF IsClosedSt(r.state) THEN G ELSE [G EXCEPT !.rec[k].state = StClosedIo]
         IN RecvEofKeys(TransitionAfter(ClearQueue(G1, k), k, r.resetAt), ks \ {k})
RECURSIVE ClearAllReset(_)
ClearAllReset(G) == IF G.qR = <<>> THEN G
                    ELSE LET k == Head(G.qR)
                         IN ClearAllReset(TransitionAfter([Deref(G, k) EXCEPT !.qR = Tail(@), !.rec[k].resetAt = FALSE, !.rec[k].due = FALSE], k, TRUE))
RECURSIVE ClearAllAccept(_)
ClearAllAccept(G) == IF G.qA = <<>> THEN G
                     ELSE LET k == Head(G.qA)
                          IN ClearAllAccept(TransitionAfter([Deref(G, k) EXCEPT !.qA = Tail(@), !.rec[k].isPendingAccept = FALSE], k, FALSE))
RECURSIVE ClearPendingSend(_)
ClearPendingSend(G) == IF G.qS = <<>> THEN G
                       ELSE LET k == Head(G.qS)
                                G0 == [Deref(G, k) EXCEPT !.qS = Tail(@), !.rec[k].isPendingSend = FALSE]
                                r == G0.rec[k]
                                G1 == IF IsSchedSt(r.state) THEN [G0 EXCEPT !.rec[k].state = StClosedReset(FALSE, r.state.reason, "Library")] ELSE G0
                            IN ClearPendingSend(TransitionAfter(G1, k, r.resetAt))
RecvEof(G, clearAccept) ==
    LET G1 == RecvEofKeys(G, LinkedKeys(G))
        G2 == ClearAllReset(G1)
        G3 == IF clearAccept THEN ClearAllAccept(G2) ELSE G2
    IN ClearPendingSend(G3)

\* the peer closes the transport cleanly: recv_frame(None) -> recv_eof(false); the connection future completes
PeerEof ==
    /\ CanRecv
    /\ Commit([RecvEof(Cur, FALSE) EXCEPT !.cn.connErr = TRUE])
\* Drop for Connection: recv_eof(true) (the application drops the connection after it completed / failed)
ConnDrop ==
    /\ cn.connErr /\ ~cn.dropped
    /\ Commit([RecvEof(Cur, TRUE) EXCEPT !.cn.dropped = TRUE])

\* ---- derived quantities and invariants of the implementation state ------------------------------------------------------------
SlabKeys == {k \in Keys : rec[k].inSlab}
SlabLen == Cardinality(SlabKeys)                                   \* Store.slab.len()
StoreLen == Cardinality({k \in Keys : rec[k].linked})              \* Store.ids.len()
InSeq(q, k) == \E i \in 1..Len(q) : q[i] = k
Held == {k \in Keys : rec[k].refCount > 0}

NoAssert == okS
\* the counters agree with the records
CountersConsistent ==
    /\ cn.numRecv = Cardinality({k \in Keys : rec[k].inSlab /\ rec[k].isCounted})
    /\ cn.numLocalReset = Cardinality({k \in Keys : rec[k].inSlab /\ rec[k].resetAt})
    /\ cn.numRemoteReset = Cardinality({k \in Keys : rec[k].inSlab /\ rec[k].isPendingAccept /\ IsRemoteResetSt(rec[k].state)})
CountersBounded ==
    /\ cn.numRecv <= MaxConc /\ cn.numLocalReset <= ResetMax
    /\ cn.numRemoteReset <= PendingAcceptResetMax /\ cn.numLocalErrorReset <= ErrorResetMax
\* queue flags agree with queue membership; nothing removed is queued or linked; one record per id in Store.ids
Structure ==
    /\ \A k \in Keys : /\ rec[k].isPendingAccept = InSeq(qAccept, k)
                       /\ rec[k].isPendingSend = InSeq(qSend, k)
                       /\ rec[k].resetAt = InSeq(qReset, k)
                       /\ ~rec[k].inSlab => rec[k] = NoRec
    /\ \A s \in Streams : Cardinality({k \in Keys : k[1] = s /\ rec[k].linked}) <= 1
    /\ \A s \in Streams : rec[Main(s)].refCount = Cardinality({h \in {"recv", "resp", "send"} : app[s][h]})
    /\ \A k \in Keys : k[2] # 0 => rec[k].refCount = 0
\* C19: a record is kept iff it is still needed
KeptIffNeeded == \A k \in Keys : rec[k].inSlab => ~IsReleasedR(rec[k])
=============================================================================
