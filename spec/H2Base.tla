------------------------------- MODULE H2Base -------------------------------
(***************************************************************************)
(* Shared vocabulary of the h2 specification: helpers on partial          *)
(* functions, saturating 32-bit arithmetic (TLC integers are 32-bit and   *)
(* trap on overflow), the frame alphabet, RFC 9113 default settings.      *)
(***************************************************************************)
EXTENDS Naturals, Integers, Sequences, FiniteSets, TLC

MaxI == 2147483647

\* partial functions used as maps keyed by stream id / tag
Get(f, k, d) == IF k \in DOMAIN f THEN f[k] ELSE d
\* (EXCEPT and @@ are implemented natively by TLC: maps with thousands of keys stay cheap)
Put(f, k, v) == IF k \in DOMAIN f THEN [f EXCEPT ![k] = v] ELSE f @@ (k :> v)
EmptyMap == [x \in {} |-> 0]

\* saturating addition on [-MaxI, MaxI]
SatAdd(a, b) ==
    IF a >= 0 /\ b >= 0 THEN (IF b > MaxI - a THEN MaxI ELSE a + b)
    ELSE IF a < 0 /\ b < 0 THEN (IF b < (0 - MaxI) - a THEN 0 - MaxI ELSE a + b)
    ELSE a + b
SatSub(a, b) == SatAdd(a, 0 - b)
\* a + b would exceed 2^31-1 (a, b >= 0 assumed for the interesting case)
Exceeds(a, b) == a >= 0 /\ b >= 0 /\ b > MaxI - a

Max(a, b) == IF a >= b THEN a ELSE b
Min(a, b) == IF a <= b THEN a ELSE b

\* frame type names as logged by the harness parser and emitted by the models
FrameTypes == {"DATA", "HEADERS", "PRIORITY", "RST_STREAM", "SETTINGS", "PUSH_PROMISE",
               "PING", "GOAWAY", "WINDOW_UPDATE", "CONTINUATION", "UNKNOWN"}
ConnFrameTypes   == {"SETTINGS", "PING", "GOAWAY"}
StreamFrameTypes == {"DATA", "HEADERS", "PRIORITY", "RST_STREAM", "PUSH_PROMISE", "CONTINUATION"}

\* RFC 9113 6.5.2 defaults; -1 = unlimited / absent
DefaultSettings == [iws |-> 65535, maxc |-> -1, mfs |-> 16384, htz |-> 4096, push |-> 1, mhl |-> -1, ecp |-> 0]

\* apply the fields present (>= 0) of a SETTINGS frame s to settings record cur
MergeSettings(cur, s) ==
    [iws  |-> IF s.iws  >= 0 THEN s.iws  ELSE cur.iws,
     maxc |-> IF s.maxc >= 0 THEN s.maxc ELSE cur.maxc,
     mfs  |-> IF s.mfs  >= 0 THEN s.mfs  ELSE cur.mfs,
     htz  |-> IF s.htz  >= 0 THEN s.htz  ELSE cur.htz,
     push |-> IF s.push >= 0 THEN s.push ELSE cur.push,
     mhl  |-> IF s.mhl  >= 0 THEN s.mhl  ELSE cur.mhl,
     ecp  |-> IF s.ecp  >= 0 THEN s.ecp  ELSE cur.ecp]

\* a settings record with nothing set
NoSettings == [iws |-> -1, maxc |-> -1, mfs |-> -1, htz |-> -1, push |-> -1, mhl |-> -1, ecp |-> -1, unk |-> 0]

\* error codes (low half; high half is 0 for all registered codes)
NO_ERROR == 0
PROTOCOL_ERROR == 1
INTERNAL_ERROR == 2
FLOW_CONTROL_ERROR == 3
SETTINGS_TIMEOUT == 4
STREAM_CLOSED == 5
FRAME_SIZE_ERROR == 6
REFUSED_STREAM == 7
CANCEL == 8
COMPRESSION_ERROR == 9
CONNECT_ERROR == 10
ENHANCE_YOUR_CALM == 11

\* stream id parity: locally initiated by role
IsClientId(s) == s % 2 = 1
LocalInit(role, s) == IF role = "c" THEN s % 2 = 1 ELSE (s % 2 = 0 /\ s # 0)
Other(ep) == IF ep = "c" THEN "s" ELSE "c"
=============================================================================
