------------------------------ MODULE HpackSys ------------------------------
(***************************************************************************)
(* The closed system of Hpack.tla: a nondeterministic RFC 7541 encoder     *)
(* (any valid representation choice, any legal size-update policy) feeding *)
(* the deterministic decoder, with table-size settings changing between    *)
(* blocks.  TLC checks the sync invariants over all histories for small    *)
(* constants (mc/MC_Hpack.cfg) - the sanity of the contract - and exports  *)
(* header-list histories (one per reachable edge) that the harness replays *)
(* on the real h2 encoder.                                                 *)
(***************************************************************************)
EXTENDS Hpack

(***************************************************************************)
(* encoder -> decoder, closed system                                       *)
(***************************************************************************)
CONSTANTS Fields,      \* set of [n, nl, v, vl, s]: the fields an application may submit (s: sensitive)
          Sizes,       \* table size settings the peer may announce
          InitSize,    \* initial setting (both sides)
          MaxHist      \* bound on the recorded history (events), for export only

VARIABLES enc,    \* [t: encoder's table, lim: current limit, low: smallest limit since last block or -1]
          dec,    \* decoder state (above)
          inblk,  \* a block is open
          sub,    \* fields submitted in the open block
          hist    \* history of events (for export; excluded from the VIEW)
vars == <<enc, dec, inblk, sub, hist>>
view == <<enc, dec, inblk, sub>>

Plain(f) == Fld(f.n, f.nl, f.v, f.vl)

Init == /\ enc = [t |-> [es |-> <<>>, max |-> InitSize], lim |-> InitSize, low |-> -1]
        /\ dec = DecInit(InitSize)
        /\ inblk = FALSE /\ sub = <<>> /\ hist = <<>>

\* the peer changes SETTINGS_HEADER_TABLE_SIZE (acknowledged before the next block)
Setting(n) ==
    /\ ~inblk /\ n # enc.lim
    /\ enc' = [enc EXCEPT !.lim = n, !.low = IF @ < 0 THEN n ELSE Min2(@, n)]
    /\ dec' = DecSetting(dec, n)
    /\ hist' = Append(hist, [set |-> n])
    /\ UNCHANGED <<inblk, sub>>

\* open a block: the encoder emits the size updates it owes / wants
Begin ==
    /\ ~inblk
    /\ \E p \in SizePrefixes(enc.t, enc.low, enc.lim, Sizes \cup {InitSize}) :
          LET t1 == IF p = <<>> THEN enc.t ELSE Resize(IF Len(p) = 2 THEN Resize(enc.t, p[1].i) ELSE enc.t, p[Len(p)].i)
          IN /\ enc' = [enc EXCEPT !.t = t1, !.low = -1]
             /\ dec' = DecSeq(DecBegin(dec), p, 1)
    /\ inblk' = TRUE /\ sub' = <<>>
    /\ hist' = Append(hist, [blk |-> "begin"])

Emit(f) ==
    /\ inblk /\ Len(sub) < 2
    /\ \E r \in EncChoices(enc.t, Plain(f), f.s) :
          /\ enc' = [enc EXCEPT !.t = EncApply(@, r, Plain(f))]
          /\ dec' = DecIns(dec, r)
    /\ sub' = Append(sub, Plain(f))
    /\ hist' = Append(hist, [f |-> f])
    /\ UNCHANGED inblk

End == /\ inblk
       /\ inblk' = FALSE /\ sub' = <<>>
       /\ hist' = Append(hist, [blk |-> "end"])
       /\ UNCHANGED <<enc, dec>>

Next == (\E n \in Sizes : Setting(n)) \/ Begin \/ (\E f \in Fields : Emit(f)) \/ End
Spec == Init /\ [][Next]_vars

\* ---- the properties of the contract itself
SyncInv ==
    /\ dec.err = ""                                   \* a valid encoder never makes the decoder fail
    /\ dec.t = enc.t                                  \* tables stay identical
    /\ inblk => dec.out = sub                         \* decoded = submitted, in order
    /\ TableOK(enc.t) /\ TableOK(dec.t)
    /\ inblk => enc.t.max <= enc.lim                  \* never above what the peer allowed once a block is open
HistBound == Len(hist) <= MaxHist

=============================================================================
