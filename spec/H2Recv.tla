------------------------------- MODULE H2Recv -------------------------------
(***************************************************************************)
(* IMPLEMENTATION layer: receive-side flow control of h2's stream layer -   *)
(* src/proto/streams/recv.rs (recv_data, ignore_data, consume_connection_  *)
(* window, release_capacity, release_connection_capacity, clear_recv_      *)
(* buffer, set_target_connection_window, apply_local_settings, send_       *)
(* connection_window_update, send_stream_window_updates) and               *)
(* flow_control.rs (unclaimed_capacity with its 1/2 threshold).            *)
(* Variables are the fields the code keeps (projected):                    *)
(*   per stream  recv_flow.window_size / .available, in_flight_recv_data,  *)
(*               is_recv, pending_recv (data events), receive state        *)
(*   connection  Recv.flow (window / available), in_flight_data,           *)
(*               init_window_sz, pending_window_updates queue, the local   *)
(*               SETTINGS in flight (applied only at the peer's ACK).      *)
(* Streams are peer-initiated and already open for receiving.             *)
(* Every action emits the observable events it produces (wire frames, API *)
(* results) for the contract monitors.                                     *)
(***************************************************************************)
EXTENDS H2Base, TLC

CONSTANTS Streams

VARIABLES rs,      \* rs[s]: "open" | "ended" (END_STREAM received) | "lreset" / "lresetE" (reset locally, frames ignored) | "rreset"
          rwin,    \* recv_flow.window_size
          ravail,  \* recv_flow.available
          infl,    \* in_flight_recv_data
          isRecv,  \* is_recv (a RecvStream handle still cares)
          pbuf,    \* pending_recv: Seq of data payload lengths buffered for the application
          pwu,     \* pending_window_updates queue (Seq of stream ids)
          cwinR, cavailR, cinfl,   \* Recv.flow window / available, in_flight_data
          initWinR,\* Recv.init_window_sz (the acknowledged local INITIAL_WINDOW_SIZE)
          localSet,\* local SETTINGS sent and not yet acknowledged: -1 none, else the value
          okR,     \* FALSE if an assertion of the code would fire / an unexpected error path is taken
          evs      \* events emitted by the last action

rvars == <<rs, rwin, ravail, infl, isRecv, pbuf, pwu, cwinR, cavailR, cinfl, initWinR, localSet, okR, evs>>

\* ---- event constructors (same shapes as the harness logs; role = server) ----------
BaseHdr == [ok |-> TRUE, canon |-> "", cls |-> <<>>, status |-> 0, cl |-> -1, n |-> 0, size |-> 0]
BaseFrame == [ty |-> "", tyn |-> 0, fl |-> 0, sid |-> 0, len |-> 0, es |-> FALSE, eh |-> FALSE, ack |-> FALSE, bad |-> "",
              inc |-> 0, ch |-> 0, cl |-> 0, last |-> 0, dbg |-> 0, dlen |-> 0, pl |-> "", prom |-> 0,
              hb |-> FALSE, bes |-> FALSE, blen |-> 0, bt |-> "", pcls |-> <<>>, set |-> NoSettings, hdr |-> BaseHdr]
NoErr == [kind |-> "", rh |-> 0, rl |-> 0, has |-> FALSE, remote |-> FALSE, library |-> FALSE, iokind |-> "", msg |-> ""]
BaseApi == [t |-> "api", ep |-> "s", task |-> "m", call |-> "", sid |-> 0, tag |-> 0, res |-> "ok", n |-> 0, v |-> 0, eos |-> FALSE,
            off |-> 0, intact |-> TRUE, hdr |-> "", status |-> 0, ch |-> 0, cl |-> 0, e |-> NoErr, psid |-> 0]
Out(f) == [t |-> "out", ep |-> "s", idx |-> 0, f |-> f]
In(f)  == [t |-> "in", ep |-> "s", idx |-> 0, f |-> f]
DataF(s, n, pad, es) == [BaseFrame EXCEPT !.ty = "DATA", !.sid = s, !.len = n + pad, !.dlen = n, !.es = es]
WuF(s, n) == [BaseFrame EXCEPT !.ty = "WINDOW_UPDATE", !.sid = s, !.len = 4, !.inc = n]
RstF(s, c) == [BaseFrame EXCEPT !.ty = "RST_STREAM", !.sid = s, !.len = 4, !.cl = c]
SetF(v) == [BaseFrame EXCEPT !.ty = "SETTINGS", !.len = 6, !.set = [NoSettings EXCEPT !.iws = v]]
SetAckF == [BaseFrame EXCEPT !.ty = "SETTINGS", !.ack = TRUE]
Api(call, s, res, n) == [BaseApi EXCEPT !.call = call, !.sid = s, !.tag = s, !.res = res, !.n = n]
Rd == [t |-> "rd", ep |-> "s", n |-> 1]

\* ---- flow_control.rs ---------------------------------------------------------------
\* FlowControl::unclaimed_capacity: Some(available - window) if that is at least window / 2
Unclaimed(w, a) ==
    IF w >= a THEN 0
    ELSE LET u == a - w
             threshold == (w \div 2)        \* window_size / UNCLAIMED_DENOMINATOR * UNCLAIMED_NUMERATOR
         IN IF u < threshold THEN 0 ELSE u
PushQ(queue, s) == IF \E i \in 1..Len(queue) : queue[i] = s THEN queue ELSE Append(queue, s)
Clamp0(x) == IF x < 0 THEN 0 ELSE x

\* ---- initial state -------------------------------------------------------------------
Init0(iw, cw) ==
    /\ rs = [s \in Streams |-> "open"]
    /\ rwin = [s \in Streams |-> iw] /\ ravail = [s \in Streams |-> iw]
    /\ infl = [s \in Streams |-> 0] /\ isRecv = [s \in Streams |-> TRUE]
    /\ pbuf = [s \in Streams |-> <<>>] /\ pwu = <<>>
    /\ cwinR = cw /\ cavailR = cw /\ cinfl = 0
    /\ initWinR = iw /\ localSet = -1 /\ okR = TRUE /\ evs = <<>>

\* ---- Recv::release_connection_capacity (functional on the connection triple) -----------
RelConn(ca, ci, n) == [cavail |-> ca + n, cinfl |-> ci - n]

\* ---- peer frames ------------------------------------------------------------------------
\* DATA frame with n payload octets and pad octets of padding (pad includes the pad-length octet)
RecvData(s, n, pad, es) ==
    LET sz == n + pad IN
    /\ rs[s] \in {"open", "lreset"}                 \* a legal peer does not send DATA after its own END_STREAM / RST
    /\ evs' = <<In(DataF(s, n, pad, es)), Rd>>
    /\ IF rs[s] = "lreset"
       THEN \* ignore_data: consume the connection window and give it back at once
            /\ okR' = (okR /\ Clamp0(cwinR) >= sz)
            /\ cwinR' = cwinR - sz
            /\ cavailR' = cavailR - sz + sz
            /\ cinfl' = cinfl + sz - sz
            /\ rs' = IF es THEN [rs EXCEPT ![s] = "lresetE"] ELSE rs
            /\ UNCHANGED <<rwin, ravail, infl, isRecv, pbuf, pwu, initWinR, localSet>>
       ELSE \* consume_connection_window
            /\ okR' = (okR /\ Clamp0(cwinR) >= sz /\ Clamp0(rwin[s]) >= sz)   \* else FLOW_CONTROL_ERROR: a legal peer never gets there
            /\ cwinR' = cwinR - sz
            /\ rs' = IF es THEN [rs EXCEPT ![s] = "ended"] ELSE rs
            /\ IF ~isRecv[s]
               THEN \* "no one cared": release_connection_capacity(sz)
                    /\ cavailR' = cavailR - sz + sz /\ cinfl' = cinfl
                    /\ UNCHANGED <<rwin, ravail, infl, isRecv, pbuf, pwu, initWinR, localSet>>
               ELSE \* stream.recv_flow.send_data(sz); in_flight += sz; padding auto-released through release_capacity
                    LET w1 == rwin[s] - sz
                        a1 == ravail[s] - sz
                        a2 == a1 + pad
                        queue == pad > 0 /\ Unclaimed(w1, a2) > 0
                    IN /\ rwin' = [rwin EXCEPT ![s] = w1]
                       /\ ravail' = [ravail EXCEPT ![s] = a2]
                       /\ infl' = [infl EXCEPT ![s] = infl[s] + sz - pad]
                       /\ cavailR' = cavailR - sz + pad
                       /\ cinfl' = cinfl + sz - pad
                       /\ pwu' = IF queue THEN PushQ(pwu, s) ELSE pwu
                       /\ pbuf' = IF n = 0 /\ ~es THEN pbuf ELSE [pbuf EXCEPT ![s] = Append(pbuf[s], n)]
                       /\ UNCHANGED <<isRecv, initWinR, localSet>>

\* RST_STREAM from the peer: the receive half is dead; buffered data stays for the application to drain
RecvRst(s) ==
    /\ rs[s] \in {"open", "ended"}
    /\ evs' = <<In(RstF(s, 8)), Rd>>
    /\ rs' = [rs EXCEPT ![s] = "rreset"]
    /\ UNCHANGED <<rwin, ravail, infl, isRecv, pbuf, pwu, cwinR, cavailR, cinfl, initWinR, localSet, okR>>

\* the peer acknowledges our SETTINGS: Recv::apply_local_settings
RecvSettingsAck ==
    /\ localSet >= 0
    /\ evs' = <<In(SetAckF), Rd>>
    /\ localSet' = -1
    /\ initWinR' = localSet
    /\ IF localSet < initWinR
       THEN LET dec == initWinR - localSet
                \* (repaired behaviour, fix 7b4822f: streams whose released capacity now passes the shrunken threshold are queued;
                \*  the store is visited in insertion order = ascending id here)
                RECURSIVE Q(_, _)
                Q(queue, todo) == IF todo = {} THEN queue
                                  ELSE LET s == CHOOSE x \in todo : \A y \in todo : x <= y
                                       IN Q(IF Unclaimed(rwin[s] - dec, ravail[s] - dec) > 0 THEN PushQ(queue, s) ELSE queue, todo \ {s})
            IN /\ rwin' = [s \in Streams |-> rwin[s] - dec]
               /\ ravail' = [s \in Streams |-> ravail[s] - dec]
               /\ pwu' = Q(pwu, Streams)
       ELSE LET inc == localSet - initWinR IN
            /\ rwin' = [s \in Streams |-> rwin[s] + inc]
            /\ ravail' = [s \in Streams |-> ravail[s] + inc]
            /\ pwu' = pwu
    /\ UNCHANGED <<rs, infl, isRecv, pbuf, cwinR, cavailR, cinfl, okR>>

\* ---- application calls ---------------------------------------------------------------------
\* RecvStream::poll_data taking one buffered chunk
PollData(s) ==
    /\ isRecv[s] /\ pbuf[s] # <<>>
    /\ evs' = <<[Api("poll_data", s, "some", Head(pbuf[s])) EXCEPT !.eos = (rs[s] = "ended" /\ Len(pbuf[s]) = 1)]>>
    /\ pbuf' = [pbuf EXCEPT ![s] = Tail(pbuf[s])]
    /\ UNCHANGED <<rs, rwin, ravail, infl, isRecv, pwu, cwinR, cavailR, cinfl, initWinR, localSet, okR>>

\* FlowControl::release_capacity(n)
Release(s, n) ==
    /\ isRecv[s]
    /\ IF n > infl[s]
       THEN /\ evs' = <<Api("release", s, "err", n)>>
            /\ UNCHANGED <<rs, rwin, ravail, infl, isRecv, pbuf, pwu, cwinR, cavailR, cinfl, initWinR, localSet, okR>>
       ELSE LET a2 == ravail[s] + n IN
            /\ evs' = <<Api("release", s, "ok", n)>>
            /\ cavailR' = cavailR + n /\ cinfl' = cinfl - n
            /\ infl' = [infl EXCEPT ![s] = infl[s] - n]
            /\ ravail' = [ravail EXCEPT ![s] = a2]
            /\ pwu' = IF Unclaimed(rwin[s], a2) > 0 THEN PushQ(pwu, s) ELSE pwu
            /\ UNCHANGED <<rs, rwin, isRecv, pbuf, cwinR, initWinR, localSet, okR>>

\* drop of the RecvStream: is_recv = false; clear_recv_buffer
SumSeq(q) == LET F[i \in 0..Len(q)] == IF i = 0 THEN 0 ELSE F[i - 1] + q[i] IN F[Len(q)]
DropRecv(s) ==
    /\ isRecv[s]
    /\ LET rel == Min(SumSeq(pbuf[s]), infl[s]) IN
       /\ evs' = <<Api("drop_recv", s, "ok", 0)>>
       /\ isRecv' = [isRecv EXCEPT ![s] = FALSE]
       /\ pbuf' = [pbuf EXCEPT ![s] = <<>>]
       /\ infl' = [infl EXCEPT ![s] = infl[s] - rel]
       /\ cavailR' = cavailR + rel /\ cinfl' = cinfl - rel
       /\ UNCHANGED <<rs, rwin, ravail, pwu, cwinR, initWinR, localSet, okR>>

\* the application resets the stream: from now on its frames are ignored (is_local_error)
LocalReset(s) ==
    /\ rs[s] \in {"open", "ended"}
    /\ evs' = <<[Api("send_reset", s, "ok", 0) EXCEPT !.cl = 8], Out(RstF(s, 8))>>
    /\ rs' = [rs EXCEPT ![s] = IF rs[s] = "open" THEN "lreset" ELSE "lresetE"]   \* lresetE: the peer had already ended, it sends nothing more
    /\ UNCHANGED <<rwin, ravail, infl, isRecv, pbuf, pwu, cwinR, cavailR, cinfl, initWinR, localSet, okR>>

\* Connection::set_target_window_size
SetTarget(t) ==
    /\ LET current == cavailR + cinfl IN
       /\ okR' = (okR /\ current >= 0)
       /\ cavailR' = cavailR + (t - current)
    /\ evs' = <<[Api("set_target_window", 0, "ok", 0) EXCEPT !.v = t]>>
    /\ UNCHANGED <<rs, rwin, ravail, infl, isRecv, pbuf, pwu, cwinR, cinfl, initWinR, localSet>>

\* Connection::set_initial_window_size: a SETTINGS frame goes out, nothing changes until the ACK
SetInitialWindow(v) ==
    /\ localSet = -1
    /\ localSet' = v
    /\ evs' = <<[Api("set_initial_window", 0, "ok", 0) EXCEPT !.v = v], Out(SetF(v))>>
    /\ UNCHANGED <<rs, rwin, ravail, infl, isRecv, pbuf, pwu, cwinR, cavailR, cinfl, initWinR, okR>>

\* ---- connection task ----------------------------------------------------------------------------
\* Recv::send_connection_window_update
ConnWU ==
    /\ Unclaimed(cwinR, cavailR) > 0
    /\ evs' = <<Out(WuF(0, Unclaimed(cwinR, cavailR)))>>
    /\ cwinR' = cwinR + Unclaimed(cwinR, cavailR)
    /\ UNCHANGED <<rs, rwin, ravail, infl, isRecv, pbuf, pwu, cavailR, cinfl, initWinR, localSet, okR>>

\* Recv::send_stream_window_updates, one iteration
StreamWU ==
    /\ pwu # <<>>
    /\ LET s == Head(pwu)
           u == Unclaimed(rwin[s], ravail[s])
       IN /\ pwu' = Tail(pwu)
          /\ IF rs[s] = "open" /\ u > 0
             THEN /\ evs' = <<Out(WuF(s, u))>>
                  /\ rwin' = [rwin EXCEPT ![s] = rwin[s] + u]
             ELSE /\ evs' = <<>> /\ rwin' = rwin
    /\ UNCHANGED <<rs, ravail, infl, isRecv, pbuf, cwinR, cavailR, cinfl, initWinR, localSet, okR>>

ConnIdle == pwu = <<>> /\ Unclaimed(cwinR, cavailR) = 0

\* ---- invariants of the implementation state -------------------------------------------------------
\* connection: what is available plus what is in flight is the target
ConnConservation == cavailR + cinfl >= 0
NoAssertR == okR
StreamAvailBound == \A s \in Streams : ravail[s] >= rwin[s]     \* window never above what we are prepared to receive
=============================================================================
